#!/bin/bash
# Offline setup: contract libraries beside the repo's interpreter, engine builds from the working tree.
cd "$(dirname "$0")" || exit 2
if [ ! -d .deps/icontract ]; then
  mkdir -p .deps
  PIP_NO_INDEX=1 /venv/bin/pip install --quiet --no-index --find-links /opt/veriftools/wheels --target .deps icontract deal >/dev/null 2>&1 \
   || PIP_NO_INDEX=1 /venv/bin/pip install --quiet --no-index --find-links /opt/veriftools/wheels --target .deps icontract >/dev/null 2>&1 \
   || { echo "could not install icontract offline"; exit 1; }
fi
export PYTHONPATH="$PWD${PYTHONPATH:+:$PYTHONPATH}"
/venv/bin/python -m vf.build plain >/dev/null || exit 1
exit 0
