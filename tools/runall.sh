#!/bin/bash
# Runs every claimed check (quick by default) sequentially against /repo; prints one line per check.
cd "$(dirname "$0")/.." || exit 2
tier="${1:-quick}"
ids=$(python3 -c "import json;print(' '.join(c['property_id'] for c in json.load(open('MANIFEST.json'))['checks']))")
rc_all=0
for id in $ids; do
  s=$(date +%s)
  out=$(./check "$id" "$tier" 2>&1); rc=$?
  e=$(date +%s)
  printf "%s rc=%d %4ds  %s\n" "$id" "$rc" "$((e-s))" "$(echo "$out" | grep -c '^VIOLATION') violations, $(echo "$out" | grep -c '^KNOWN-FINDING') known"
  [ $rc -ne 0 ] && rc_all=1 && echo "$out" | grep -E '^(VIOLATION|INCONCLUSIVE)' | head -5
done
exit $rc_all
