"""Self-made breaks of the quantity arithmetic in units.py that C05 must catch
(name, file relative to the repository, old text, new text, checks)."""
U = "src/strengths/units.py"
MUTATIONS = [
 # right operand of a product keeps its own unit system (silently wrong value)
 ("c05-product-right-not-converted", U,
  "            v = v.convert(self.units.sys)\n            return UnitValue(self.value * v.value, self.units.multiply(v.units))",
  "            return UnitValue(self.value * v.value, self.units.multiply(Units(self.units.sys, v.units.dim)))", ["C05"]),
 # number - quantity has the wrong sign
 ("c05-rsub-sign", U, "        return _neg(self._sum(_neg(v)))", "        return self._sum(_neg(v))", ["C05"]),
 # number % quantity computes quantity % number
 ("c05-rmodulo-swapped", U, "            return UnitValue(v%self.value, self.units)",
  "            return UnitValue(self.value%v, self.units)", ["C05"]),
 # dimension of a product: exponents subtracted
 ("c05-units-multiply-subtracts", U, "sdim[k] = self.dim[k] + u.dim[k]", "sdim[k] = self.dim[k] - u.dim[k]", ["C05"]),
 # 1/x keeps the time exponent
 ("c05-invert-keeps-time-exponent", U, "            invdim[k] = -self.dim[k]",
  "            invdim[k] = -self.dim[k] if k != \"time\" else self.dim[k]", ["C05"]),
 # array + array of another length: no length check
 ("c05-array-sum-no-length-check", U,
  "            if len(self) != len(v) :\n                raise ValueError(\"operations between UnitArrays require both the have the same length.\")\n"
  "            v = v.convert(self.units.sys)\n            return UnitArray([self.value[i] + v.value[i] for i in range(len(self))], self.units)",
  "            v = v.convert(self.units.sys)\n            return UnitArray([self.value[i] + v.value[i] for i in range(len(self))], self.units)", ["C05"]),
 # > compares the raw numbers
 ("c05-gt-no-conversion", U, "return (self.value > v.convert(self.units.sys).value)", "return (self.value > v.value)", ["C05"]),
 # == compares the raw numbers
 ("c05-eq-no-conversion", U, "return (self.value == v.convert(self.units.sys).value)", "return (self.value == v.value)", ["C05"]),
 # <= with a number is strict
 ("c05-le-number-strict", U, "            return self.value <= v\n", "            return self.value < v\n", ["C05"]),
 # ** to a non-integer resulting exponent does not raise (truncates)
 ("c05-raiseto-no-raise", U,
  "                raise ValueError(\"error : when raising a UnitValue to some power, the resulting unit dimensions must be integers.\")",
  "                pass", ["C05"]),
 # ** rounds the resulting exponent to the nearest integer
 ("c05-raiseto-rounds", U, "            rdim[k] = int(self.dim[k] * e)\n            if self.dim[k]*e - rdim[k] != 0 :",
  "            rdim[k] = int(round(self.dim[k] * e))\n            if abs(self.dim[k]*e - rdim[k]) > 0.5 :", ["C05"]),
 # value + value of another dimension is accepted
 ("c05-sum-dimension-check-dropped", U,
  "            if self.units.dim == v.units.dim :\n                return UnitValue(self.value + v.convert(self.units.sys).value, self.units)",
  "            if True :\n                return UnitValue(self.value + v.convert(self.units.sys).value, self.units)", ["C05"]),
 # value % value: modulus not converted
 ("c05-modulo-modulus-not-converted", U, "return UnitValue(self.value % mod.convert(self.units.sys).value, self.units)",
  "return UnitValue(self.value % mod.value, self.units)", ["C05"]),
 # array + value: the value keeps its own unit system
 ("c05-array-sum-value-not-converted", U,
  "            v = v.convert(self.units.sys)\n            return UnitArray([self.value[i] + v.value for i in range(len(self))], self.units)",
  "            return UnitArray([self.value[i] + v.value for i in range(len(self))], self.units)", ["C05"]),
 # abs(array) returns the array
 ("c05-array-abs-identity", U, "return UnitArray(abs(self.value), self.units)", "return UnitArray(self.value, self.units)", ["C05"]),
 # 1/quantity keeps the units
 ("c05-invert-units-not-inverted", U, "return UnitValue(1/self.value, self.units.invert())", "return UnitValue(1/self.value, self.units)", ["C05"]),
]
