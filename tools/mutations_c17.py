"""Self-made 'breaks to catch' for C17 (trajectory accessors): (name, file, old, new, checks)."""
F = "src/strengths/rdoutput.py"
MUTATIONS = [
 # per-cell trajectory read with species and cell axes swapped
 ("c17-trajectory-reshape-cells-species", F,
  "return UnitArray(self.data.value.reshape((self.nsamples(), self.nspecies(), self.ncells()))[:,species_index, cell_index], self.data.units, check_value=False)",
  "return UnitArray(self.data.value.reshape((self.nsamples(), self.ncells(), self.nspecies()))[:,cell_index, species_index], self.data.units, check_value=False)",
  ["C17"]),
 # the documentation's own (wrong) formula: nsamples used as a stride
 ("c17-point-stride-nsamples", F,
  "return self.data.get_at(sample_index*self.nspecies()*self.ncells() + species_index*self.ncells() + cell_index)",
  "return self.data.get_at(sample_index*self.nsamples()*self.ncells() + species_index*self.ncells() + cell_index)",
  ["C17"]),
 ("c17-point-species-stride-nspecies", F,
  "species_index*self.ncells() + cell_index)",
  "species_index*self.nspecies() + cell_index)",
  ["C17"]),
 # per-sample state read from a (samples, cells, species) view
 ("c17-state-reshape-cells-species", F,
  "self.data.value.reshape((self.nsamples(), self.nspecies(), self.ncells()))[sample_index, species_index, :], self.data.units, check_value=False)",
  "self.data.value.reshape((self.nsamples(), self.ncells(), self.nspecies()))[sample_index, :, species_index], self.data.units, check_value=False)",
  ["C17"]),
 # whole state taken as a column of the transposed layout
 ("c17-whole-state-reshape", F,
  "self.data.value.reshape((self.nsamples(), self.nspecies()*self.ncells()))[sample_index, : ], self.data.units, check_value=False)",
  "self.data.value.reshape((self.nspecies()*self.ncells(), self.nsamples()))[:, sample_index], self.data.units, check_value=False)",
  ["C17"]),
 # merged trajectory sums over species at one cell instead of over cells
 ("c17-merge-sums-over-species", F,
  "self.data.value.reshape((self.nsamples(), self.nspecies(), self.ncells()))[:,species_index, :]], self.data.units, check_value=False)",
  "self.data.value.reshape((self.nsamples(), self.nspecies(), self.ncells()))[:, :, cell_index]], self.data.units, check_value=False)",
  ["C17"]),
 # closest: a tie goes to the later sample
 ("c17-closest-tie-later", F,
  "if dt0<=dt1 : ",
  "if dt0<dt1 : ",
  ["C17"]),
 # closest: distance to the wrong neighbour (interval length instead of distance to the next sample)
 ("c17-closest-wrong-neighbour", F,
  "dt1 = self.t.get_at(i+1)-t",
  "dt1 = self.t.get_at(i+1)-self.t.get_at(i)",
  ["C17"]),
 # closest: a query exactly on the last sample falls through
 ("c17-closest-last-strict", F,
  "if t>=self.t.get_at(self.nsamples()-1) :\n            return self.nsamples()-1\n        \n        for i in range(self.nsamples()-1) :\n            if t>=self.t.get_at(i) and t<self.t.get_at(i+1):\n                dt0",
  "if t>self.t.get_at(self.nsamples()-1) :\n            return self.nsamples()-1\n        \n        for i in range(self.nsamples()-1) :\n            if t>=self.t.get_at(i) and t<self.t.get_at(i+1):\n                dt0",
  ["C17"]),
 # infeq: a query exactly on the first sample is rejected
 ("c17-infeq-first-nonstrict", F,
  "if t<self.t.get_at(0) :\n            return None",
  "if t<=self.t.get_at(0) :\n            return None",
  ["C17"]),
 # infeq: a query exactly on the last sample falls through
 ("c17-infeq-last-strict", F,
  "if t>=self.t.get_at(self.nsamples()-1) :\n            return self.nsamples()-1\n        \n        for i in range(self.nsamples()-1) :\n            if t>=self.t.get_at(i) and t<self.t.get_at(i+1):\n                return i\n",
  "if t>self.t.get_at(self.nsamples()-1) :\n            return self.nsamples()-1\n        \n        for i in range(self.nsamples()-1) :\n            if t>=self.t.get_at(i) and t<self.t.get_at(i+1):\n                return i\n",
  ["C17"]),
 # infeq: interval closed on the wrong side
 ("c17-infeq-interval-ends-swapped", F,
  "if t>=self.t.get_at(i) and t<self.t.get_at(i+1):\n                return i\n",
  "if t>self.t.get_at(i) and t<=self.t.get_at(i+1):\n                return i\n",
  ["C17"]),
 ("c17-infeq-returns-next", F,
  "if t>=self.t.get_at(i) and t<self.t.get_at(i+1):\n                return i\n",
  "if t>=self.t.get_at(i) and t<self.t.get_at(i+1):\n                return i+1\n",
  ["C17"]),
 # supeq: a query exactly on the first sample falls through
 ("c17-supeq-first-strict", F,
  "if t<=self.t.get_at(0) :\n            return 0\n        \n        if t==self.t.get_at(self.nsamples()-1) :",
  "if t<self.t.get_at(0) :\n            return 0\n        \n        if t==self.t.get_at(self.nsamples()-1) :",
  ["C17"]),
 ("c17-supeq-interval-ends-swapped", F,
  "if t>self.t.get_at(i) and t<=self.t.get_at(i+1):\n                return i+1",
  "if t>=self.t.get_at(i) and t<self.t.get_at(i+1):\n                return i+1",
  ["C17"]),
 ("c17-supeq-returns-previous", F,
  "if t>self.t.get_at(i) and t<=self.t.get_at(i+1):\n                return i+1",
  "if t>self.t.get_at(i) and t<=self.t.get_at(i+1):\n                return i",
  ["C17"]),
 # a bare number is read in the default time unit (s) instead of the trajectory's
 ("c17-lookup-number-in-default-unit", F,
  "t = UnitValue(t, self.t.units, convert=True)",
  "t = UnitValue(t, Units(UnitsSystem(), self.t.units.dim), convert=True)",
  ["C17"]),
]
