#!/usr/bin/env python3
"""Rewrite the table of seeded changes at the end of DESIGN.md section 11 from seeded/*/meta.json."""
import glob
import json
import os
import re

ROOT = os.path.dirname(os.path.dirname(os.path.abspath(__file__)))


def clean(s, n):
    s = re.sub(r"\s+", " ", str(s)).replace("|", "/")
    return s[:n]


def key(name):
    m = re.match(r"C(\d+)-(?:r(\d+))?([ab])", name)
    return (int(m.group(1)), int(m.group(2) or 1), m.group(3))


rows = []
for d in sorted(glob.glob(os.path.join(ROOT, "seeded", "*")), key=lambda p: key(os.path.basename(p))):
    name = os.path.basename(d)
    m = json.load(open(os.path.join(d, "meta.json")))
    ev = m.get("evaluation", {})
    checks = ev.get("checks", {})
    verdict = " ".join("%s:%s" % (c, v["verdict"]) for c, v in checks.items())
    first = next((v["violation_kinds"][0] for v in checks.values() if v.get("violation_kinds")), "")
    earlier = m.get("earlier_evaluations") or []
    was_missed = any(v.get("verdict") == "MISSED" for e in earlier for v in e.values())
    caught = any(v.get("verdict") == "caught" for v in checks.values())
    if was_missed and caught:
        verdict += " (missed before the check was strengthened)"
    elif not caught:
        verdict += " (not judged: see the round's notes above)"
    rows.append("| %s | %s | %s | %s | %s |" % (name, clean(m.get("summary", ""), 170), clean(m.get("needs", ""), 115), verdict, clean(first, 75)))

p = os.path.join(ROOT, "DESIGN.md")
s = open(p, encoding="utf-8").read()
start = s.index("Current verdicts of all ")
head = ("Current verdicts of all %d changes (quick tier; the violation kind that fired first; regenerate with "
        "`tools/seedtable.py`):\n\n| change | what it does | needs | check verdict | first kind |\n|---|---|---|---|---|\n" % len(rows))
open(p, "w", encoding="utf-8").write(s[:start] + head + "\n".join(rows) + "\n")
print(len(rows), "rows")
