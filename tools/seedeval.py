#!/usr/bin/env python3
"""Confirm and evaluate a seeded change written by an independent agent.

usage: tools/seedeval.py /tmp/seed-C08/_seed/a [--checks C08,C14] [--tier quick] [--keep]

Steps (all in a fresh scratch worktree of /repo under /tmp, removed afterwards):
 1. demo.py on the unmodified tree must PASS (exit 0);
 2. apply patch.diff, rebuild the engine library beside the sources (the demo and the tests load it);
 3. the repository's tests must give the baseline result (118 baseline tests pass);
 4. demo.py must FAIL (exit != 0);
 5. the named checks (default: the property of meta.json) are run with VERIF_REPO=<worktree>;
 6. the change is stored under /verif/seeded/<property>-<name>/ with meta.json extended by what was run and seen.
"""
import argparse
import json
import os
import shutil
import subprocess
import sys
import tempfile
import time
import xml.etree.ElementTree as ET

ROOT = os.path.dirname(os.path.dirname(os.path.abspath(__file__)))
SO = "src/strengths/engines/strengths_engine/engine.cpython-312-x86_64-linux-gnu.so"


def sh(cmd, **kw):
    return subprocess.run(cmd, shell=True, capture_output=True, text=True, **kw)


def build_engine(wt):
    r = sh("cd %s && g++ -std=c++11 -O2 -fPIC -shared src/strengths/engines/strengths_engine/src/engine.cpp -o %s" % (wt, SO))
    return r.returncode == 0, r.stderr[-500:]


def run_tests(wt):
    x = os.path.join(wt, "_junit.xml")
    sh("cd %s && PYTHONPATH=%s/src /venv/bin/python -m pytest -q -p no:cacheprovider --timeout=900 --junitxml=%s tests" % (wt, wt, x))
    base = set(json.load(open("/root/.vp/BASELINE.json"))["stable_pass"])
    ok = set()
    try:
        for tc in ET.parse(x).getroot().iter("testcase"):
            if not any(ch.tag in ("failure", "error", "skipped") for ch in tc):
                ok.add(tc.get("classname") + "::" + tc.get("name"))
    except Exception as e:
        return False, "junit unreadable: %s" % e
    missing = sorted(base - ok)
    return not missing, "%d/%d baseline tests pass%s" % (len(base & ok), len(base), (" ; NOT passing: " + ", ".join(missing[:4])) if missing else "")


def run_demo(wt, demo):
    r = sh("cd %s && PYTHONPATH=%s/src timeout 300 /venv/bin/python -W ignore %s" % (wt, wt, demo))
    return r.returncode, (r.stdout + r.stderr)[-400:]


def main():
    ap = argparse.ArgumentParser()
    ap.add_argument("dir")
    ap.add_argument("--checks", default="")
    ap.add_argument("--tier", default="quick")
    ap.add_argument("--name", default="")
    a = ap.parse_args()
    d = os.path.abspath(a.dir)
    meta = json.load(open(os.path.join(d, "meta.json")))
    pid = meta["property"]
    name = a.name or ("%s-%s" % (pid, os.path.basename(d)))
    checks = [c for c in (a.checks.split(",") if a.checks else [pid]) if c]
    wt = tempfile.mkdtemp(prefix="seedeval-", dir="/tmp")
    os.rmdir(wt)
    r = sh("git -C /repo worktree add --detach %s HEAD" % wt)
    if r.returncode:
        print("worktree failed", r.stderr)
        return 2
    res = {"name": name, "property": pid}
    try:
        # same relative place as in the seeder's worktree (<worktree>/_seed/<x>/demo.py): some demos locate the sources from it
        os.makedirs(os.path.join(wt, "_seed", "x"))
        demo = os.path.join(wt, "_seed", "x", "demo.py")
        txt = open(os.path.join(d, "demo.py"), encoding="utf-8").read()
        # demos must not depend on the seeder's own worktree path
        seed_wt = os.path.dirname(os.path.dirname(d))
        txt = txt.replace(seed_wt, wt)
        open(demo, "w", encoding="utf-8").write(txt)
        ok, err = build_engine(wt)
        rc0, out0 = run_demo(wt, demo)
        res["demo_on_unmodified"] = "PASS" if rc0 == 0 else "rc=%d %s" % (rc0, out0[-200:])
        ap_ = sh("git -C %s apply --whitespace=nowarn %s" % (wt, os.path.join(d, "patch.diff")))
        if ap_.returncode:
            ap_ = sh("git -C %s apply --whitespace=nowarn --ignore-whitespace %s" % (wt, os.path.join(d, "patch.diff")))
        res["patch_applies"] = ap_.returncode == 0
        if ap_.returncode:
            res["patch_error"] = ap_.stderr[-300:]
            print(json.dumps(res, indent=1))
            return 1
        ok, err = build_engine(wt)
        res["builds"] = ok
        tok, tmsg = run_tests(wt)
        res["tests"] = tmsg
        rc1, out1 = run_demo(wt, demo)
        res["demo_with_change"] = "FAIL (rc=%d)" % rc1 if rc1 != 0 else "PASS (change not demonstrated)"
        res["demo_output_tail"] = out1[-300:]
        res["confirmed"] = bool(rc0 == 0 and rc1 != 0 and tok and ok)
        res["checks"] = {}
        for c in checks:
            env = dict(os.environ, VERIF_REPO=wt, VERIF_TIER=a.tier, VERIF_EVIDENCE_DIR=os.path.join(wt, ".evidence"))
            t0 = time.time()
            rr = subprocess.run([os.path.join(ROOT, "check"), c, a.tier], capture_output=True, text=True, env=env)
            kinds = sorted({l.split("kind=")[-1][:90] for l in rr.stdout.split("\n") if l.startswith("VIOLATION")})
            res["checks"][c] = {"verdict": {0: "MISSED", 1: "caught", 2: "inconclusive"}.get(rr.returncode, "rc%d" % rr.returncode),
                                "tier": a.tier, "wall_s": round(time.time() - t0, 1), "violation_kinds": kinds[:4]}
        out = os.path.join(ROOT, "seeded", name)
        os.makedirs(out, exist_ok=True)
        shutil.copy(os.path.join(d, "patch.diff"), os.path.join(out, "patch.diff"))
        open(os.path.join(out, "demo.py"), "w", encoding="utf-8").write(open(os.path.join(d, "demo.py"), encoding="utf-8").read())
        try:
            prev = json.load(open(os.path.join(out, "meta.json")))
            meta["earlier_evaluations"] = prev.get("earlier_evaluations", []) + [prev["evaluation"]["checks"]]
        except Exception:
            pass
        meta["evaluation"] = res
        meta["what_was_run"] = ["demo.py on the unmodified tree", "git apply patch.diff in a scratch worktree, engine rebuilt",
                                "repository tests (118 baseline tests)", "demo.py with the change",
                                "./check <ID> %s with VERIF_REPO=<worktree>" % a.tier]
        json.dump(meta, open(os.path.join(out, "meta.json"), "w"), indent=1, ensure_ascii=False)
        print("%-10s confirmed=%s tests[%s] demo[%s -> %s] %s" % (name, res["confirmed"], tmsg, res["demo_on_unmodified"][:12],
                                                                   res["demo_with_change"][:14],
                                                                   " ".join("%s:%s(%ss)" % (c, v["verdict"], v["wall_s"]) for c, v in res["checks"].items())))
        for c, v in res["checks"].items():
            if v["violation_kinds"]:
                print("      %s kinds: %s" % (c, v["violation_kinds"][:3]))
    finally:
        sh("git -C /repo worktree remove --force %s" % wt)
        shutil.rmtree(wt, ignore_errors=True)
    return 0


if __name__ == "__main__":
    sys.exit(main())
