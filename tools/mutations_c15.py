"""Self-made 'breaks to catch' for C15 (grid geometry, grid == graph): (name, file, old, new, checks)."""
E = "src/strengths/engines/strengths_engine/src/"
P = "src/strengths/"
MUTATIONS = [
 # the defect found in the original tree (every integer was "within bounds")
 ("c15-within-bounds-or", P + "rdgridspace.py",
  "return (int(position)>=0 and int(position)<self.size())",
  "return (int(position)>=0 or int(position)<self.size())", ["C15"]),
 ("c15-within-bounds-tuple-le", P + "rdgridspace.py",
  "int(position[0])<self.w and", "int(position[0])<=self.w and", ["C15"]),
 ("c15-coords-yz-swapped", P + "rdgridspace.py",
  "y = int((cell_index%(self.w*self.h))/self.w)\n        z = int(cell_index/(self.w*self.h)) ",
  "z = int((cell_index%(self.w*self.h))/self.w)\n        y = int(cell_index/(self.w*self.h)) ", ["C15"]),
 ("c15-index-y-stride-h", P + "rdgridspace.py",
  "return int(position[0]) + int(position[1])*self.w + int(position[2])*self.w*self.h",
  "return int(position[0]) + int(position[1])*self.h + int(position[2])*self.w*self.h", ["C15"]),
 ("c15-are-neighbors-no-periodic-y", P + "rdgridspace.py",
  "dy = min(dy, abs(self.h-dy))", "dy = dy", ["C15"]),
 ("c15-get-neighbors-missing-z-wrap", P + "rdgridspace.py",
  'and z == self.d-1: neighbors.append(self.get_cell_index((x, y, 0)))',
  'and z == self.d: neighbors.append(self.get_cell_index((x, y, 0)))', ["C15"]),
 ("c15-engine-wraps-reflecting-x", E + "SimulationAlgorithm3DBase.hpp",
  "if (boundary_conditions[0] == 1) xn = (w+xn)%w;", "if (boundary_conditions[0] >= 0) xn = (w+xn)%w;", ["C15"]),
 ("c15-engine-y-wrap-uses-w", E + "SimulationAlgorithm3DBase.hpp",
  "if (boundary_conditions[1] == 1) yn = (h+yn)%h;", "if (boundary_conditions[1] == 1) yn = (w+yn)%w;", ["C15"]),
 ("c15-graph-missing-periodic-z", P + "coarsegrain.py",
  'if grid.get_boundary_conditions()["z"] == "periodical" :', 'if grid.get_boundary_conditions()["z"] == "periodic" :', ["C15"]),
 ("c15-graph-surface-cubed", P + "coarsegrain.py",
  "edge_sfc = edge_dst**2", "edge_sfc = edge_dst**3", ["C15"]),
 ("c15-graph-wrong-env-index", P + "coarsegrain.py",
  "environment=grid.cell_env[i]", "environment=grid.cell_env[grid.size()-1-i]", ["C15"]),
 ("c15-kinetics-missing-minus-z", P + "kinetics.py",
  "[p[0],p[1],p[2]+1],\n              [p[0],p[1],p[2]-1]] :", "[p[0],p[1],p[2]+1]] :", ["C15"]),
]
