"""Breaks of strengths/coarsegrain.py that C16 must catch: (name, file, old, new, checks).
(coarsegrain.py has CRLF line ends; selfmut reads it with universal newlines, so '\\n' matches.)"""
F = "src/strengths/coarsegrain.py"
MUTATIONS = [
 # surface of a pair of groups is that of the first shared face only
 ("c16-surface-not-accumulated", F, "out_edge.surface += edge.surface", "out_edge.surface = edge.surface", ["C16"]),
 # chemostat flags become member counts instead of an OR
 ("c16-chemostat-min-removed", F, "cgchstt[i] = int(min(cgchstt[i], 1))", "cgchstt[i] = int(cgchstt[i])", ["C16"]),
 # centroid = sum of member positions
 ("c16-centroid-not-divided", F,
  "        node_pos[i][0] /= node_ncg[i]\n        node_pos[i][1] /= node_ncg[i]\n        node_pos[i][2] /= node_ncg[i]",
  "        pass", ["C16"]),
 # fine state read cell-major instead of species-major
 ("c16-state-strides-swapped", F, "+= system.state.value[s * system.space.size() + i]",
  "+= system.state.value[i * nspecies + s]", ["C16"]),
 # dropped cells add their volume to the node that index -1 designates
 ("c16-dropped-cells-in-volume", F,
  "        if index_map[i] != -1 : \n            nodes[index_map[i]].volume += space.nodes[i].volume\n",
  "        nodes[index_map[i]].volume += space.nodes[i].volume\n        if index_map[i] != -1 : \n", ["C16"]),
 # un-coarse-graining copies the group value to every member
 ("c16-ucg-not-divided", F, "= in_state[n, s, node_index]/len(cg_nodes[node_index])", "= in_state[n, s, node_index]", ["C16"]),
 # un-coarse-graining writes with the coarse species stride
 ("c16-ucg-wrong-stride", F, "data[n*state_size + s*ncg_space.size() + j]", "data[n*state_size + s*cg_space.size() + j]", ["C16"]),
 # un-coarse-graining forgets the -1 guard: dropped cells join the last group
 ("c16-ucg-dropped-into-last-group", F,
  "        if index_map[i] != -1 :\n            cg_nodes[index_map[i]].append(i)",
  "        cg_nodes[index_map[i]].append(i)", ["C16"]),
 # every group gets the environment of the first cell of the grid
 ("c16-env-of-first-cell", F, "nodes[index_map[i]].environment = space.nodes[i].environment",
  "nodes[index_map[i]].environment = space.nodes[0].environment", ["C16"]),
 # distance between centroids measured along x only
 ("c16-distance-x-only", F,
  "(node_pos[edge.i][0] - node_pos[edge.j][0])**2 +\n        (node_pos[edge.i][1] - node_pos[edge.j][1])**2 +\n        (node_pos[edge.i][2] - node_pos[edge.j][2])**2 )**(1/2)",
  "(node_pos[edge.i][0] - node_pos[edge.j][0])**2 )**(1/2)", ["C16"]),
 # faces inside a group become self-loops
 ("c16-self-loops-not-skipped", F, "        if i == j : \n            continue", "        if False : \n            continue", ["C16"]),
 # groups mixing environments are accepted
 ("c16-mixed-environments-accepted", F,
  "            raise ValueError(\"output node \"+str(im[i])+\" contains different environments.\")", "            pass", ["C16"]),
]
