#!/usr/bin/env python3
"""Regenerates MANIFEST.json from the table below (single source of truth)."""
import json, os
root = os.path.dirname(os.path.dirname(os.path.abspath(__file__)))

CHECKS = {
 # id: (technique, level text, level note, design_ref)
 "C01": ("reference-model monitor: three real implementations (kinetics functions, exported ODE RHS, one Euler step of the freshly compiled engine) compared with an independent SI rate law on generated heterogeneous systems",
         "Runs the real code on thousands of generated systems (every nesting level in its own unit system; grids with all boundary mixes, graphs with unequal volumes; orders 0..4, per-environment constants with 'default' fallbacks) and compares every (species, cell) entry with an independent implementation of the stated law under a rounding bound derived from the sum of |terms|. Held = all three implementations agreed with the reference on every entry of every executed system.",
         "Trusted: vf/ref.py rate law, vf/si.py. Bounded: finite non-negative states/constants within ~12 decades; simple graphs (no parallel edges) for the Python functions.",
         "DESIGN.md 2/C01"),
 "C06": ("reference-model monitor (exact rational SI table) + icontract postconditions on the real conversion functions",
         "Every factor the library can produce per base unit pair is enumerated (exhaustive over symbol pairs x exponents -4..4, all derived symbols) and compared with exact rationals; random system triples exercise every target form, round trips, composition, identity and cross-dimension rejection, while postconditions on compute_conversion_factor/convert_unitvalue observe every internal call. Held = no disagreement on the executions listed in the evidence.",
         "Trusted: vf/si.py (SI definitions as Fractions), CPython float->Fraction exactness. Bounded: exponents in [-4,4], magnitudes within 1e+-8.",
         "DESIGN.md 2/C06"),
 "C02": ("offline conservation checker over recorded trajectories of the three engines (exact integer left null space computed by the harness)",
         "Thousands of trajectories (grids with every boundary mix incl. periodic axes of length 1-2 and zero-diffusivity walls; graphs with isolated nodes, self-loops, parallel edges; moieties, cycles, pure diffusion; three sampling policies) are recorded and every vector of an exact integer basis of the left null space over never-chemostated species is checked at every sample: exactly for tau-leap/Gillespie, within 1e-12*(steps+10)*sum|c||x| for Euler.",
         "Trusted: rational Gaussian elimination in vf/ref.py. Euler trajectories that become non-finite are skipped and counted.", "DESIGN.md 2/C02"),
 "C03": ("trace monitors on real trajectories (bitwise constancy of flagged entries, per-step rate-law check, Gillespie step-legality classifier with chemostat-masked deltas) + reference-model comparison of kinetics / dxdtf / apply_reaction",
         "Flagged entries are compared bitwise with sample 0 over trajectories of all three engines; every Euler step of unflagged entries is checked against the masked reference law; every Gillespie step must be the masked effect of one possible channel; compute_dstatedt(apply_chemostats=True), make_dxdtf and apply_reaction are compared entry by entry on asymmetric chemostat maps (flags on species >= 1 / cells >= 1).",
         "Trusted: vf/ref.py. States are exact integers in molecules with init_state_processing='none'.", "DESIGN.md 2/C03"),
 "C05": ("reference evaluator (exact Fraction SI value + dimension + propagated error bound) against the real operators on random expression trees; icontract postconditions on the internal units functions",
         "Random expression trees (depth <= 5, all operand-type pairings and reflected operators, every leaf in its own unit system out of all 1100) are evaluated by the library and by an exact-rational reference; values must agree within 64x a propagated forward error bound, dimensions exactly, and every dimensionally meaningless node must raise at that node.",
         "Trusted: vf/si.py and the reference evaluator in vf/checks/c05.py. Ill-conditioned trees (cancelling modulus) and comparisons closer than the bound are skipped and counted.", "DESIGN.md 2/C05"),
 "C08": ("bitwise trace comparison (sha1 of raw t and data bytes) of executions under different loop drivings, engine objects and process histories against a fresh-process reference",
         "Each script is run once in a fresh process (iterate only) and many more times under iterate_n(random k), run(0|1|2|5|1000 ms) and random mixes, on new or reused engine objects, after 0-3 other simulations (other engines / space types, finalized or abandoned) in the same process, under CPU contention; the realised partitions of the iteration sequence are recorded. Also: stored script (incl. drawn seed) reproduces the trajectory; Euler ignores the seed.",
         "Same binary, same machine. Partition counts for Gillespie are per call (moved / not moved), for fixed-step engines exact.", "DESIGN.md 2/C08"),
 "C09": ("offline trace checker: the records made under each sampling policy must be exactly the contract's selection over the engine's own step sequence (obtained under on_iteration and cross-read through the raw exports), compared on raw bytes",
         "For each generated script the step sequence (T_k, X_k) is taken from an on_iteration run read step by step through engineexport_get_time/get_state; the policy under test (driven in random chunks, optionally with explicit sample() calls) must record required subset <= actual <= permitted selection with bit-identical times and states in (sample, species, cell) order; fixed-step clock n*dt, completion at the first step beyond t_max, progress and completion flags are checked after every iterate.",
         "Sorted request lists only. Engine-side doubles of the time quantities are obtained through the library's conversion and cross-checked against the SI description (1e-12).", "DESIGN.md 2/C09"),
 "C10": ("sandboxed lifecycle driver checked against a reference state machine: exhaustive short call sequences + random long ones on one engine, random interleavings over two engine objects compared with single-engine projections, CPU-time termination monitor, allocator monitor (mallinfo2 + tracemalloc) over windows of set-up / release cycles",
         "All call sequences of length 3 (quick) / 4 (thorough) over an 14-call alphabet after setup, per engine kind, plus thousands of random sequences of length 5-12: after every call the model predicts steps taken (raw clock), record count, completion flag, return value and the exact output bytes. Two-engine interleavings (each in a fresh process) are compared call by call with each engine run alone. Set-up and loop termination is decided on CPU time for below-one / fractional / macroscopic amounts under every init mode.",
         "'Returns' means within a CPU budget >= 1000x the typical cost. Calls on a released engine other than setup/finalize/is_complete are outside the statement. Known finding C10/shared-native-state is keyed on the call pattern, single-engine histories are never excused.", "DESIGN.md 2/C10"),
 "C12": ("round-trip monitor with an independent field-by-field extractor of physical content (SI via vf/si.py) over dict, JSON text and file paths (single and multi-file layouts loaded from another working directory)",
         "Generated networks / grids / graphs / systems / scripts / trajectories with a different unit system at every level go through to_dict/from_dict, JSON text, save/load (both trajectory storage modes) and hand-written multi-file layouts with relative paths and .npy/.txt side files; physical content, idempotence of to_dict, every reader alias and every documented default are compared.",
         "Defaults are those of documentation/json_and_dict_doc.rst restricted to keys the readers accept.", "DESIGN.md 2/C12"),
 "C13": ("reference-model monitor (density x volume from the SI description) + frame-condition contracts on the setters (whole-array snapshots)",
         "Every (species, cell) entry of the default state and chemostat map of generated systems (species, network, space, nodes and system each in their own unit system; asymmetric grid shapes) is compared with the description; every addressing form of the getters/setters is exercised on arrays tagged with distinct numbers, with whole-array before/after snapshots.",
         "Override dictionaries and reset_state are outside the statement (found broken, see DESIGN.md).", "DESIGN.md 2/C13"),
 "C14": ("exact-arithmetic oracle on the recorded t=0 state + sequential statistical monitors (Ville mean test, randomised PIT + DKW) with a stated false-alarm bound + CPU-time termination monitor",
         "Thousands of set-ups of rectangular asymmetric states (below one molecule, integers around 100, fractional, large, sparse) x 4 modes x 3 engines x grid/graph: integrality, floor totals (judged only when exact and float sums agree), zero-stays-zero, pass-through bytes, reproducibility per seed, Poisson counts vs Poisson(amount of that entry).",
         "False-alarm probability <= 3e-12 per run; power: a relative error of a few percent in the Poisson mean is detected within the quick tier.", "DESIGN.md 2/C14"),
 "C15": ("exhaustive reference-model monitor over all grids w,h,d in 1..4 x 8 boundary mixes (every cell, cell pair, out-of-range position), neighbour sets revealed by the Python kinetics and by one native Euler step, grid vs grid_to_graph equivalence",
         "All 512 small grids: index/coordinate bijection in every position form, rejection of every out-of-range index and coordinate, are_neighbors/get_neighbors vs the reference relation, the face multiset revealed by the engine from one-hot states, grid_to_graph structure, and Euler / kinetics equivalence between grid and graph on generated systems.",
         "Python kinetics magnitudes only where periodic axes have length >= 3 (the statement's restriction).", "DESIGN.md 2/C15"),
 "C16": ("brute-force reference aggregation over the fine grid vs coarsegrain_system / uncoarsegrain_trajectory / simulate(cgmap=...)",
         "Random partitions within environment classes (non-contiguous groups, singletons, dropped cells of several environments) on 1-D/2-D/3-D grids: volumes, totals, environments, OR-ed flags, edge set, surfaces, centroid distances; invalid maps rejected; un-coarse-graining spreads evenly; identity map reproduces the plain Euler run.",
         "Identity-map equivalence for the deterministic engine only.", "DESIGN.md 2/C16"),
 "C17": ("self-identifying trajectories (data[n,s,c] = 1e6 n + 1e3 s + c) and an exact-rational brute-force oracle for the sample look-ups, exhaustive over all shapes 1..5",
         "All shape triples in 1..5 (1..7 thorough) on every grid factorisation and graphs: the four accessors and direct indexing agree bitwise and in units, whole-state block, merged sum, every species/cell addressing form; get_sample_index under the three policies vs brute force for queries before / on / at exact ties / between / after samples in any time unit.",
         "Queries whose unit conversion is inexact are skipped near decision boundaries and counted.", "DESIGN.md 2/C17"),
 "C18": ("compositional SI semantics oracle (vf/si.py) over an exhaustive family of unit strings, print-parse round trip, and a generated rejection family",
         "Every symbol x exponent -9..9, all ordered symbol pairs x both separators, random triples, a/b vs a.b-1 vs permutations, print-parse round trip over all 1100 systems and 1e5 doubles (bit-identical), and a malformed family (unknown symbol, separators, signed/fractional/misplaced exponents, a blank at every position, two units of one base kind, glued or non-numeric values) that must raise.",
         "'nan', 'inf', '1_0' are numeric literals for Python and not counted as non-numeric.", "DESIGN.md 2/C18"),
 "C19": ("structured-list oracle: equations rendered from (coefficient, label) lists with arbitrary spacing are parsed by the real Reaction class and compared field by field; SI oracle for constants",
         "20k (quick) / 500k (thorough) random equations: stoichiometry with repeats summed, dsto, orders, print-parse round trip, constant dimensions per order in every unit system, wrong-dimension rejection, split, K (scalar and per environment), and the three network refusals (each paired with the accepted unmutated network).",
         "Labels follow the documented rules (no whitespace, '+', '->').", "DESIGN.md 2/C19"),
 "C07": ("trace monitors on recorded stochastic trajectories: step-legality classifier against reference propensities; sequential Ville (exponential supermartingale) tests and randomised-PIT + DKW tests with explicit false-alarm bounds",
         "Every Gillespie step (hundreds of thousands in the quick tier) must be the chemostat-masked effect of one channel with positive reference propensity; waiting times a0*dt ~ Exp(1), event-category frequencies, tau-leap increments of species totals / single entries and per-channel firing counts (catalytic tally products, lambda up to 30) are tested against the master-equation rates with monitors whose false-alarm probability is 1e-12 each.",
         "Statistical power: relative rate errors of a few percent at 1e5 events; tau-leap steps with a negative pre-state entry are skipped and counted.", "DESIGN.md 2/C07"),
 "C11": ("compiler sanitizers (ASan + UBSan + float-cast-overflow via clang-14, runtime preloaded into the stock interpreter) and hardened libstdc++ (_GLIBCXX_ASSERTIONS) on builds of the working tree's engine, driven through the Python API by the workloads of C02/C07/C09/C10/C14 and degenerate scripts",
         "Two instrumented builds of the current engine sources run ~1200 scripts / lifecycle sequences each in the quick tier (degenerate grids and graphs, all policies, all init modes, empty tails of the sample list); sanitizer report blocks are parsed from log files and de-duplicated by kind and first engine frame, hardened-library aborts are attributed to the case in flight.",
         "Red-zone tools miss intra-object and far overflows; leaks not claimed; MemorySanitizer not usable (CPython/numpy/libstdc++ uninstrumented).", "DESIGN.md 2/C11"),
 "C04": ("metamorphic + absolute reference monitor: several renderings of one SI description (units declared or inherited at every nesting level, all 1100 systems, bare / string / UnitValue / unit-array forms, constructor and dictionary readers) must give the same state, rate of change and Euler trajectory; icontract conversion contracts run underneath",
         "Each physical description is rendered 4-8 times with unit systems drawn per nesting level and per field form, plus a random output units system; state, chemostats, compute_dstatedt and a 20-step Euler trajectory are converted to (molecule, s) by the harness' own SI table and compared between renderings and with the description / reference rate law (1e-9 of the magnitudes involved); stochastic output must come back in the requested units.",
         "Rounding-proof step grid: requested times and t_max at (k+1/2) dt. Renderings whose bare numbers leave 1e+-250 are skipped and counted.", "DESIGN.md 2/C04"),
 "C20": ("mutation-operator monitor: every class of invalid input listed in the statement is applied at every site of otherwise valid generated models (constructor and dictionary forms); each mutated call must raise, its valid twin must be accepted; for position / species accessors the state and chemostat arrays are snapshot before and after",
         "About 250k invalid calls per quick run over 8 classes (dictionary keys, wrong dimensions in every dimensioned field, unsupported unit symbols, grid sizes and environment maps, enumerations, every out-of-range position form on 64 grid shapes and graphs through spaces / system accessors / kinetics / trajectories, unknown species, coarse-graining map rules); a mutation counts only when its unmutated twin is accepted.",
         "State change after a call that was rejected for another part of its input (set_k, set_boundary_conditions) is observed and counted but not judged: the statement promises rejection and no access to a different entry, not atomicity.", "DESIGN.md 2/C20"),
}

PENDING = {
}

# Additions of later rounds (appended to the level text of the check)
EXTRA = {
 "C19": " Also: construction through reaction_from_dict with every alias of every key under a foreign parent units system; the empty environment label; default-argument isolation. Rounds 7-9: comma-joined environment keys; the same object listed twice; repeated equation terms.",
 "C15": " Also: grids of more than 65536 cells and their graphs (pairs around every 2^16 boundary). Rounds 7-9: extreme diffusion coefficients in the grid / graph equivalence.",
 "C13": " Also: a third of the systems built from dictionaries (key aliases at every level); default state / chemostat map of systems with 4100-5300 cells; default-argument isolation. Rounds 7-9: per-environment densities whose entries carry different units; dictionary defaults.",
 "C12": " Also: text side files of 30-560 kB for the environment and chemostat maps. Rounds 7-9: files written twice (large, then small) to one path; entries for unlisted environments; dictionaries with key aliases read twice and compared before / after.",
 "C11": " Also: a set-up refused by the library (unknown engine option) followed by finalize() around valid runs; networks of 33-140 reactions. Rounds 7-9: engine objects kept across sizes; graphs with zero-surface edges.",
 "C09": " Also: refused assignments to a script leave it unchanged; grids of 256 m cells and trajectories of exactly k x 65536 values (record by record against a per-iteration run). Rounds 7-9: engine objects kept across sizes; many requested times in one step; intervals down to 1e-200 dt.",
 "C08": " Also: a floating-point-environment probe (subnormal amounts before / after runs of every engine kind in a fresh process); 250 000+ iterations in 2-3 big iterate_n batches against small batches; the trajectory's system edited before its stored script is re-run. Rounds 7-9: scripts counting in other amount units; the script object itself run earlier on engines of any kind; polling mode.",
 "C04": " Also: the state re-written as bare numbers on the script's own copy of the system; default-argument isolation; default states of systems with 4100-5300 cells. Rounds 7-9: merged-output units; dictionary defaults against constructor defaults; unit strings in litre / molar and slash-negative spellings.",
 "C01": " Also: hubs of 255-320 neighbours; single steps 60-400 x beyond the stability limit (entries overshoot below zero). Rounds 7-9: extreme diffusion scales; the exported ODE right-hand side evaluated at a second state with the first result kept.",
 "C02": " Also: macroscopic counts (1e7..3e9 molecules per entry, beyond 2^24 and 2^31) with exact integer conservation for the stochastic engines. Rounds 5-6: overshooting Euler runs; reactions changing 5-6 species; trajectories of exactly k x 65536 values on grids of 256 m cells. Rounds 7-9: periodic axes of extent 1 and zero-surface graph edges through the shared generators.",
 "C03": " Also: apply_reaction with its documented options (custom chemostat map replacing the system's, custom state, update=True); chemostat maps given per species label and flags other than 0/1; a 'reservoir' probe - a flagged entry of 1e9..1e14 molecules as diffusion source, up to 1e11 events per channel and step, each entry's one-step change judged against the master equation's mean and variance (Bernstein bound). Rounds 5-6: systems of 4100-5300 cells and of 33-70 species (flags up to the last entry / on species >= 31); refused apply_reaction calls leave map and state unchanged. Rounds 7-9: per-species dictionaries used for two systems and compared before / after.",
 "C05": " Also: numpy scalars as plain-number operands (either side). Rounds 5-6: operands are re-read after refused operations; exponents merely near a rational (0.3333, 1.0001) must be refused. Rounds 7-9: comparisons with ints no double equals, ints beyond the double range and Fractions a hair off the double.",
 "C06": " Also: arrays given as tuple / float32 / float16 / int32 / int64 ndarrays and lists of numpy scalars; exponents to +-9 for part of the random cases (judged while every factor and intermediate value stays inside 1e+-280). Rounds 5-6: partial dictionaries as targets; arrays of 65535-200000 elements. Rounds 7-9: item sequences (list / tuple / object ndarray) used for two arrays, the caller's items unchanged; target strings with /sym-e factors.",
 "C07": " Also: tau-leap tally cases with means of 150 and 400 events per channel and step. Rounds 5-6: hubs of 255-300 neighbours; coarse leaps and a coarse-leap tally (one step out of a cell holding 1-5 molecules, untruncated Poisson). Rounds 7-9: waiting times conditional on the event category; negative pre-states judged on the tally channel only.",
 "C10": " Also: a refused set-up (None, a number, a file name, a dictionary) as a letter: it must change nothing; an iterate_n letter with counts beyond a C int (3e9, 2^31, 2^32, 2^32+2, 1e12); termination scripts under all four sampling policies with a 'frozen' family (nothing can happen / the reactant runs out) through simulate_script; fixed-step counts with the step given in fs..h under scripts counting in fs..h. Rounds 5-6: the print_progress loop of simulate_script; scripts whose only requested time is 0. Rounds 7-9: an allocator monitor (mallinfo2 + tracemalloc) over windows of set-up / release cycles in a fresh process; a script edited after engines used it against the same edit of a pristine copy; 2-6 million-step runs.",
 "C14": " Also: seeds given as numpy integers, floats and 0-d arrays. Rounds 5-6: families wide-4096 (entries at the ends of 4096-item blocks) and dilute-wide (a few molecules over > 1000 cells). Rounds 7-9: twin species (independence of the draws); seeds as strings of digits.",
 "C16": " Also: the identity-map run under random script options (sampling policy / interval / t_max / seed) and the guarantees of init_state_processing 'none' and 'redist' through cgmap=identity. Rounds 5-6: a refused coarse-grained run leaves the caller's script unchanged; coarse trajectories of 255-700 samples. Rounds 7-9: the coarse trajectory unchanged by un-coarse-graining and spread twice with the same result; amounts of 1e+-295..303.",
 "C17": " Also: evenly spaced dyadic time lattices (exact ties after odd samples); grids of 130..2000 cells with the cell given as tuple / list / ndarray / numpy scalars / object with numpy members in int8..uint64 and numpy integers as linear index. Rounds 5-6: trajectories of 1024-2049 samples; the stored script's system edited while the trajectory is read. Rounds 7-9: repeated sample times; queries 2^-22 of an interval off the middles; infinite query times; trajectories loaded with a system other than their script's.",
 "C18": " Also: the scale as the library applies it (1 <text> converted to m, s, mol against the exact ratio). Rounds 5-6: quantities built from numpy scalars under numpy's legacy print modes. Rounds 7-9: litre / molar symbols in rendered strings; per-component range guard of the applied-scale monitor.",
 "C20": " Also: grid sizes whose documented int() cast is not positive (0.5, -0.5, 1e-9 ...). Rounds 5-6: near-miss dimensions (one exponent off by one); the reserved name 'default' as a run-time string; foreign Reaction objects in apply_reaction. Rounds 7-9: wrong-dimension items following valid ones in item sequences; names close to the reserved environment name.",
}

def main():
    ids = [json.loads(l)["id"] for l in open(os.path.join(root, "properties.jsonl"))]
    checks = []
    for pid in ids:
        if pid in CHECKS:
            tech, text, note, ref = CHECKS[pid]
            text = text + EXTRA.get(pid, "")
            checks.append({
                "property_id": pid,
                "quick_cmd": "./check %s quick" % pid,
                "thorough_cmd": "./check %s thorough" % pid,
                "evidence_file": "evidence/%s.json" % pid,
                "replay_cmd_template": "./check %s --replay {path}" % pid,
                "level_claimed": {"category": "exploration", "text": text, "design_ref": ref},
                "level_note": note,
                "technique": tech,
            })
    na = [{"property_id": pid, "reason": PENDING.get(pid, "check not built yet in this session; design in DESIGN.md section 2, to be claimed once its monitor exists and is silent on the unchanged tree")}
          for pid in ids if pid not in CHECKS]
    m = {
        "version": 1,
        "setup_cmd": "./setup.sh",
        "hooks": {
            "guard": "STRENGTHS_VERIF",
            "enable": "none needed: all observation is at the public API / exported C entry points; instrumentation is compiler flags on the harness's own builds of the working tree's engine sources (vf/build.py)",
            "baseline_off_cmd": "cd /repo && /venv/bin/python -m pytest -ra -q -p no:cacheprovider --timeout=900 --continue-on-collection-errors",
            "source_commits": [],
            "add_only": True,
        },
        "engines": [
            {"name": "vf", "path": "vf/", "serves_properties": [c["property_id"] for c in checks],
             "kind_free_text": "runtime monitoring harness: seeded generators, sandboxed child runner, reference-model / contract / offline-trace monitors, sanitizer builds of the native engine"}
        ],
        "checks": checks,
        "not_applicable": na,
        "notes": "All checks: ./check <ID> [quick|thorough]; env VERIF_SEED, VERIF_TIER. Exit 0 held / 1 violation / 2 inconclusive. Known findings: known_findings.json.",
    }
    with open(os.path.join(root, "MANIFEST.json"), "w") as f:
        json.dump(m, f, indent=1)
        f.write("\n")

if __name__ == "__main__":
    main()
