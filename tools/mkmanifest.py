#!/usr/bin/env python3
"""Regenerates MANIFEST.json from the table below (single source of truth)."""
import json, os
root = os.path.dirname(os.path.dirname(os.path.abspath(__file__)))

CHECKS = {
 # id: (technique, level text, level note, design_ref)
 "C01": ("reference-model monitor: three real implementations (kinetics functions, exported ODE RHS, one Euler step of the freshly compiled engine) compared with an independent SI rate law on generated heterogeneous systems",
         "Runs the real code on thousands of generated systems (every nesting level in its own unit system; grids with all boundary mixes, graphs with unequal volumes; orders 0..4, per-environment constants with 'default' fallbacks) and compares every (species, cell) entry with an independent implementation of the stated law under a rounding bound derived from the sum of |terms|. Held = all three implementations agreed with the reference on every entry of every executed system.",
         "Trusted: vf/ref.py rate law, vf/si.py. Bounded: finite non-negative states/constants within ~12 decades; simple graphs (no parallel edges) for the Python functions.",
         "DESIGN.md 2/C01"),
 "C06": ("reference-model monitor (exact rational SI table) + icontract postconditions on the real conversion functions",
         "Every factor the library can produce per base unit pair is enumerated (exhaustive over symbol pairs x exponents -4..4, all derived symbols) and compared with exact rationals; random system triples exercise every target form, round trips, composition, identity and cross-dimension rejection, while postconditions on compute_conversion_factor/convert_unitvalue observe every internal call. Held = no disagreement on the executions listed in the evidence.",
         "Trusted: vf/si.py (SI definitions as Fractions), CPython float->Fraction exactness. Bounded: exponents in [-4,4], magnitudes within 1e+-8.",
         "DESIGN.md 2/C06"),
}

PENDING = {
}

def main():
    ids = [json.loads(l)["id"] for l in open(os.path.join(root, "properties.jsonl"))]
    checks = []
    for pid in ids:
        if pid in CHECKS:
            tech, text, note, ref = CHECKS[pid]
            checks.append({
                "property_id": pid,
                "quick_cmd": "./check %s quick" % pid,
                "thorough_cmd": "./check %s thorough" % pid,
                "evidence_file": "evidence/%s.json" % pid,
                "replay_cmd_template": "./check %s --replay {path}" % pid,
                "level_claimed": {"category": "exploration", "text": text, "design_ref": ref},
                "level_note": note,
                "technique": tech,
            })
    na = [{"property_id": pid, "reason": PENDING.get(pid, "check not built yet in this session; design in DESIGN.md section 2, to be claimed once its monitor exists and is silent on the unchanged tree")}
          for pid in ids if pid not in CHECKS]
    m = {
        "version": 1,
        "setup_cmd": "./setup.sh",
        "hooks": {
            "guard": "STRENGTHS_VERIF",
            "enable": "none needed: all observation is at the public API / exported C entry points; instrumentation is compiler flags on the harness's own builds of the working tree's engine sources (vf/build.py)",
            "baseline_off_cmd": "cd /repo && /venv/bin/python -m pytest -ra -q -p no:cacheprovider --timeout=900 --continue-on-collection-errors",
            "source_commits": [],
            "add_only": True,
        },
        "engines": [
            {"name": "vf", "path": "vf/", "serves_properties": [c["property_id"] for c in checks],
             "kind_free_text": "runtime monitoring harness: seeded generators, sandboxed child runner, reference-model / contract / offline-trace monitors, sanitizer builds of the native engine"}
        ],
        "checks": checks,
        "not_applicable": na,
        "notes": "All checks: ./check <ID> [quick|thorough]; env VERIF_SEED, VERIF_TIER. Exit 0 held / 1 violation / 2 inconclusive. Known findings: known_findings.json.",
    }
    with open(os.path.join(root, "MANIFEST.json"), "w") as f:
        json.dump(m, f, indent=1)
        f.write("\n")

if __name__ == "__main__":
    main()
