"""Self-made 'breaks to catch' for C19 (reaction equations): (name, file, old, new, checks)."""
P = "src/strengths/"
N = P + "rdnetwork.py"
MUTATIONS = [
 # repeated species overwrite instead of adding up
 ("c19-repeat-overwrites", N, "                        d[label] += coef", "                        d[label] = coef", ["C19"]),
 # net change with the wrong sign
 ("c19-dsto-sign", N, "return [int(self._products.get(s, 0))-int(self._substrates.get(s, 0)) for s in species_labels]",
  "return [int(self._substrates.get(s, 0))-int(self._products.get(s, 0)) for s in species_labels]", ["C19"]),
 # product vector read from the substrates
 ("c19-psto-from-substrates", N, "return [int(self._products.get(s, 0)) for s in species_labels]",
  "return [int(self._substrates.get(s, 0)) for s in species_labels]", ["C19"]),
 # order() counts distinct species
 ("c19-order-counts-species", N, "            o += self.substrates[k]   ", "            o += 1", ["C19"]),
 # kr dimension computed from the substrates
 ("c19-kr-dim-from-substrates", N, "        for k in list(self._products) :\n            count += self._products[k]\n        return UnitsDimensions",
  "        for k in list(self._substrates) :\n            count += self._substrates[k]\n        return UnitsDimensions", ["C19"]),
 # kf dimension: amount exponent with the wrong sign
 ("c19-kf-dim-amount-sign", N, "return UnitsDimensions(space = -3 + 3*count ,time = -1 ,quantity = 1-count)",
  "return UnitsDimensions(space = -3 + 3*count ,time = -1 ,quantity = count-1)", ["C19"]),
 # only the time exponent of an explicit-units constant is compared
 ("c19-wrong-dim-accepted", P + "units.py", "                    if value.units.dim != units.dim : ",
  "                    if value.units.dim[\"time\"] != units.dim[\"time\"] : ", ["C19"]),
 # split(): reverse half keeps the forward constant
 ("c19-split-swaps-constants", N, "            kf = self.kr,\n            kr = 0,", "            kf = self.kf,\n            kr = 0,", ["C19"]),
 # split(): reverse half does not swap the sides
 ("c19-split-sides-not-swapped", N, "stoichiometry = [self._products, self._substrates],", "stoichiometry = [self._substrates, self._products],", ["C19"]),
 # split(): forward half stays reversible
 ("c19-split-forward-keeps-kr", N, "            kf = self.kf,\n            kr = 0,", "            kf = self.kf,\n            kr = self.kr,", ["C19"]),
 # to_string drops the coefficients
 ("c19-tostring-drops-coefficient", N, "                        string += str(d[s]) + \" \"", "                        string += \" \"", ["C19"]),
 # to_string drops the '+'
 ("c19-tostring-drops-plus", N, "                        string += \"+ \"", "                        string += \" \"", ["C19"]),
 # equilibrium constant inverted (scalar constants)
 ("c19-K-inverted-scalar", N, "                return self.kf/self.kr", "                return self.kr/self.kf", ["C19"]),
 # equilibrium constant: per-environment lookup of kr ignores the environment
 ("c19-K-env-uses-default-kr", N, "vr = valproc.get_value_in_env(self.kr, i,", "vr = valproc.get_value_in_env(self.kr, \"default\",", ["C19"]),
 # duplicate species check looks the object up instead of its label
 ("c19-dup-species-compares-object", N, "if sd.get(s.label, None) != None : ", "if sd.get(s, None) != None : ", ["C19"]),
 # duplicate reaction label check looks the object up instead of its label
 ("c19-dup-reaction-compares-object", N, "if rd.get(r.label, None) != None : ", "if rd.get(r, None) != None : ", ["C19"]),
 # undeclared product species no longer checked
 ("c19-undeclared-product-unchecked", N, "            for rs in list(r._products) :\n                if rs not in sl : ",
  "            for rs in list(r._products) :\n                if False : ", ["C19"]),
]
