#!/usr/bin/env python3
"""Validate MANIFEST.json and evidence/*.json against the harness schemas (run with python3-vt)."""
import glob, json, sys, os
import jsonschema
root = os.path.dirname(os.path.dirname(os.path.abspath(__file__)))
ok = True
def check(path, schema):
    global ok
    try:
        jsonschema.validate(json.load(open(path, encoding="utf-8")), json.load(open(schema)))
        print("valid  ", path)
    except Exception as e:
        ok = False
        print("INVALID", path, str(e)[:400])
check(os.path.join(root, "MANIFEST.json"), "/root/.vp/MANIFEST.schema.json")
for p in sorted(glob.glob(os.path.join(root, "evidence", "*.json"))):
    check(p, "/root/.vp/EVIDENCE.schema.json")
m = json.load(open(os.path.join(root, "MANIFEST.json")))
ids = [json.loads(l)["id"] for l in open(os.path.join(root, "properties.jsonl"))]
claimed = [c["property_id"] for c in m["checks"]]
na = [c["property_id"] for c in m.get("not_applicable", [])]
for i in ids:
    if (i in claimed) == (i in na):
        ok = False
        print("property", i, "must be exactly one of claimed / not_applicable")
sys.exit(0 if ok else 1)
