"""Self-made 'breaks to catch' (DESIGN.md section 2): (name, file, old, new, checks)."""
E = "src/strengths/engines/strengths_engine/src/"
P = "src/strengths/"
MUTATIONS = [
 # ---- C01 ----
 ("c01-vol-exponent-grid", E + "SimulationAlgorithm3DBase.hpp", "pow(mesh_vol,1-q)", "pow(mesh_vol,q-1)", ["C01"]),
 ("c01-vol-exponent-graph", E + "SimulationAlgorithmGraphBase.hpp", "pow(mesh_vol[i],1-q)", "pow(mesh_vol[i],q-1)", ["C01"]),
 ("c01-arith-mean-graph", E + "SimulationAlgorithmGraphBase.hpp", "Dij = (hi+hj)/(hi/Di + hj/Dj);", "Dij = (hi*Di+hj*Dj)/(hi+hj);", ["C01"]),
 ("c01-kd-in-div-vi", E + "SimulationAlgorithmGraphBase.hpp", "/ (mesh_vol[j] * mesh_neighbor_dst[i][n]);", "/ (mesh_vol[i] * mesh_neighbor_dst[i][n]);", ["C01"]),
 ("c01-k-transposed", E + "SimulationAlgorithm3DBase.hpp", "k[mesh_env[i]*n_reactions+r]", "k[r*n_env+mesh_env[i]]", ["C01"]),
 ("c01-D-transposed", E + "SimulationAlgorithm3DBase.hpp", "double Di = D[s*n_env+mesh_env[i]];", "double Di = D[mesh_env[i]*n_species+s];", ["C01"]),
 ("c01-dxdtf-vol-exponent", P + "rdsystem.py", "k_r *= vol**(1-r.order())", "k_r *= vol**(r.order()-1)", ["C01"]),
 ("c01-default-ignored", P + "value_processing.py", 'elif "default" in list(value) :\n            return value["default"]', 'elif "default " in list(value) :\n            return value["default"]', ["C01"]),
 ("c01-kinetics-grid-harmonic", P + "kinetics.py", "k = 2/(h**2 * (1/Di + 1/Dj))", "k = (Di + Dj)/(2*h**2)", ["C01"]),
 ("c01-kinetics-kr-volume", P + "kinetics.py", "rr *= (state.get_at(state_index)/volume)**psto[i]", "rr *= (state.get_at(state_index)/volume)**ssto[i]", ["C01"]),
]
