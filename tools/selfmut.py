#!/usr/bin/env python3
"""Self-made mutation testing of the checks ("breaks to catch" of DESIGN.md).

usage: tools/selfmut.py [--tests] [--only NAME-substring] [--checks C01,C03]
Each mutation is (name, file relative to repo, old text, new text, [checks expected to catch it]).
For each one a scratch git worktree of /repo is made under /tmp, the edit applied, optionally the
repository's tests run (the edit must keep them green to count as 'realistic'), and the listed checks
are run with VERIF_REPO pointing at the worktree.  The worktree is removed afterwards.
"""
import argparse, json, os, shutil, subprocess, sys, tempfile, time
ROOT = os.path.dirname(os.path.dirname(os.path.abspath(__file__)))
sys.path.insert(0, ROOT)
import glob, importlib
MUTATIONS = []
for _f in sorted(glob.glob(os.path.join(ROOT, "tools", "mutations*.py"))):
    MUTATIONS += importlib.import_module("tools." + os.path.basename(_f)[:-3]).MUTATIONS

def sh(cmd, **kw):
    return subprocess.run(cmd, shell=True, capture_output=True, text=True, **kw)

def main():
    ap = argparse.ArgumentParser()
    ap.add_argument("--tests", action="store_true")
    ap.add_argument("--only", default="")
    ap.add_argument("--checks", default="")
    ap.add_argument("--tier", default="quick")
    a = ap.parse_args()
    results = []
    for m in MUTATIONS:
        name, rel, old, new, checks = m
        if a.only and a.only not in name:
            continue
        if a.checks:
            checks = [c for c in checks if c in a.checks.split(",")]
            if not checks:
                continue
        wt = tempfile.mkdtemp(prefix="selfmut-", dir="/tmp")
        os.rmdir(wt)
        r = sh("git -C /repo worktree add --detach %s HEAD" % wt)
        if r.returncode:
            print("worktree failed", r.stderr); return 2
        try:
            p = os.path.join(wt, rel)
            s = open(p, encoding="utf-8").read()
            if s.count(old) < 1:
                print("%-45s PATTERN NOT FOUND" % name); results.append((name, "nopattern")); continue
            open(p, "w", encoding="utf-8").write(s.replace(old, new, 1))
            tests = ""
            if a.tests:
                # the test-suite uses the prebuilt library, which a header edit does not change: same as a user would see
                t = sh("cd %s && PYTHONPATH=%s/src /venv/bin/python -m pytest -q -p no:cacheprovider --timeout=900 tests 2>&1 | tail -3" % (wt, wt))
                tests = t.stdout.strip().split("\n")[-1]
            for c in checks:
                env = dict(os.environ, VERIF_REPO=wt, VERIF_TIER=a.tier, VERIF_EVIDENCE_DIR=os.path.join(wt, ".evidence"))
                t0 = time.time()
                r = subprocess.run([os.path.join(ROOT, "check"), c, a.tier], capture_output=True, text=True, env=env)
                kinds = sorted({l.split("kind=")[-1] for l in r.stdout.split("\n") if l.startswith("VIOLATION")})
                verdict = {0: "MISSED", 1: "caught", 2: "inconclusive"}.get(r.returncode, "rc%d" % r.returncode)
                print("%-45s %s %-12s %5.1fs %s %s" % (name, c, verdict, time.time() - t0, kinds[:3], tests))
                results.append((name, c, verdict))
                sys.stdout.flush()
        finally:
            sh("git -C /repo worktree remove --force %s" % wt)
            shutil.rmtree(wt, ignore_errors=True)
    missed = [r for r in results if r[-1] != "caught"]
    print("\n%d runs, %d not caught" % (len(results), len(missed)))
    for r in missed: print("  ", r)
    return 0

if __name__ == "__main__":
    sys.exit(main())
