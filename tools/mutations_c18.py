"""Self-made 'breaks to catch' for C18 (unit and quantity text): (name, file, old, new, checks)."""
U = "src/strengths/units.py"
MUTATIONS = [
 # a derived-unit table entry used only by parsing
 ("c18-nL-is-cmm", U, 'elif volstr == "nL" : return "dmm"', 'elif volstr == "nL" : return "cmm"', ["C18"]),
 ("c18-pM-litre-is-cm3", U, 'elif constr == "pM" : return "pmol", "dm"', 'elif constr == "pM" : return "pmol", "cm"', ["C18"]),
 # '/' does not negate the exponent
 ("c18-slash-not-negating", U, '        if b[0] == "/" :\n            b[2] = -b[2]', '        if b[0] == "/" :\n            b[2] = b[2]', ["C18"]),
 # M-1: the exponent is not distributed to the volume part
 ("c18-molar-exponent-not-distributed", U,
  'addunit("space", get_concentration_fundamental_units(b[1])[1], b[2]*-3)',
  'addunit("space", get_concentration_fundamental_units(b[1])[1], -3)', ["C18"]),
 # repeated base unit overwrites instead of accumulating (m.m, L.dm, M.mol)
 ("c18-repeated-base-overwrites", U, "            dim[field] += se", "            dim[field] = se", ["C18"]),
 # u-for-micro: global substitution (breaks 'molecule'), and a dropped spelling
 ("c18-u-substitution-global", U, '    s = s.replace("um", "µm")', '    s = s.replace("u", "µ")', ["C18"]),
 ("c18-uM-spelling-dropped", U, '    s = s.replace("uM", "µM")\n', '', ["C18"]),
 # printing
 ("c18-str-drops-exponent-minus-one", U, "                if self.dim[k] != 1 :\n                    s.append(self.sys[k] + str(self.dim[k]))",
  "                if abs(self.dim[k]) != 1 :\n                    s.append(self.sys[k] + str(self.dim[k]))", ["C18"]),
 ("c18-str-joins-with-slash", U, '                out+="."', '                out+="/"', ["C18"]),
 ("c18-str-value-15-digits", U, 'return str(self.value) + " " + self.units.__str__()',
  'return ("%.15g" % self.value) + " " + self.units.__str__()', ["C18"]),
 # rejection
 ("c18-unknown-unit-check-removed", U, '            raise Exception("undefined unit \\""+b[1]+"\\".")', '            continue', ["C18"]),
 ("c18-same-base-check-removed", U, "        if sys[field] == None or sys[field] == su:", "        if True:", ["C18"]),
 ("c18-plus-sign-starts-exponent", U, 'if i in ["-","0","1"', 'if i in ["+","-","0","1"', ["C18"]),
 ("c18-value-glued-tolerated", U, "    tok = s.split()\n",
  '    import re\n    s = re.sub(r"^([-+]?[0-9.]+(?:[eE][-+]?[0-9]+)?)(?=[^0-9.eE_\\s])", r"\\1 ", s)\n    tok = s.split()\n', ["C18"]),
 ("c18-decimal-comma-tolerated", U, "        value = float(tok[0])", '        value = float(tok[0].replace(",", "."))', ["C18"]),
]
