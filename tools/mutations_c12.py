"""Self-made 'breaks to catch' for C12 (DESIGN.md section 2): (name, file, old, new, checks).

Run with the defect families that are still open switched off, e.g.
  VERIF_C12_SKIP_EXPECTED=1 VERIF_C12_SKIP=system-default-space-not-in-system-units,trajectory-without-script-save-raises \
      python3 tools/selfmut.py --only c12
(otherwise the unchanged tree already violates C12 and every run counts as 'caught')."""
P = "src/strengths/"
MUTATIONS = [
 # a *_to_dict drops a field
 ("c12-species-chstt-dropped", P + "rdnetwork.py",
  '         "chstt" : s.chstt,\n', '', ["C12"]),
 ("c12-grid-boundary-conditions-dropped", P + "rdgridspace.py",
  '          "boundary_conditions" : mg.get_boundary_conditions()\n', '', ["C12"]),
 ("c12-script-t_max-dropped", P + "rdscript.py",
  '        "t_max"             : str(script.t_max),\n', '', ["C12"]),
 ("c12-node-units-dropped", P + "rdgraphspace.py",
  '    if node.units_system != parent_units_system :\n        d["units"] = unitssystem_to_dict(node.units_system)',
  '    if False :\n        d["units"] = unitssystem_to_dict(node.units_system)', ["C12"]),
 # per-environment dictionaries lose an entry on the way out
 ("c12-format-unitvar-loses-dict-entry", P + "value_processing.py",
  '        d = {}\n        for k in list(v) :\n            if type(v[k]) == UnitValue : ',
  '        d = {}\n        for k in list(v)[1:] :\n            if type(v[k]) == UnitValue : ', ["C12"]),
 # nested file resolved against the working directory instead of the JSON file's directory
 ("c12-state-file-without-base-path", P + "rdsystem.py",
  'state = unitarray_from_dict(state, base_path=base_path)', 'state = unitarray_from_dict(state)', ["C12"]),
 # an alias disappears from a reader
 ("c12-species-alias-conc-lost", P + "rdnetwork.py",
  '["density", "concentration", "dens", "conc", "C"]', '["density", "concentration", "dens", "C"]', ["C12"]),
 # species units written from the network's units (values keep their own unit strings, only the level changes)
 ("c12-species-units-from-network", P + "rdnetwork.py",
  '"species"   : [species_to_dict(s) for s in rdn.species],',
  '"species"   : [dict(species_to_dict(s), units=unitssystem_to_dict(rdn.units_system)) for s in rdn.species],', ["C12"]),
 # cell_env written with x and y swapped
 ("c12-cell-env-transposed", P + "rdgridspace.py",
  '"cell_env" : array_to_list(mg.cell_env),',
  '"cell_env" : array_to_list(np.array(mg.cell_env).reshape((mg.d, mg.h, mg.w)).transpose((0, 2, 1)).reshape(-1)),', ["C12"]),
 # script fields
 ("c12-rng-seed-not-read", P + "rdscript.py",
  'if "rng_seed"          in d : da["rng_seed"]          = d["rng_seed"]',
  'if False : da["rng_seed"]          = d["rng_seed"]', ["C12"]),
 ("c12-t_sample-written-without-units", P + "rdscript.py",
  '"t_sample"          : unitarray_to_dict(script.t_sample),',
  '"t_sample"          : script.t_sample.value.tolist(),', ["C12"]),
 ("c12-sampling-interval-read-as-time-step", P + "rdscript.py",
  'if "sampling_interval" in d : da["sampling_interval"] = d["sampling_interval"]',
  'if "sampling_interval" in d : da["sampling_interval"] = d.get("time_step", d["sampling_interval"])', ["C12"]),
 # chemostat map written as 'state is non-zero'
 ("c12-chemostats-written-as-bool-of-state", P + "rdsystem.py",
  '"chemostats" : array_to_list(rds.chemostats)',
  '"chemostats" : [int(bool(x)) for x in rds.state.value]', ["C12"]),
]
