#!/usr/bin/env python3
"""Binary-safe text replacement for /repo files (they use CRLF line endings).
usage: crlf_edit.py FILE OLD NEW   (OLD/NEW with \n newlines; exactly one occurrence required)"""
import sys
p, old, new = sys.argv[1:4]
b = open(p, "rb").read()
crlf = b"\r\n" in b
def enc(s):
    s = s.encode("utf-8").decode("unicode_escape").encode("latin-1").decode("utf-8") if "\\n" in s else s
    return (s.replace("\r\n", "\n").replace("\n", "\r\n") if crlf else s).encode("utf-8")
o, n = enc(old), enc(new)
assert b.count(o) == 1, "pattern occurs %d times" % b.count(o)
open(p, "wb").write(b.replace(o, n))
