#!/bin/bash
# Runs the repository's pinned test suite (hooks off) and checks the 118 baseline tests still pass.
cd /repo && /venv/bin/python -m pytest -q -p no:cacheprovider --timeout=900 --continue-on-collection-errors --junitxml=/tmp/repotests.$$.xml >/tmp/repotests.$$.log 2>&1
python3 - "$$" <<'PY'
import json, sys, xml.etree.ElementTree as ET
pid = sys.argv[1]
base = set(json.load(open("/root/.vp/BASELINE.json"))["stable_pass"])
root = ET.parse("/tmp/repotests.%s.xml" % pid).getroot()
ok = set()
for tc in root.iter("testcase"):
    name = tc.get("classname") + "::" + tc.get("name")
    if not any(ch.tag in ("failure", "error", "skipped") for ch in tc):
        ok.add(name)
missing = sorted(base - ok)
print("baseline passing: %d/%d" % (len(base & ok), len(base)))
for m in missing: print("  NOT PASSING:", m)
sys.exit(1 if missing else 0)
PY
rc=$?
rm -f /tmp/repotests.$$.xml /tmp/repotests.$$.log
exit $rc
