"""Helpers to build scripts and drive engines, always bounded by iteration count."""
import numpy as np

from vf import engines, si
from vf.gen import q_bare, TIME_DIM


def seed_form(r, seed):
    """the same seed as one of the integer-like objects a caller may hold (an element of numpy.arange, a numpy scalar, its decimal digits...)"""
    if seed is None:
        return None
    forms = ["int", "int", "int64", "uint64", "0-d array", "digits"]
    if seed < 2 ** 31:
        forms += ["int32"]
    if seed < 2 ** 32:
        forms += ["uint32"]
    if seed < 2 ** 53:
        forms += ["float"]
    f = r.choice(forms)
    if f == "int":
        return int(seed)
    if f == "float":
        return float(seed)
    if f == "digits":
        return "".join(["%d" % int(seed)])         # the number as a string of digits (a value read from a text file, a command line)
    if f == "0-d array":
        return np.array(int(seed))
    return getattr(np, f)(seed)


def make_script(system, r, *, dt_si, t_sample_si, policy="on_t_sample", t_max_si="default", interval_si=None,
                seed=0, isp="auto", usys=None, forms=("bare", "str")):
    """RDScript with time quantities rendered in unit system `usys` (bare) or as explicit strings."""
    from strengths import RDScript, UnitsSystem, UnitArray
    usys = usys or si.DEFAULT_SYS

    def tq(x):
        form = r.choice(forms)
        if form == "bare":
            return q_bare(x, usys, TIME_DIM)
        own = r.choice(["s", "ms", "min", "µs", "ds"])
        return "%r %s" % (float(x / float(si.TIME[own])), own)
    from vf.gen import fresh        # option names as run-time strings (read from a file, lower()-ed...), not interned literals
    kw = dict(system=system, time_step=tq(dt_si), sampling_policy=fresh(policy), rng_seed=seed_form(r, seed),
              init_state_processing=fresh(isp), units_system=UnitsSystem(**si.sys_dict(usys)))
    kw["t_sample"] = [q_bare(x, usys, TIME_DIM) for x in t_sample_si]
    if t_max_si != "default":
        kw["t_max"] = tq(t_max_si)
    if interval_si is not None:
        kw["sampling_interval"] = tq(interval_si)
    from vf.gen import construct
    return construct(r, RDScript, **kw)


def output_arrays(out):
    """(t in s, data in molecules shaped (nsamples, nspecies, ncells)) from an RDTrajectory"""
    t = np.array(out.t.convert("s").value, dtype=float)
    d = np.array(out.data.convert("molecule").value, dtype=float)
    S = out.system.network.nspecies()
    n = out.system.space.size()
    ns = len(t)
    if d.size != ns * S * n:
        raise AssertionError("data length %d != nsamples %d x nspecies %d x ncells %d" % (d.size, ns, S, n))
    return t, d.reshape((ns, S, n))


def drive(eng, max_iter, chunk=None):
    """iterate until complete or max_iter iterations; returns (iterations asked, complete)"""
    done = 0
    cont = True
    chunk = chunk or max_iter
    while cont and done < max_iter:
        k = min(chunk, max_iter - done)
        cont = eng.iterate_n(k)
        done += k
    return done, (not cont)


_KEPT = {}


def kept_engine(kind):
    """One engine object per kind kept for the life of the worker process and used again and again for scripts of other sizes
    (fewer / more cells, species, samples than the run before): a released engine set up anew starts from a clean slate, and what
    it returns holds exactly the new run.  (A third of the calls still take a brand new object.)"""
    import random as _random
    if kind not in _KEPT or _random.random() < 0.33:
        _KEPT[kind] = engines.get(kind)
    return _KEPT[kind]


def run_script(kind, script, max_iter, finalize=True):
    eng = kept_engine(kind) if finalize else engines.get(kind)
    eng.setup(script)
    _, complete = drive(eng, max_iter)
    out = eng.get_output()
    if finalize:
        eng.finalize()
    t, d = output_arrays(out)
    return t, d, complete, out
