"""Engine objects obtained the way a user obtains them, but backed by a library
freshly compiled from the working tree (vf.build), never the prebuilt artefact."""
import os

from vf import build
from vf.common import use_repo

_variant = None


def install(variant=None):
    """Redirect strengths.engine_collection to the freshly built library."""
    global _variant
    use_repo()
    variant = variant or os.environ.get("VERIF_ENGINE_VARIANT", "plain")
    path = build.engine_path(variant)
    import strengths.engine_collection as ec
    ec._get_engine_path = lambda: path
    _variant = variant
    return path


def get(kind):
    """kind in euler | tauleap | gillespie"""
    if _variant is None:
        install()
    import strengths.engine_collection as ec
    return {"euler": ec.euler_engine, "tauleap": ec.tauleap_engine, "gillespie": ec.gillespie_engine}[kind]()


KINDS = ("euler", "tauleap", "gillespie")
