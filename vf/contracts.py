"""icontract monitors put on the real functions of strengths.units from the harness.

Conditions *record and return True*: they never change what the observed code
does; violations are collected in `LOG` and turned into verdicts by the check
that installed them.  Every condition counts its evaluations (`COUNTS`); a check
that relies on a contract and sees zero evaluations reports inconclusive.
"""
from fractions import Fraction as Fr

from vf import si
from vf.common import use_repo

LOG = []          # [(contract name, witness dict)]
COUNTS = {}
_installed = False
REL = 1e-12


class ContractBroken(Exception):
    pass


def _hit(name):
    COUNTS[name] = COUNTS.get(name, 0) + 1


def _bad(name, **w):
    if len(LOG) < 500:
        LOG.append((name, w))


def _sys3(us):
    return (us["space"], us["time"], us["quantity"])


def _dim3(ud):
    return (ud["space"], ud["time"], ud["quantity"])


def _close(x, exact, rel=REL):
    """x (float) within rel of exact (Fraction)"""
    import math
    if exact != 0 and not (Fr(1, 10 ** 280) < abs(exact) < Fr(10 ** 280)):
        return True          # the true result is (nearly) outside the double range: not judged
    if isinstance(x, float) and (math.isnan(x) or math.isinf(x)):
        return False
    if exact == 0:
        return x == 0
    try:
        fx = Fr(x)
    except (OverflowError, ValueError):
        return False
    return abs(fx - exact) <= abs(exact) * Fr(rel)


# --- conditions (named functions; argument names match the wrapped function's) ---------------

def ccf_is_si_ratio(su_src, su_dst, sdim, result):
    _hit("compute_conversion_factor")
    try:
        exact = si.factor(_sys3(su_src), _sys3(su_dst), _dim3(sdim))
    except Exception:
        return True          # unsupported symbols etc.: not this contract's business
    if not _close(float(result), exact):
        _bad("compute_conversion_factor", src=_sys3(su_src), dst=_sys3(su_dst), dim=_dim3(sdim),
             got=float(result), expected=float(exact))
    return True


def convert_unitvalue_post(v, u, result):
    _hit("convert_unitvalue")
    try:
        src = _sys3(v.units.sys)
        dim = _dim3(v.units.dim)
        rs = _sys3(result.units.sys)
        rd = _dim3(result.units.dim)
    except Exception:
        return True
    if rd != dim:
        _bad("convert_unitvalue.dimension", src=src, dim=dim, result_dim=rd, target=repr(u))
        return True
    import math
    if math.isfinite(v.value) and v.value != 0:
        f_ = si.factor(src, rs, dim)
        exact = Fr(v.value) * f_
        if not (Fr(1, 10 ** 280) < abs(f_) < Fr(10 ** 280)):
            pass          # the factor itself is (nearly) outside the double range: it cannot be applied, not judged
        elif not _close(result.value, exact):
            _bad("convert_unitvalue.value", value=v.value, src=src, dst=rs, dim=dim, got=result.value,
                 expected=float(exact))
    if src == rs and math.isfinite(v.value):
        if result.value.hex() != float(v.value).hex():
            _bad("convert_unitvalue.identity", value=v.value, sys=src, dim=dim, got=result.value)
    return True


def units_multiply_post(self, u, result):
    _hit("Units.multiply")
    a, b, c = _dim3(self.dim), _dim3(u.dim), _dim3(result.dim)
    if tuple(x + y for x, y in zip(a, b)) != c or _sys3(result.sys) != _sys3(self.sys):
        _bad("Units.multiply", a=a, b=b, got=c)
    return True


def units_invert_post(self, result):
    _hit("Units.invert")
    a, c = _dim3(self.dim), _dim3(result.dim)
    if tuple(-x for x in a) != c or _sys3(result.sys) != _sys3(self.sys):
        _bad("Units.invert", a=a, got=c)
    return True


def units_raiseto_post(self, e, result):
    _hit("Units.raiseto")
    a, c = _dim3(self.dim), _dim3(result.dim)
    # the documentation accepts float exponents such as 1/3 on m3 ("3/3=1 is still an integer"): judge to rounding
    if any(abs(float(x) * float(e) - y) > 1e-9 for x, y in zip(a, c)):
        _bad("Units.raiseto", a=a, e=e, got=c)
    return True


def install(which=("ccf", "convert", "units")):
    """Wrap the real functions.  Must be called before the workload imports names
    with `from strengths.units import ...` bound elsewhere are used: internal calls
    inside units.py look the functions up in the module at call time, so they are
    covered; `value_processing`, `rdsystem`... call methods on the objects, which
    reach the wrapped module functions too."""
    global _installed
    if _installed:
        return
    use_repo()
    import icontract
    import strengths.units as U
    if "ccf" in which:
        U.compute_conversion_factor = icontract.ensure(ccf_is_si_ratio, error=ContractBroken)(U.compute_conversion_factor)
    if "convert" in which:
        U.convert_unitvalue = icontract.ensure(convert_unitvalue_post, error=ContractBroken)(U.convert_unitvalue)
    if "units" in which:
        U.Units.multiply = icontract.ensure(units_multiply_post, error=ContractBroken)(U.Units.multiply)
        U.Units.invert = icontract.ensure(units_invert_post, error=ContractBroken)(U.Units.invert)
        U.Units.raiseto = icontract.ensure(units_raiseto_post, error=ContractBroken)(U.Units.raiseto)
    _installed = True


def drain():
    """violations and counts since the last drain"""
    global LOG, COUNTS
    l, c = LOG, COUNTS
    LOG, COUNTS = [], {}
    return l, c
