"""Classifier predicates for known_findings.json entries.

A predicate takes (mech, witness) of a violation and says whether it is the listed
finding.  Predicates look at the *mechanism* (which call pattern, which site), never
at case hashes or random values, so a different violation of the same property is
still reported."""


def c10_shared_native_state(mech, witness):
    """All engine objects share the library's single native simulation: the diverging engine's last
    set-up was followed by a native-state-changing call made through ANOTHER engine object.
    Single-engine histories are never excused."""
    return bool(mech.get("two_engines")) and mech.get("other_engine_touched_native_state_since_last_setup") is True \
        and not mech.get("single_engine")


def c10_tauleap_propensity_overflow(mech, witness):
    """tau-leap draws its event counts with std::poisson_distribution<long long>: when one channel's propensity*dt is
    >= 2^63 or infinite the sampler rejects every candidate and iterate() never returns.  Only the probes that have
    such a propensity BY CONSTRUCTION are excused; any other hang is reported."""
    return mech.get("engine") == "tauleap" and mech.get("what") == "hang" and \
        mech.get("propensity_times_dt_at_least_2^63_by_construction") is True
