"""Classifier predicates for known_findings.json entries.

A predicate takes (mech, witness) of a violation and says whether it is the listed
finding.  Predicates look at the *mechanism* (which call pattern, which site), never
at case hashes or random values, so a different violation of the same property is
still reported."""


def c10_shared_native_state(mech, witness):
    """All engine objects share the library's single native simulation: the diverging engine's last
    set-up was followed by a native-state-changing call made through ANOTHER engine object.
    Single-engine histories are never excused."""
    return bool(mech.get("two_engines")) and mech.get("other_engine_touched_native_state_since_last_setup") is True \
        and not mech.get("single_engine")
