"""Classifier predicates for known_findings.json entries.

A predicate takes (mech, witness) of a violation and says whether it is the listed
finding.  Predicates look at the *mechanism* (which call pattern, which site), never
at case hashes or random values, so a different violation of the same property is
still reported."""
