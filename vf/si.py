"""Independent SI table (exact rationals), written from the SI definitions.

space  -> metres, time -> seconds, quantity -> molecules (N_A = 6.02214076e23 exactly).
Not derived from strengths.units: it is the oracle that units.py is checked against.
"""
from fractions import Fraction as Fr

_p = lambda e: Fr(10) ** e

SPACE = {"km": _p(3), "m": _p(0), "dm": _p(-1), "cm": _p(-2), "mm": _p(-3), "dmm": _p(-4), "cmm": _p(-5),
         "µm": _p(-6), "nm": _p(-9), "pm": _p(-12), "fm": _p(-15)}
TIME = {"h": Fr(3600), "min": Fr(60), "s": Fr(1), "ds": _p(-1), "cs": _p(-2), "ms": _p(-3), "µs": _p(-6),
        "ns": _p(-9), "ps": _p(-12), "fs": _p(-15)}
NA = Fr(602214076) * _p(15)
QUANTITY = {"kmol": NA * _p(3), "mol": NA, "dmol": NA * _p(-1), "cmol": NA * _p(-2), "mmol": NA * _p(-3),
            "µmol": NA * _p(-6), "nmol": NA * _p(-9), "pmol": NA * _p(-12), "fmol": NA * _p(-15),
            "molecule": Fr(1)}
BASE = {"space": SPACE, "time": TIME, "quantity": QUANTITY}
KINDS = ("space", "time", "quantity")

# litre family: 1 L = 1 dm^3 ; prefixes kilo, milli, micro, nano, pico, femto
_LITRE = _p(-3)  # m^3
VOLUME = {"kL": _p(3) * _LITRE, "L": _LITRE, "mL": _p(-3) * _LITRE, "µL": _p(-6) * _LITRE,
          "nL": _p(-9) * _LITRE, "pL": _p(-12) * _LITRE, "fL": _p(-15) * _LITRE}
# molar family: 1 M = 1 mol / L
_MOLAR = NA / _LITRE  # molecules per m^3
DENSITY = {"kM": _p(3) * _MOLAR, "M": _MOLAR, "dM": _p(-1) * _MOLAR, "cM": _p(-2) * _MOLAR, "mM": _p(-3) * _MOLAR,
           "µM": _p(-6) * _MOLAR, "nM": _p(-9) * _MOLAR, "pM": _p(-12) * _MOLAR, "fM": _p(-15) * _MOLAR}

# every symbol -> (SI scale, (space, time, quantity) exponents)
SYMBOLS = {}
for _k, _v in SPACE.items():
    SYMBOLS[_k] = (_v, (1, 0, 0))
for _k, _v in TIME.items():
    SYMBOLS[_k] = (_v, (0, 1, 0))
for _k, _v in QUANTITY.items():
    SYMBOLS[_k] = (_v, (0, 0, 1))
for _k, _v in VOLUME.items():
    SYMBOLS[_k] = (_v, (3, 0, 0))
for _k, _v in DENSITY.items():
    SYMBOLS[_k] = (_v, (-3, 0, 1))

ALL_SYSTEMS = [(a, b, c) for a in SPACE for b in TIME for c in QUANTITY]
DEFAULT_SYS = ("µm", "s", "molecule")


def scale(sys3, dim3):
    """SI value of one unit of dimension dim3 expressed in system sys3."""
    f = Fr(1)
    for kind, sym, e in zip(KINDS, sys3, dim3):
        f *= BASE[kind][sym] ** e
    return f


def factor(src, dst, dim3):
    """exact multiplier taking a number in `src` units to `dst` units"""
    return scale(src, dim3) / scale(dst, dim3)


def to_si(value, sys3, dim3):
    return Fr(value) * scale(sys3, dim3)


_LITRE = {"m": "kL", "dm": "L", "cm": "mL", "mm": "µL", "dmm": "nL", "cmm": "pL", "µm": "fL"}
_MOLAR = {"kmol": "kM", "mol": "M", "dmol": "dM", "cmol": "cM", "mmol": "mM", "µmol": "µM", "nmol": "nM", "pmol": "pM", "fmol": "fM"}


def unit_string(sys3, dim3, style=0):
    """A unit string for (sys3, dim3) in the library's grammar."""
    parts = []
    derived = style in (2, 3)     # styles 2 / 3: styles 0 / 1 with litre- and molar-family symbols where the units allow them
    slashneg = style in (4, 5)    # styles 4 / 5: styles 0 / 1 with a later factor of positive exponent e written /sym-e (a/b-1 is a.b)
    style = style % 2
    sp, tm, qt = sys3
    a, b, c = dim3
    if derived and sp == "dm" and c != 0 and a == -3 * c and qt in _MOLAR:
        parts.append((_MOLAR[qt], c))                      # (mol/dm3)^c written M^c
        a, c = 0, 0
    elif derived and a != 0 and a % 3 == 0 and sp in _LITRE:
        parts.append((_LITRE[sp], a // 3))                 # (dm3)^k written L^k
        a = 0
    for sym, e in zip((sp, tm, qt), (a, b, c)):
        if e == 0:
            continue
        parts.append((sym, e))
    if not parts:
        return ""
    out = ""
    for n, (sym, e) in enumerate(parts):
        if n == 0:
            out += sym + ("" if e == 1 else str(e))
        else:
            if slashneg and e > 0:
                out += "/" + sym + str(-e)
            elif style == 1 and e < 0:
                out += "/" + sym + ("" if e == -1 else str(-e))
            else:
                out += "." + sym + ("" if e == 1 else str(e))
    return out


def sys_dict(sys3):
    return {"space": sys3[0], "time": sys3[1], "quantity": sys3[2]}


def sys_of(us):
    """(space,time,quantity) tuple of a strengths UnitsSystem / Units.sys"""
    return (us["space"], us["time"], us["quantity"])


def dim_of(ud):
    return (ud["space"], ud["time"], ud["quantity"])
