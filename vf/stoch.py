"""Offline monitors for stochastic trajectories (used by C03 and C07)."""
from vf import ref


class StepClassifier:
    """Classifies the difference between two consecutive Gillespie records as the
    chemostat-masked effect of exactly one channel that is possible in the earlier state."""

    def __init__(self, desc, chemostats):
        self.chs = ref.channels(desc, chemostats)
        self.by_delta = {}
        for k, ch in enumerate(self.chs):
            key = frozenset((i, d) for i, d in ch[5].items() if d != 0)
            self.by_delta.setdefault(key, []).append(k)

    def a0(self, x):
        return sum(ref.propensity(ch, x) for ch in self.chs)

    def propensities(self, x):
        return [ref.propensity(ch, x) for ch in self.chs]

    def classify(self, x0, x1):
        """returns (list of candidate channel indices with positive propensity, diff key)"""
        diff = frozenset((i, b - a) for i, (a, b) in enumerate(zip(x0, x1)) if a != b)
        cands = [k for k in self.by_delta.get(diff, []) if ref.propensity(self.chs[k], x0) > 0]
        return cands, diff


def is_integer_state(x):
    return all(v >= 0 and float(v).is_integer() for v in x)
