"""Offline monitors for stochastic trajectories (used by C03 and C07)."""
from vf import ref


class StepClassifier:
    """Classifies the difference between two consecutive Gillespie records as the
    chemostat-masked effect of exactly one channel that is possible in the earlier state."""

    def __init__(self, desc, chemostats):
        self.chs = ref.channels(desc, chemostats)
        self.by_delta = {}
        for k, ch in enumerate(self.chs):
            key = frozenset((i, d) for i, d in ch[5].items() if d != 0)
            self.by_delta.setdefault(key, []).append(k)

    def a0(self, x):
        return sum(ref.propensity(ch, x) for ch in self.chs)

    def propensities(self, x):
        return [ref.propensity(ch, x) for ch in self.chs]

    def classify(self, x0, x1):
        """returns (list of candidate channel indices with positive propensity, diff key)"""
        diff = frozenset((i, b - a) for i, (a, b) in enumerate(zip(x0, x1)) if a != b)
        cands = [k for k in self.by_delta.get(diff, []) if ref.propensity(self.chs[k], x0) > 0]
        return cands, diff


def is_integer_state(x):
    return all(v >= 0 and float(v).is_integer() for v in x)


# ---------------------------------------------------------------------------------------------
# pooled Ville accumulators (child side: accumulate; parent side: pool in case order and judge)
import math
from vf import stats as _stats

THETAS = _stats.theta_grid()


def new_acc():
    return {"inc": [0.0] * len(THETAS), "max": 0.0, "n": 0, "sy": 0.0, "sm": 0.0}


def acc_add(acc, y, psi_fn, mean):
    acc["n"] += 1
    acc["sy"] += y
    acc["sm"] += mean
    mx = acc["max"]
    inc = acc["inc"]
    for i, th in enumerate(THETAS):
        inc[i] += th * y - psi_fn(th)
        if inc[i] > mx:
            mx = inc[i]
    acc["max"] = mx


def tauleap_accumulate(desc, chemostats, X, dt, accs, funcs=None, prefix="tauleap-w:"):
    """Feed the increments of a few integer functionals of a tau-leap trajectory X (list of states, on_iteration)
    into Ville accumulators.  Under the property, w.dx has log-MGF dt * sum_c a_c(x) (exp(theta w.delta_c) - 1) with
    chemostat-masked deltas.  Steps with a negative pre-state entry are skipped.  Returns (used, skipped)."""
    chs = ref.channels(desc, chemostats)
    S = len(desc["species"])
    n = len(X[0]) // S
    if funcs is None:
        funcs = [("total-species-%d" % s_, {s_ * n + i: 1 for i in range(n)}) for s_ in range(min(S, 3))]
    groups = []
    for name, w in funcs:
        g = {}
        for k, ch in enumerate(chs):
            dv = sum(w.get(i, 0) * dlt for i, dlt in ch[5].items())
            if dv:
                g.setdefault(dv, []).append(k)
        groups.append((name, w, g))
    used = skipped = 0
    for j in range(len(X) - 1):
        x0 = X[j]
        if min(x0) < 0:
            skipped += 1
            continue
        used += 1
        props = [ref.propensity(ch, x0) for ch in chs]
        for name, w, g in groups:
            y = sum(wv * (X[j + 1][i] - x0[i]) for i, wv in w.items())
            A = [(dv, sum(props[k] for k in ks)) for dv, ks in g.items()]
            if not any(a_ > 0 for _, a_ in A):
                continue
            mean = dt * sum(dv * a_ for dv, a_ in A)
            acc_add(accs.setdefault(prefix + name, new_acc()), y, lambda th, A=A: dt * sum(a_ * math.expm1(th * dv) for dv, a_ in A), mean)
    return used, skipped


class Pool:
    """parent side: pools child accumulators in case order, looks at case boundaries and at within-case maxima"""

    def __init__(self):
        self.P = {}
        self.looks = 0
        self.thr = math.log(len(THETAS) / _stats.ALPHA)

    def add(self, case, accs):
        for name, a in accs.items():
            P = self.P.setdefault(name, {"inc": [0.0] * len(THETAS), "max": 0.0, "n": 0, "sy": 0.0, "sm": 0.0, "alarm_at": None})
            self.looks += 1
            if a["max"] > self.thr and P["alarm_at"] is None:
                P["alarm_at"] = {"case": case, "within_case_logL": a["max"]}
            for i in range(len(THETAS)):
                P["inc"][i] += a["inc"][i]
            P["n"] += a["n"]
            P["sy"] += a["sy"]
            P["sm"] += a["sm"]
            m = max(P["inc"])
            if m > P["max"]:
                P["max"] = m
                if m > self.thr and P["alarm_at"] is None:
                    P["alarm_at"] = {"case": case, "pooled_logL": m}

    def judge(self, run, what="rate statistic '%s' departs from the master equation (Ville test)"):
        summ = []
        for name, P in sorted(self.P.items()):
            summ.append({"monitor": name, "n": P["n"], "observed_sum": round(P["sy"], 3), "expected_sum": round(P["sm"], 3),
                         "max_logL": round(P["max"], 3), "threshold": round(self.thr, 3)})
            run.count("ville:" + name, P["n"])
            if P["alarm_at"] is not None:
                run.violation(what % name, {"monitor": name, "n": P["n"], "observed_sum": P["sy"], "expected_sum": P["sm"],
                                            "max_logL": P["max"], "threshold": self.thr, **P["alarm_at"]},
                              mech={"what": "ville", "monitor": name})
        return summ
