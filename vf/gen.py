"""Seeded generators of *physical model descriptions* and renderers into
repository objects.

A description is plain data in SI (metre, second, molecule); it is what the
oracles in vf.ref work on.  A rendering turns it into strengths objects in a
randomly chosen surface form (unit systems per nesting level, bare numbers /
unit strings / UnitValue objects, constructor or dictionary form).  The
expected SI value of every field is therefore known before repository code
runs.
"""
import math
import copy
import random

from vf import si

LABELS = ["A", "B", "C", "E", "F", "G2", "h_1", "Xy", "π", "N*", "2PG", "12", "1"]      # the last three start with / are digits: a label is whatever stands after the (optional) coefficient
# some labels contain one another on purpose (a look-up by substring instead of by key would confuse them)
ENVS = ["cyt", "mem", "nuc", "ext", "cytosol", "membrane", "ex", "nuc2",
        "2", "1", "0", "A", ""]      # labels that look like indices (but are not their own position), a label shared with a species, the empty label (the stock environment of a network)


def fresh(x):
    """an equal but distinct string object (what json.load, str.lower(), "".join(...) hand over): never the interned literal"""
    if isinstance(x, str) and len(x) > 1:
        return "".join(list(x))
    return x


def rng_for(seed, *salt):
    return random.Random("%s|%s" % (seed, "|".join(map(str, salt))))


def rand_sys(r):
    return (r.choice(list(si.SPACE)), r.choice(list(si.TIME)), r.choice(list(si.QUANTITY)))


def mild_sys(r):
    """unit systems whose conversion factors stay within ~1e±12 of the default"""
    return (r.choice(["m", "dm", "cm", "mm", "dmm", "cmm", "µm", "nm"]),
            r.choice(["h", "min", "s", "ds", "cs", "ms", "µs"]),
            r.choice(["mol", "mmol", "µmol", "nmol", "pmol", "fmol", "molecule", "cmol"]))


# ---------------------------------------------------------------------------
# per-environment values

def per_env(r, envs, draw, allow_zero=True, p_scalar=0.4):
    """scalar, or dict over a subset of envs with/without "default"."""
    def one():
        if allow_zero and r.random() < 0.2:
            return 0.0
        return draw()
    if len(envs) == 1 and r.random() < 0.7 or r.random() < p_scalar:
        return one()
    keys = [e for e in envs if r.random() < 0.7]
    d = {e: one() for e in keys}
    if len(keys) >= 2 and r.random() < 0.25:
        # exact ties: several environments listed with the very same non-zero value (still a per-environment value: an
        # environment that is not listed keeps "default" / 0)
        tie = draw()
        for e in (keys if r.random() < 0.5 else r.sample(keys, 2)):
            d[e] = tie
    if r.random() < 0.5 or not d:
        d["default"] = one()
    return d


def in_env(v, env, default=0.0):
    """reference lookup: env entry, else "default", else `default`."""
    if isinstance(v, dict):
        if env in v:
            return v[env]
        if "default" in v:
            return v["default"]
        return default
    return v


# ---------------------------------------------------------------------------
# networks

def rand_reaction(r, labels, max_order=4, allow_empty=True):
    def side():
        n_terms = r.choice([0, 1, 1, 2, 2, 3] if allow_empty else [1, 1, 2, 2, 3])
        d = {}
        order = 0
        for _ in range(n_terms):
            c = r.choice([1, 1, 1, 2, 2, 3])
            if order + c > max_order:
                continue
            l = r.choice(labels)
            d[l] = d.get(l, 0) + c
            order += c
        return d
    return side(), side()


def autocatalytic(sub, prod):
    """some species is a reactant and comes out with a larger coefficient"""
    return any(prod.get(l, 0) > c >= 1 for l, c in sub.items())


def rand_network(r, opts=None):
    """opts: nspecies (lo,hi), nreactions (lo,hi), max_order, nenv (lo,hi), h (natural length, m),
    rate_scale, no_explosive (bool), diffusing (probability a species diffuses)"""
    o = dict(nspecies=(1, 4), nreactions=(0, 3), max_order=4, nenv=(1, 3), h=None, no_explosive=True, no_growth=True,
             p_diff=0.8, counts=(0, 200), rate=(0.05, 5.0), chstt=0.25)
    o.update(opts or {})
    h = o["h"] if o["h"] else 10 ** r.uniform(-7, -4.5)
    V = h ** 3
    ns = r.randint(*o["nspecies"])
    ne = r.randint(*o["nenv"])
    labels = r.sample(LABELS, ns)
    envs = r.sample(ENVS, ne)
    species = []
    for l in labels:
        diff = r.random() < o["p_diff"]
        D = per_env(r, envs, lambda: 10 ** r.uniform(-1.5, 1.0) * h * h) if diff else 0.0
        dens = per_env(r, envs, lambda: r.uniform(*o["counts"]) / V)
        if r.random() < o["chstt"]:
            ch = True if r.random() < 0.4 else {e: r.random() < 0.5 for e in envs if r.random() < 0.8}
            if isinstance(ch, dict) and r.random() < 0.4:
                ch["default"] = r.random() < 0.5
        else:
            ch = False
        species.append({"label": l, "D": D, "density": dens, "chstt": ch})
    reactions = []
    for j in range(r.randint(*o["nreactions"])):
        sub, prod = rand_reaction(r, labels, o["max_order"])
        n, m = sum(sub.values()), sum(prod.values())
        typ = r.uniform(max(1.0, o["counts"][0]), max(2.0, o["counts"][1])) / 2 + 1

        def kdraw(order):
            # propensity per cell ~ rate * typ  =>  k V^(1-order) typ^order ~ rate*typ
            return lambda: r.uniform(*o["rate"]) * typ ** (1 - order) * V ** (order - 1)
        kf = per_env(r, envs, kdraw(n))
        kr = per_env(r, envs, kdraw(m)) if r.random() < 0.6 else 0.0
        if o["no_explosive"]:
            if n >= 2 and m > n:
                kf = 0.0
            if m >= 2 and n > m:
                kr = 0.0
        ac_f, ac_r = autocatalytic(sub, prod), autocatalytic(prod, sub)
        if o["no_explosive"]:
            # X-autocatalysis of order >= 2 (... + a X -> ... + b X, b > a >= 1) explodes in finite time as soon as the other
            # reactants are fed (chemostats, sources), even when it produces no net molecule
            if n >= 2 and ac_f:
                kf = 0.0
            if m >= 2 and ac_r:
                kr = 0.0
        if o["no_growth"]:
            if ac_f:
                kf = 0.0
            if ac_r:
                kr = 0.0
            # no net molecule production by a direction of order >= 1 (exponential growth): over the long runs some
            # checks make, counts would reach the regime where tau-leap is undefined (propensity*dt >= 2^63, see C10)
            if n >= 1 and m > n:
                kf = 0.0
            if m >= 1 and n > m:
                kr = 0.0
        reactions.append({"sub": sub, "prod": prod, "kf": kf, "kr": kr,
                          "label": ("r%d" % j) if r.random() < 0.5 else None})
    return {"envs": envs, "species": species, "reactions": reactions, "h": h}


# ---------------------------------------------------------------------------
# spaces

BCS = [{"x": a, "y": b, "z": c} for a in ("reflecting", "periodical") for b in ("reflecting", "periodical")
       for c in ("reflecting", "periodical")]


def rand_grid(r, nenv, h, dims=(1, 4), max_cells=40):
    while True:
        w, hh, d = (r.randint(*dims) for _ in range(3))
        if w * hh * d <= max_cells:
            break
    n = w * hh * d
    if r.random() < 0.3:
        env = [r.randrange(nenv)] * n
    else:
        env = [r.randrange(nenv) for _ in range(n)]
    return {"type": "grid", "w": w, "h": hh, "d": d, "cell_env": env, "cell_vol": h ** 3 * r.uniform(0.5, 2.0),
            "bc": dict(r.choice(BCS))}


def rand_graph(r, nenv, h, nodes=(1, 8), simple=True, p_edge=0.45):
    n = r.randint(*nodes)
    ns = [{"vol": (h * r.uniform(0.6, 1.8)) ** 3, "env": r.randrange(nenv)} for _ in range(n)]
    edges = []
    for i in range(n):
        for j in range(i + 1, n):
            if r.random() < p_edge:
                a, b = (i, j) if r.random() < 0.5 else (j, i)
                edges.append({"i": a, "j": b, "sfc": h * h * r.uniform(0.3, 2.0), "dst": h * r.uniform(0.5, 2.0)})
    if not simple:
        for _ in range(r.choice([0, 1, 2])):
            if r.random() < 0.5:      # self-loop
                i = r.randrange(n)
                edges.append({"i": i, "j": i, "sfc": h * h * r.uniform(0.3, 2.0), "dst": h * r.uniform(0.5, 2.0)})
            elif edges:               # parallel edge
                e = r.choice(edges)
                edges.append({"i": e["j"], "j": e["i"], "sfc": h * h * r.uniform(0.3, 2.0), "dst": h * r.uniform(0.5, 2.0)})
    for e in edges:
        if r.random() < 0.06:
            e["sfc"] = 0.0            # an interface without contact surface (a closed gate): a valid edge that carries no flux
    r.shuffle(edges)
    return {"type": "graph", "nodes": ns, "edges": edges}


def ncells(space):
    return space["w"] * space["h"] * space["d"] if space["type"] == "grid" else len(space["nodes"])


def cell_envs(space):
    return list(space["cell_env"]) if space["type"] == "grid" else [n["env"] for n in space["nodes"]]


def cell_vols(space):
    return [space["cell_vol"]] * ncells(space) if space["type"] == "grid" else [n["vol"] for n in space["nodes"]]


# ---------------------------------------------------------------------------
# systems

def large_system(r, min_cells=4100, max_cells=5300, nspecies=(1, 2), reactions=True):
    """a description with more than 4096 cells (array lengths beyond the block sizes fast paths like to use): grids of
    several shapes with two environments, unequal per-environment constants, integer amounts"""
    h = 10 ** r.uniform(-7, -5)
    envs = r.sample(ENVS, 2)
    shapes = [(17, 17, 17), (70, 70, 1), (4100, 1, 1), (65, 8, 8), (1, 4500, 1), (16, 16, 17), (2, 3, 700)]
    shapes = [s_ for s_ in shapes if min_cells <= s_[0] * s_[1] * s_[2] <= max_cells] or [(min_cells, 1, 1)]
    w, hh, d = r.choice(shapes)
    n = w * hh * d
    S = r.randint(*nspecies)
    labels = r.sample([l for l in LABELS if not l[0].isdigit()], S)
    species = [{"label": l, "D": per_env(r, envs, lambda: 10 ** r.uniform(-1.0, 0.5) * h * h), "density": 0.0, "chstt": False} for l in labels]
    rx = []
    if reactions and S >= 2:
        V = h ** 3
        rx.append({"sub": {labels[0]: 1}, "prod": {labels[1]: 1}, "kf": per_env(r, envs, lambda: r.uniform(0.1, 2.0)), "kr": r.uniform(0.0, 1.0), "label": None})
    space = {"type": "grid", "w": w, "h": hh, "d": d, "cell_env": [r.randrange(2) for _ in range(n)], "cell_vol": h ** 3 * r.uniform(0.5, 2.0),
             "bc": dict(r.choice(BCS))}
    state = [float(r.choice([0, r.randint(1, 60)])) for _ in range(S * n)]
    for k in (4095, 4096, 8191, S * n - 1):
        if k < S * n:
            state[k] = float(r.randint(5, 60))
    chst = [int(r.random() < 0.02) for _ in range(S * n)]
    for k in (S * n - 1, S * n - 2, 4097):
        if k < S * n and r.random() < 0.7:
            chst[k] = 1
    return {"envs": envs, "species": species, "reactions": rx, "space": space, "state": state, "chemostats": chst, "h": h}


def many_species_system(r, nspecies=(33, 70)):
    """33..70 species (more than a 32-bit mask can flag) on a couple of cells, a few conversions between low- and
    high-index species, chemostat flags on species of index 31 and beyond"""
    h = 10 ** r.uniform(-7, -5)
    envs = r.sample(ENVS, 2)
    S = r.randint(*nspecies)
    labels = ["S%d" % k for k in range(S)]
    species = [{"label": l, "D": (10 ** r.uniform(-1.0, 0.5) * h * h if r.random() < 0.7 else 0.0), "density": 0.0, "chstt": False} for l in labels]
    rx = []
    for _ in range(r.randint(2, 6)):
        a, b = r.sample(range(S), 2)
        rx.append({"sub": {labels[a]: 1}, "prod": {labels[b]: 1}, "kf": r.uniform(0.1, 2.0), "kr": r.uniform(0.0, 1.0), "label": None})
    if r.random() < 0.5:
        space = {"type": "grid", "w": r.randint(2, 3), "h": 1, "d": 1, "cell_env": None, "cell_vol": h ** 3, "bc": dict(r.choice(BCS))}
        n = space["w"]
        space["cell_env"] = [r.randrange(2) for _ in range(n)]
    else:
        space = rand_graph(r, 2, h, nodes=(2, 3), simple=True, p_edge=0.9)
        n = len(space["nodes"])
    state = [float(r.randint(1, 60)) for _ in range(S * n)]
    chst = [0] * (S * n)
    for s_ in {31, 32, 33, S - 1, r.randrange(S), r.randrange(31, S)}:
        if s_ < S:
            chst[s_ * n + r.randrange(n)] = 1
    return {"envs": envs, "species": species, "reactions": rx, "space": space, "state": state, "chemostats": chst, "h": h}


def default_state(desc):
    """density(env | default | 0) x volume, species-major, in molecules"""
    sp = desc["space"]
    envs = desc["envs"]
    ce, cv = cell_envs(sp), cell_vols(sp)
    out = []
    for s in desc["species"]:
        for i in range(ncells(sp)):
            out.append(in_env(s["density"], envs[ce[i]], 0.0) * cv[i])
    return out


def default_chemostats(desc):
    sp = desc["space"]
    envs = desc["envs"]
    ce = cell_envs(sp)
    out = []
    for s in desc["species"]:
        for i in range(ncells(sp)):
            out.append(int(bool(in_env(s["chstt"], envs[ce[i]], 0))))
    return out


def rand_system(r, opts=None):
    """opts: space ("grid"|"graph"|None), net (opts for rand_network), explicit_state (p),
    explicit_chstt (p), integer_state (bool), grid/graph kwargs"""
    o = dict(space=None, net=None, explicit_state=0.5, explicit_chstt=0.5, integer_state=False,
             grid={}, graph={}, state_counts=(0, 200), p_zero=0.2)
    o.update(opts or {})
    net = rand_network(r, o["net"])
    h = net["h"]
    kind = o["space"] or r.choice(["grid", "graph"])
    space = rand_grid(r, len(net["envs"]), h, **o["grid"]) if kind == "grid" else rand_graph(r, len(net["envs"]), h, **o["graph"])
    desc = {"envs": net["envs"], "species": net["species"], "reactions": net["reactions"], "space": space,
            "state": None, "chemostats": None, "h": h}
    n = ncells(space) * len(net["species"])
    if r.random() < o["explicit_state"] or o["integer_state"]:
        st = []
        for _ in range(n):
            if r.random() < o["p_zero"]:
                st.append(0.0)
            elif o["integer_state"]:
                st.append(float(r.randint(*[int(x) for x in o["state_counts"]])))
            else:
                st.append(r.uniform(*o["state_counts"]))
        desc["state"] = st
    if r.random() < o["explicit_chstt"]:
        p = r.choice([0.1, 0.3, 0.6])
        desc["chemostats"] = [int(r.random() < p) for _ in range(n)]
    return desc


def state_of(desc):
    return list(desc["state"]) if desc["state"] is not None else default_state(desc)


def chemostats_of(desc):
    return list(desc["chemostats"]) if desc["chemostats"] is not None else default_chemostats(desc)


# ---------------------------------------------------------------------------
# rendering

K_DIM = lambda n: (3 * n - 3, -1, 1 - n)
D_DIM = (2, -1, 0)
DENS_DIM = (-3, 0, 1)
VOL_DIM = (3, 0, 0)
SFC_DIM = (2, 0, 0)
LEN_DIM = (1, 0, 0)
TIME_DIM = (0, 1, 0)
Q_DIM = (0, 0, 1)


def fnum(x):
    return float(x)


def q_bare(si_value, sys3, dim3):
    """the bare number that means si_value when read in sys3"""
    return float(si_value / float(si.scale(sys3, dim3))) if si_value != 0 else 0.0


def _join_env_keys(r, v, out):
    """documented shorthand: one key naming several environments ("a,b,c": value) for environments that share a value"""
    groups = {}
    for k in out:
        if k != "default":
            groups.setdefault(v[k], []).append(k)
    for val, ks in groups.items():
        if len(ks) >= 2 and r.random() < 0.5:
            r.shuffle(ks)
            joined = r.choice([",", ", ", " ,"]).join(ks)
            first = out[ks[0]]
            for k in ks:
                del out[k]
            out[joined] = first
    return out


def num_text(r, x):
    """the number x written in one of the spellings Python's float() reads back to exactly x: repr, upper-case E, a padded
    17-digit mantissa, '5.' / '5' for whole numbers, '.5' for a leading zero"""
    t = repr(x)
    c = r.random()
    if c < 0.7 or not isinstance(x, float) or x != x or x in (float("inf"), float("-inf")):
        return t
    alt = [t.replace("e", "E"), "%.17e" % x, "%.17E" % x]
    if x == int(x) and abs(x) < 1e15:
        alt += ["%d." % int(x), "%d" % int(x), "%d.000" % int(x)]
    if t.startswith("0.") and "e" not in t:
        alt.append(t[1:])
    if t.startswith("-0.") and "e" not in t:
        alt.append("-" + t[2:])
    t2 = r.choice(alt)
    return t2 if float(t2) == x and (x != 0 or str(float(t2)) == str(x)) else t


class Rendering:
    """A choice of unit system per nesting level and of quantity form per field,
    drawn lazily from a seeded RNG so that it is reproducible from (seed, salt)."""

    def __init__(self, r, sys_draw=mild_sys, forms=("bare", "str", "uv"), levels="all", same=None,
                 molecule_state=False):
        self.r = r
        self.sys_draw = sys_draw
        self.forms = forms
        self.same = same           # if given: every level uses this system
        self.molecule_state = molecule_state   # system level counts in molecules, state given as bare numbers
        self.log = {}
        self.notes = {}            # what else was varied (not a unit system per level)
        self.handed_in = []        # mutable containers / quantity objects handed to constructors (see scribble())

    def keep(self, obj):
        """remember a mutable input so that it can be scribbled over after construction"""
        self.handed_in.append(obj)
        return obj

    def scribble(self):
        """Overwrite every mutable input that was handed to a constructor.  The library documents value semantics for
        its inputs (it copies them); an object that kept a reference instead now holds garbage and every oracle built
        on the description notices.  (Species.chstt dictionaries are kept by reference by design and are not touched.)"""
        import numpy as _np
        n = 0
        for o in self.handed_in:
            try:
                if isinstance(o, dict):
                    for k in list(o):
                        o[k] = "periodical" if o[k] == "reflecting" else ("reflecting" if o[k] == "periodical" else -4321.5)
                    n += 1
                elif isinstance(o, list):
                    for i in range(len(o)):
                        o[i] = 7 if isinstance(o[i], int) else -4321.5
                    n += 1
                elif isinstance(o, _np.ndarray):
                    o[...] = 7 if o.dtype.kind in "iu" else -4321.5
                    n += 1
                elif hasattr(o, "value") and hasattr(o, "units"):
                    if hasattr(o.value, "__len__"):
                        o.value[...] = -4321.5
                    else:
                        o.value = -4321.5
                    n += 1
            except Exception:
                pass
        self.handed_in = []
        return n

    def level(self, name, parent):
        """unit system for a nesting level: inherit from parent or its own"""
        if self.same is not None:
            s = self.same
        elif parent is not None and self.r.random() < 0.4:
            s = parent
        elif parent is not None and self.r.random() < 0.1:
            s = si.DEFAULT_SYS        # a nested level in the documented default units under a parent that is not
        else:
            s = self.sys_draw(self.r)
        if name == "system" and self.molecule_state:
            s = (s[0], s[1], "molecule")
        self.log[name] = s
        return s

    def q(self, si_value, dim3, enclosing):
        """render one quantity: bare in the enclosing system, or explicit units in another"""
        form = self.r.choice(self.forms)
        if form == "bare":
            return self.num(q_bare(si_value, enclosing, dim3))
        own = self.sys_draw(self.r) if self.same is None else self.same
        num = q_bare(si_value, own, dim3)
        ustr = si.unit_string(own, dim3, style=self.r.choice([0, 1, 2, 3, 0, 1, 2, 3, 4, 5]))
        if form == "str":
            return "%s %s" % (num_text(self.r, num), ustr)
        from strengths.units import UnitValue
        return self.keep(UnitValue(num, ustr))

    def per_env(self, v, dim3, enclosing):
        if isinstance(v, dict):
            keys = list(v)
            self.r.shuffle(keys)            # the meaning of a per-environment dictionary does not depend on its key order
            out, written = {}, {}
            for k in keys:
                # equal values are, half of the time, also written identically (one form, one unit)
                if v[k] in written and v[k] != 0 and self.r.random() < 0.5:
                    out[k] = copy.deepcopy(written[v[k]])
                else:
                    out[k] = self.q(v[k], dim3, enclosing)
                    written[v[k]] = out[k]
            out = _join_env_keys(self.r, v, out)
            if self.r.random() < 0.12:
                # an entry for an environment this network does not list (a species or reaction object shared with a model that
                # has more compartments): legal, and without effect here
                out[self.r.choice(["ghost_env", "nucleus_of_another_model"])] = self.q(self.r.choice([1.0, 2.5, 0.0]), dim3, enclosing)
                self.notes["entries_for_unlisted_environments"] = self.notes.get("entries_for_unlisted_environments", 0) + 1
            return self.keep(out)
        return self.q(v, dim3, enclosing)

    def seq(self, values, integer=False):
        """a sequence of numbers in one of the container / number types the library documents as equivalent"""
        import numpy as _np
        form = self.r.choice(["list", "list", "tuple", "ndarray", "list-of-numpy-scalars"])
        if form == "list":
            return self.keep(list(values))
        if form == "tuple":
            return tuple(values)
        if form == "ndarray":
            return self.keep(_np.array(values, dtype=int if integer else float))
        return self.keep([(_np.int64(v) if integer else _np.float64(v)) for v in values])

    def num(self, x):
        """a plain number as float, int (when integral) or a numpy scalar"""
        import numpy as _np
        c = self.r.random()
        if c < 0.6 or isinstance(x, str) or not isinstance(x, (int, float)):
            return x
        if c < 0.8:
            return _np.float64(x)
        if float(x).is_integer() and abs(x) < 2 ** 52:
            return int(x) if c < 0.9 else _np.int64(int(x))
        return x


def eq_string(sub, prod, r=None):
    """equation text; with a random source, coefficients >= 2 are sometimes written as repeated terms ('A + B + 2 A' for 3 A + B:
    repeats on one side add up) and the terms of a side come in any order"""
    def side(d):
        terms = []
        for l, c in d.items():
            if r is not None and c >= 2 and r.random() < 0.3:
                k = r.randint(1, c - 1)
                terms += [(k, l), (c - k, l)]
            else:
                terms.append((c, l))
        if r is not None and len(terms) > 1 and r.random() < 0.5:
            r.shuffle(terms)
        parts = []
        for c, l in terms:
            if c == 1 and (r is None or r.random() < 0.7):
                parts.append(l)
            else:
                parts.append("%d %s" % (c, l))
        return " + ".join(parts)
    return side(sub) + " -> " + side(prod)


# the documented order of the constructors' parameters: part of the time a leading run of the arguments is passed by position
SIGNATURES = {
    "Species": ["label", "D", "density", "chstt", "units_system"],
    "Reaction": ["stoichiometry", "kf", "kr", "label", "units_system"],
    "RDNetwork": ["species", "reactions", "environments", "units_system"],
    "RDGridSpace": ["w", "h", "d", "cell_env", "cell_vol", "boundary_conditions", "units_system"],
    "RDGraphSpaceNode": ["volume", "environment", "units_system"],
    "RDGraphSpaceEdge": ["i", "j", "surface", "distance", "units_system"],
    "RDGraphSpace": ["nodes", "edges", "units_system"],
    "RDSystem": ["network", "space", "state", "chemostats", "units_system"],
    "RDScript": ["system", "t_sample", "time_step", "t_max", "sampling_policy", "sampling_interval", "rng_seed", "init_state_processing",
                 "units_system"],
}


def construct(r, cls, **kw):
    """cls(**kw), or the same call with the first k parameters (documented order) given by position"""
    order = SIGNATURES[cls.__name__]
    if r.random() < 0.3:
        lead = 0
        while lead < len(order) and order[lead] in kw:
            lead += 1
        k = r.randint(0, lead)
        args = [kw[n_] for n_ in order[:k]]
        rest = {n_: v_ for n_, v_ in kw.items() if n_ not in order[:k]}
        return cls(*args, **rest)
    return cls(**kw)


def render_network(desc, rd, parent_sys):
    from strengths import Species, Reaction, RDNetwork, UnitsSystem
    nsys = rd.level("network", parent_sys)
    species = []
    for n, s in enumerate(desc["species"]):
        ssys = rd.level("species%d" % n, nsys)
        species.append(construct(rd.r, Species, label=s["label"], D=rd.per_env(s["D"], D_DIM, ssys),
                               density=rd.per_env(s["density"], DENS_DIM, ssys),
                               chstt=(dict(s["chstt"]) if isinstance(s["chstt"], dict) else s["chstt"]),
                               units_system=UnitsSystem(**si.sys_dict(ssys))))
    reactions = []
    for n, x in enumerate(desc["reactions"]):
        rsys = rd.level("reaction%d" % n, nsys)
        no, mo = sum(x["sub"].values()), sum(x["prod"].values())
        if rd.r.random() < 0.5:
            sto = eq_string(x["sub"], x["prod"], rd.r)
        else:
            sto = rd.keep([rd.keep(dict(x["sub"])), rd.keep(dict(x["prod"]))])
        reactions.append(construct(rd.r, Reaction, stoichiometry=sto, kf=rd.per_env(x["kf"], K_DIM(no), rsys), kr=rd.per_env(x["kr"], K_DIM(mo), rsys),
                                  label=x.get("label"), units_system=UnitsSystem(**si.sys_dict(rsys))))
    return construct(rd.r, RDNetwork, species=rd.keep(list(species)), reactions=rd.keep(list(reactions)), environments=rd.keep([fresh(e_) for e_ in desc["envs"]]),
                     units_system=UnitsSystem(**si.sys_dict(nsys)))


def bc_dict_form(bc, r):
    """a boundary-conditions dictionary in a random but equivalent surface form: any key order, axes left at the
    default ("reflecting") possibly omitted"""
    keys = [k for k in ("x", "y", "z") if k in bc]
    r.shuffle(keys)
    drop = r.random() < 0.5
    out = {}
    for k in keys:
        if drop and bc[k] == "reflecting" and r.random() < 0.7:
            continue
        out[k] = fresh(bc[k])
    return out


def render_space(desc, rd, parent_sys):
    from strengths import RDGridSpace, RDGraphSpace, RDGraphSpaceNode, RDGraphSpaceEdge, UnitsSystem
    sp = desc["space"]
    ssys = rd.level("space", parent_sys)
    if sp["type"] == "grid":
        return construct(rd.r, RDGridSpace, w=rd.num(sp["w"]), h=rd.num(sp["h"]), d=rd.num(sp["d"]),
                           cell_env=(rd.seq(sp["cell_env"], integer=True) if len(set(sp["cell_env"])) > 1 or rd.r.random() < 0.7
                                     else rd.num(sp["cell_env"][0])),
                           cell_vol=rd.q(sp["cell_vol"], VOL_DIM, ssys), boundary_conditions=rd.keep(bc_dict_form(sp["bc"], rd.r)),
                           units_system=UnitsSystem(**si.sys_dict(ssys)))
    nodes, edges = [], []
    for n, nd in enumerate(sp["nodes"]):
        nsys = rd.level("node%d" % n, ssys)
        nodes.append(construct(rd.r, RDGraphSpaceNode, volume=rd.q(nd["vol"], VOL_DIM, nsys), environment=rd.num(nd["env"]),
                                      units_system=UnitsSystem(**si.sys_dict(nsys))))
    for n, e in enumerate(sp["edges"]):
        esys = rd.level("edge%d" % n, ssys)
        edges.append(construct(rd.r, RDGraphSpaceEdge, i=rd.num(e["i"]), j=rd.num(e["j"]), surface=rd.q(e["sfc"], SFC_DIM, esys),
                                      distance=rd.q(e["dst"], LEN_DIM, esys),
                                      units_system=UnitsSystem(**si.sys_dict(esys))))
    return construct(rd.r, RDGraphSpace, nodes=rd.keep(list(nodes)), edges=rd.keep(list(edges)), units_system=UnitsSystem(**si.sys_dict(ssys)))


class InputModified(AssertionError):
    """a constructor changed an object that belongs to its caller"""


def _dict_snapshot(d):
    out = []
    for k_, v_ in d.items():
        vals = getattr(v_, "value", v_)
        try:
            vals = [float(x) for x in vals]
        except TypeError:
            vals = repr(vals)
        out.append((repr(k_), vals, str(getattr(v_, "units", ""))))
    return out


def render_system(desc, rd):
    """RDSystem for a description under rendering `rd`."""
    from strengths import RDSystem, UnitsSystem, UnitArray
    if rd.same is None and "uv" in rd.forms and rd.r.random() < 0.1:
        # another route to the same model: the dictionary form (key aliases, units entries per level) through the reader
        from strengths import rdsystem_from_dict
        rd.notes["built_through_the_dictionary_reader"] = True
        return rdsystem_from_dict(system_dict(desc, rd))
    sysu = rd.level("system", None)
    net = render_network(desc, rd, sysu)
    space = render_space(desc, rd, sysu)
    kw = {}
    labels = [s_["label"] for s_ in desc["species"]]
    ncell = ncells(desc["space"])
    if desc["state"] is not None:
        form = "bare" if rd.molecule_state else rd.r.choice(["bare", "ua", "ua", "dict"])
        if form == "bare":
            kw["state"] = rd.seq([q_bare(x, sysu, Q_DIM) for x in desc["state"]])
        elif form == "ua":
            own = rd.sys_draw(rd.r) if rd.same is None else rd.same
            kw["state"] = rd.keep(UnitArray([q_bare(x, own, Q_DIM) for x in desc["state"]], own[2]))
        else:
            # documented dictionary form: one UnitArray per species label (each in units of its own)
            d = {}
            for k, l in enumerate(labels):
                own = rd.sys_draw(rd.r) if rd.same is None else rd.same
                d[l] = UnitArray([q_bare(x, own, Q_DIM) for x in desc["state"][k * ncell:(k + 1) * ncell]], own[2])
            items = list(d.items())
            rd.r.shuffle(items)
            kw["state"] = dict(items)
    elif not rd.molecule_state and rd.r.random() < 0.15:
        # dictionary overriding some species only, with the very values the default would give
        dflt = default_state(desc)
        d = {}
        for k, l in enumerate(labels):
            if rd.r.random() < 0.5:
                own = rd.sys_draw(rd.r) if rd.same is None else rd.same
                d[l] = UnitArray([q_bare(x, own, Q_DIM) for x in dflt[k * ncell:(k + 1) * ncell]], own[2])
        kw["state"] = d
    if desc["chemostats"] is not None:
        # a flag is "int or bool": any non-zero integer flags the entry (the user guide itself uses 3 and 5)
        loud = rd.r.random() < 0.3
        flagv = lambda c_: (rd.r.choice([1, 2, 3, 5, 127]) if loud else 1) if c_ else 0
        if rd.r.random() < 0.25:
            # documented dictionary form: arrays per species label; species left out keep their species-level default
            dflt = default_chemostats(desc)
            d = {}
            for k, l in enumerate(labels):
                sl = list(desc["chemostats"][k * ncell:(k + 1) * ncell])
                if sl != list(dflt[k * ncell:(k + 1) * ncell]) or rd.r.random() < 0.5:
                    d[l] = rd.seq([flagv(c_) for c_ in sl], integer=True)
            items = list(d.items())
            rd.r.shuffle(items)
            kw["chemostats"] = dict(items)
        else:
            kw["chemostats"] = rd.seq([flagv(c_) for c_ in desc["chemostats"]], integer=True)
    elif rd.r.random() < 0.1:
        dflt = default_chemostats(desc)
        kw["chemostats"] = {l: rd.seq(list(dflt[k * ncell:(k + 1) * ncell]), integer=True)
                            for k, l in enumerate(labels) if rd.r.random() < 0.5}
    # the per-species dictionaries are the caller's: building a system from them leaves them as they were, so that the same
    # dictionaries can serve for the next system (part of the time the system handed on IS that second one)
    snap = {k_: _dict_snapshot(v_) for k_, v_ in kw.items() if isinstance(v_, dict)}
    system = construct(rd.r, RDSystem, network=net, space=space, units_system=UnitsSystem(**si.sys_dict(sysu)), **kw)
    for k_, before in snap.items():
        if _dict_snapshot(kw[k_]) != before:
            raise InputModified("RDSystem(...) modified the %s dictionary it was given: %s -> %s" % (k_, before[:3], _dict_snapshot(kw[k_])[:3]))
    if snap and rd.r.random() < 0.5:
        system = RDSystem(network=net, space=space, units_system=UnitsSystem(**si.sys_dict(sysu)), **kw)
        rd.notes["built_twice_from_the_same_dictionaries"] = True
    rd.scribble()
    # a copy is the same model: part of the time the system handed to the check is a copy of the one built, made in one of
    # the ways the package offers (copy() of the system, copy.deepcopy, or a system rebuilt from copies of its parts)
    how = rd.r.choice(["as built"] * 4 + ["copy()", "deepcopy", "rebuilt from copies of the parts", "parts copied one by one"])
    rd.log["copy_variant"] = how
    if how == "copy()":
        system = system.copy()
    elif how == "deepcopy":
        system = copy.deepcopy(system)
    elif how == "rebuilt from copies of the parts":
        system = RDSystem(network=system.network.copy(), space=system.space.copy(), state=system.state.copy(),
                          chemostats=list(system.chemostats), units_system=system.units_system.copy())
    elif how == "parts copied one by one":
        from strengths import RDNetwork
        n0 = system.network
        n1 = RDNetwork(species=[s_.copy() for s_ in n0.species], reactions=[x_.copy() for x_ in n0.reactions],
                       environments=list(n0.environments), units_system=n0.units_system.copy())
        system = RDSystem(network=n1, space=system.space.copy(), state=system.state.copy(), chemostats=list(system.chemostats),
                          units_system=system.units_system.copy())
    return system


def simple_rendering(seed_or_rng, same=None):
    r = seed_or_rng if isinstance(seed_or_rng, random.Random) else random.Random(seed_or_rng)
    return Rendering(r, same=same)


def exact_molecule_rendering(r):
    """everything in (µm, s, molecule) with bare numbers: state numbers reach the engine untouched"""
    return Rendering(r, forms=("bare",), same=si.DEFAULT_SYS)


# ---------------------------------------------------------------------------
# dictionary-form rendering (exercises "units" declarations / inheritance at every nesting level)

def _units_entry(rd, d, sys3, parent):
    """declare the level's units system in dictionary `d`, or leave it to inheritance when it equals the parent's"""
    if parent is not None and sys3 == parent:
        c = rd.r.choice(["omit", "inherit", "explicit"])
        if c == "omit":
            return
        if c == "inherit":
            d[rd.r.choice(["units", "units_system", "u"])] = "inherit"
            return
    if sys3 == si.DEFAULT_SYS and rd.r.random() < 0.3 and parent is not None:
        d["units"] = "default"
        return
    full = si.sys_dict(sys3)
    if rd.r.random() < 0.35:
        # components equal to the documented defaults (µm, s, molecule) may be left out - down to the empty dictionary
        dflt = si.sys_dict(si.DEFAULT_SYS)
        full = {k_: v_ for k_, v_ in full.items() if not (v_ == dflt[k_] and rd.r.random() < 0.8)}
    d[rd.r.choice(["units", "units_system", "units system", "u"])] = full


def _q_json(rd, si_value, dim3, enclosing):
    """a JSON-able quantity: bare number in the enclosing system or a string with explicit units"""
    form = rd.r.choice([f for f in rd.forms if f != "uv"] or ["bare"])
    if form == "bare":
        return q_bare(si_value, enclosing, dim3)
    own = rd.sys_draw(rd.r) if rd.same is None else rd.same
    return "%s %s" % (num_text(rd.r, q_bare(si_value, own, dim3)), si.unit_string(own, dim3, style=rd.r.choice([0, 1, 2, 3, 0, 1, 2, 3, 4, 5])))


def _per_env_json(rd, v, dim3, enclosing):
    if isinstance(v, dict):
        out, written = {}, {}
        for k, x in v.items():
            if x in written and x != 0 and rd.r.random() < 0.5:
                out[k] = written[x]
            else:
                out[k] = _q_json(rd, x, dim3, enclosing)
                written[x] = out[k]
        return _join_env_keys(rd.r, v, out)
    return _q_json(rd, v, dim3, enclosing)


def system_dict(desc, rd, parent_sys=None):
    """dictionary form of a description for rdsystem_from_dict (parent_sys: units system of the enclosing script)"""
    r = rd.r
    sysu = rd.level("system", parent_sys)
    d = {}
    _units_entry(rd, d, sysu, parent_sys)
    nsys = rd.level("network", sysu)
    nd = {"environments": list(desc["envs"]), "species": [], "reactions": []}
    _units_entry(rd, nd, nsys, sysu)
    for n, s in enumerate(desc["species"]):
        ssys = rd.level("species%d" % n, nsys)
        sd = {r.choice(["label", "l"]): s["label"],
              r.choice(["D", "diff_coef", "diffusion_coefficient"]): _per_env_json(rd, s["D"], D_DIM, ssys),
              r.choice(["density", "concentration", "conc", "C"]): _per_env_json(rd, s["density"], DENS_DIM, ssys),
              r.choice(["chstt", "chemostat"]): (dict(s["chstt"]) if isinstance(s["chstt"], dict) else bool(s["chstt"]))}
        _units_entry(rd, sd, ssys, nsys)
        nd["species"].append(sd)
    for n, x in enumerate(desc["reactions"]):
        rsys = rd.level("reaction%d" % n, nsys)
        no, mo = sum(x["sub"].values()), sum(x["prod"].values())
        xd = {r.choice(["stoichiometry", "eq", "equation"]): eq_string(x["sub"], x["prod"], r),
              r.choice(["k+", "kf"]): _per_env_json(rd, x["kf"], K_DIM(no), rsys),
              r.choice(["k-", "kr"]): _per_env_json(rd, x["kr"], K_DIM(mo), rsys)}
        if x.get("label"):
            xd["label"] = x["label"]
        _units_entry(rd, xd, rsys, nsys)
        nd["reactions"].append(xd)
    d[r.choice(["network", "rdnetwork"])] = nd
    sp = desc["space"]
    ssys = rd.level("space", sysu)
    if sp["type"] == "grid":
        gd = {"type": "grid", r.choice(["w", "width"]): sp["w"], r.choice(["h", "height"]): sp["h"], r.choice(["d", "depth"]): sp["d"],
              r.choice(["cell_env", "cell_environments", "env"]): list(sp["cell_env"]),
              r.choice(["cell_volume", "cell_vol"]): _q_json(rd, sp["cell_vol"], VOL_DIM, ssys),
              "boundary_conditions": bc_dict_form(sp["bc"], r)}
        _units_entry(rd, gd, ssys, sysu)
        d[r.choice(["space", "rdspace"])] = gd
    else:
        gd = {"type": "graph", "nodes": [], "edges": []}
        _units_entry(rd, gd, ssys, sysu)
        for n, nd_ in enumerate(sp["nodes"]):
            nsy = rd.level("node%d" % n, ssys)
            x = {r.choice(["volume", "vol"]): _q_json(rd, nd_["vol"], VOL_DIM, nsy), r.choice(["environment", "env"]): nd_["env"]}
            _units_entry(rd, x, nsy, ssys)
            gd["nodes"].append(x)
        for n, e in enumerate(sp["edges"]):
            esy = rd.level("edge%d" % n, ssys)
            x = {"nodes": [e["i"], e["j"]], "surface": _q_json(rd, e["sfc"], SFC_DIM, esy), "distance": _q_json(rd, e["dst"], LEN_DIM, esy)}
            _units_entry(rd, x, esy, ssys)
            gd["edges"].append(x)
        d[r.choice(["space", "rdspace"])] = gd
    if desc["state"] is not None:
        own = rd.sys_draw(r) if rd.same is None else rd.same
        if r.random() < 0.5 and not rd.molecule_state:
            d["state"] = {"value": [q_bare(x, own, Q_DIM) for x in desc["state"]], "units": own[2]}
        else:
            d["state"] = [q_bare(x, sysu, Q_DIM) for x in desc["state"]]
    if desc["chemostats"] is not None:
        d["chemostats"] = list(desc["chemostats"])

    def shuffled(x):
        if isinstance(x, dict):
            ks = list(x)
            r.shuffle(ks)
            return {k_: shuffled(x[k_]) for k_ in ks}
        if isinstance(x, list):
            return [shuffled(v) for v in x]
        return x
    d = shuffled(d)          # the meaning of a dictionary does not depend on the order of its keys
    if r.random() < 0.6:
        # ... nor on whether its strings are the interpreter's interned literals or the equal strings a JSON reader builds
        import json as _json
        try:
            d = _json.loads(_json.dumps(d))
        except (TypeError, ValueError):
            pass
    return d
