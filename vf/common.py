"""Common machinery: paths, seed/tier, verdicts, evidence, known findings.

Every check builds one `Run`, feeds it cases / monitor counts / violations and
calls `finish()`, which writes /verif/evidence/<id>.json, prints the verdict
lines required by the interface and returns the process exit code:

  0  held on what was observed (possibly with KNOWN-FINDING lines)
  1  at least one violation that known_findings.json does not list
  2  inconclusive (a deciding monitor never ran, build failed, watchdog)
"""
import hashlib
import json
import os
import sys
import time

VERIF = os.path.dirname(os.path.dirname(os.path.abspath(__file__)))
REPO = os.environ.get("VERIF_REPO", "/repo")
SRC = os.path.join(REPO, "src")
ENGINE_SRC = os.path.join(SRC, "strengths", "engines", "strengths_engine", "src")
BUILD = os.path.join(VERIF, ".build")
DEPS = os.path.join(VERIF, ".deps")
EVIDENCE = os.environ.get("VERIF_EVIDENCE_DIR") or os.path.join(VERIF, "evidence")
REPLAYS = os.path.join(os.environ["VERIF_EVIDENCE_DIR"], "replays") if os.environ.get("VERIF_EVIDENCE_DIR") else os.path.join(VERIF, "replays")
SCRATCH = os.path.join(VERIF, ".scratch")
PY = "/venv/bin/python"


def seed():
    try:
        return int(os.environ.get("VERIF_SEED", "0"))
    except ValueError:
        return 0


def tier():
    t = os.environ.get("VERIF_TIER", "quick")
    return t if t in ("quick", "thorough") else "quick"


def ncpu():
    try:
        n = len(os.sched_getaffinity(0))
    except Exception:
        n = os.cpu_count() or 1
    return max(1, min(16, n))


def use_repo():
    """Make `import strengths` resolve to the tree under test (REPO/src)."""
    if SRC in sys.path:
        sys.path.remove(SRC)
    sys.path.insert(0, SRC)
    if os.path.isdir(DEPS) and DEPS not in sys.path:
        sys.path.append(DEPS)
    import warnings
    warnings.filterwarnings("ignore", category=SyntaxWarning)


def canon(obj):
    """Canonical JSON text of a case (for hashing and replay files)."""
    return json.dumps(obj, sort_keys=True, default=_json_default, ensure_ascii=False)


def _json_default(o):
    from fractions import Fraction
    try:
        import numpy as np
        if isinstance(o, np.ndarray):
            return o.tolist()
        if isinstance(o, (np.integer,)):
            return int(o)
        if isinstance(o, (np.floating,)):
            return float(o)
        if isinstance(o, np.bool_):
            return bool(o)
    except Exception:
        pass
    if isinstance(o, Fraction):
        return "%d/%d" % (o.numerator, o.denominator)
    if isinstance(o, (set, frozenset)):
        return sorted(o, key=repr)
    if isinstance(o, bytes):
        return o.hex()
    if isinstance(o, tuple):
        return list(o)
    return repr(o)


def chash(obj):
    return hashlib.sha1(canon(obj).encode("utf-8", "replace")).hexdigest()[:16]


def load_known():
    p = os.path.join(VERIF, "known_findings.json")
    if not os.path.exists(p):
        return {"findings": [], "fixed": []}
    with open(p, encoding="utf-8") as f:
        return json.load(f)


class Run:
    def __init__(self, pid, rule, level="exploration", assumptions=None):
        self.pid = pid
        self.rule = rule
        self.level = level
        self.assumptions = list(assumptions or [])
        self.t0 = time.time()
        self.evaluations = 0
        self.distinct = set()
        self.nontrivial = set()
        self.samples = []
        self.monitors = {}
        self.extra = {}
        self.violations = []      # fresh
        self.known_hits = {}      # finding id -> [count, example]
        self.inconclusive = []
        self.required_monitors = []
        self.exhaustive = None
        self.max_samples = 6
        self._known = [f for f in load_known().get("findings", []) if f.get("property") == pid]

    # ---- cases -------------------------------------------------------
    def case(self, key, nontrivial=True, sample=None):
        """Register one executed case.  `key` identifies it (hashable/JSON)."""
        self.evaluations += 1
        h = key if isinstance(key, str) and len(key) <= 40 else chash(key)
        new = h not in self.distinct
        self.distinct.add(h)
        if nontrivial:
            self.nontrivial.add(h)
        if new and sample is not None and len(self.samples) < self.max_samples:
            self.samples.append(sample)
        return new

    def count(self, name, n=1):
        self.monitors[name] = self.monitors.get(name, 0) + n

    def require(self, *names):
        """Monitors that must have fired at least once, else inconclusive."""
        self.required_monitors.extend(names)

    def note(self, key, value):
        self.extra[key] = value

    # ---- verdicts ----------------------------------------------------
    def violation(self, kind, witness, mech=None):
        """Record a violation. `mech` is a small dict of mechanism features
        that known-finding classifiers look at (never random values)."""
        mech = dict(mech or {})
        mech.setdefault("kind", kind)
        from vf import known
        for f in self._known:
            pred = getattr(known, f["classifier"], None)
            if pred is not None and pred(mech, witness):
                slot = self.known_hits.setdefault(f["id"], [0, None, f])
                slot[0] += 1
                if slot[1] is None:
                    slot[1] = {"kind": kind, "witness": witness}
                return False
        self._per_kind = getattr(self, "_per_kind", {})
        self._per_kind[kind] = self._per_kind.get(kind, 0) + 1
        if self._per_kind[kind] <= 25:
            self.violations.append({"kind": kind, "witness": witness, "mech": mech})
        else:
            self.count("violations_not_listed_beyond_25_per_kind")
        return True

    def inconclusive_because(self, why):
        self.inconclusive.append(why)

    # ---- finish ------------------------------------------------------
    def finish(self):
        os.makedirs(EVIDENCE, exist_ok=True)
        for m in self.required_monitors:
            if self.monitors.get(m, 0) == 0:
                self.inconclusive.append("deciding monitor '%s' was never evaluated" % m)
        cov = {
            "evaluations": int(self.evaluations),
            "distinct_nontrivial": int(len(self.nontrivial)),
            "distinct_cases": int(len(self.distinct)),
            "rule": self.rule,
            "samples": self.samples if self.samples else ["(no case executed)"],
            "monitors": self.monitors,
        }
        if self.exhaustive is not None:
            cov["exhaustive"] = bool(self.exhaustive)
        cov.update(self.extra)
        if self.known_hits:
            cov["known_findings_observed"] = {k: v[0] for k, v in self.known_hits.items()}
        if self.inconclusive:
            cov["inconclusive"] = self.inconclusive
        ev = {
            "property_id": self.pid,
            "tier": tier(),
            "seed": seed(),
            "level": self.level,
            "coverage": cov,
            "assumptions": self.assumptions,
            "wall_s": round(time.time() - self.t0, 3),
            "violations": len(self.violations) + self.monitors.get("violations_not_listed_beyond_25_per_kind", 0),
        }
        with open(os.path.join(EVIDENCE, self.pid + ".json"), "w", encoding="utf-8") as f:
            json.dump(ev, f, indent=1, default=_json_default, ensure_ascii=False)
            f.write("\n")
        for fid, (n, ex, f) in sorted(self.known_hits.items()):
            print("KNOWN-FINDING: property=%s %s (%s; observed %d times this run)" % (self.pid, fid, f.get("what", ""), n))
        code = 0
        import glob
        for old_ in glob.glob(os.path.join(REPLAYS, "%s-%s-*.json" % (self.pid, tier()))):
            try:
                os.remove(old_)
            except OSError:
                pass
        if self.violations:
            os.makedirs(REPLAYS, exist_ok=True)
            seen = []
            for i, v in enumerate(self.violations):
                k = v["kind"]
                path = os.path.join(REPLAYS, "%s-%s-%d.json" % (self.pid, tier(), i))
                with open(path, "w", encoding="utf-8") as f:
                    json.dump({"property": self.pid, "seed": seed(), "tier": tier(), **v}, f, indent=1, default=_json_default, ensure_ascii=False)
                nseen = sum(1 for x in seen if x == k)
                seen.append(k)
                if nseen >= 3:
                    continue
                print("VIOLATION property=%s replay=%s kind=%s" % (self.pid, path, k))
                if nseen < 1:
                    txt = canon(v["witness"])
                    print("    witness: " + (txt[:600] + ("..." if len(txt) > 600 else "")))
            code = 1
        elif self.inconclusive:
            for w in self.inconclusive:
                print("INCONCLUSIVE property=%s %s" % (self.pid, w))
            code = 2
        print("%s %s tier=%s seed=%d evaluations=%d distinct_nontrivial=%d monitors=%s wall=%.1fs" % (
            self.pid, {0: "HELD", 1: "VIOLATED", 2: "INCONCLUSIVE"}[code], tier(), seed(),
            self.evaluations, len(self.nontrivial), json.dumps(self.monitors, sort_keys=True), time.time() - self.t0))
        sys.stdout.flush()
        return code
