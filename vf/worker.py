"""Child-side of vf.sandbox.pmap: runs cases sequentially, journalling each."""
import importlib
import json
import os
import sys
import traceback


def main():
    with open(sys.argv[1]) as f:
        spec = json.load(f)
    from vf.common import use_repo, _json_default
    use_repo()
    modname, fname = spec["func"].split(":")
    func = getattr(importlib.import_module(modname), fname)
    out = open(spec["out"], "a")
    jr = open(spec["journal"], "a")
    for idx, case in spec["items"]:
        t = os.times()
        jr.write("S %d %.3f\n" % (idx, t[0] + t[1]))
        jr.flush()
        try:
            val = func(case)
            rec = {"i": idx, "status": "ok", "value": val}
        except BaseException as e:  # noqa
            if isinstance(e, (KeyboardInterrupt, SystemExit)):
                raise
            rec = {"i": idx, "status": "exception", "error": "%s: %s" % (type(e).__name__, e),
                   "tb": traceback.format_exc()[-3000:]}
        out.write(json.dumps(rec, default=_json_default) + "\n")
        out.flush()
        jr.write("E %d\n" % idx)
        jr.flush()
    out.close()
    jr.close()
    sys.stdout.flush()
    sys.stderr.flush()
    os._exit(0)


if __name__ == "__main__":
    main()
