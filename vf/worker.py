"""Child-side of vf.sandbox.pmap: runs cases sequentially, journalling each."""
import importlib
import json
import os
import sys
import traceback


def perturb_globals(idx):
    """Every case runs under another state of the interpreter-wide settings a user is free to change: Python's and numpy's
    global random generators, numpy's print options (also the legacy modes), the decimal context.  The package's results and the text it writes must not depend on them
    (and a replay of a case must not either: the perturbation is a function of the case index only)."""
    if os.environ.get("VERIF_PERTURB_GLOBALS", "1") != "1":
        return
    import random
    import numpy as np
    k = (idx * 2654435761) % 2 ** 32
    random.seed(k)
    np.random.seed(k % (2 ** 32 - 1))
    np.set_printoptions(precision=[8, 2, 17, 4][k % 4], threshold=[1000, 3, 10 ** 6][k % 3], suppress=bool(k & 8),
                        linewidth=[75, 20, 400][(k >> 4) % 3], floatmode=["maxprec", "fixed", "unique"][(k >> 6) % 3],
                        legacy=[False, False, "1.13", "1.25"][(k >> 8) % 4])
    import decimal
    decimal.getcontext().prec = [28, 6, 50, 3][(k >> 10) % 4]
    decimal.getcontext().rounding = [decimal.ROUND_HALF_EVEN, decimal.ROUND_DOWN, decimal.ROUND_CEILING][(k >> 12) % 3]


def main():
    with open(sys.argv[1]) as f:
        spec = json.load(f)
    from vf.common import use_repo, _json_default
    use_repo()
    modname, fname = spec["func"].split(":")
    func = getattr(importlib.import_module(modname), fname)
    out = open(spec["out"], "a")
    jr = open(spec["journal"], "a")
    for idx, case in spec["items"]:
        perturb_globals(idx)
        t = os.times()
        jr.write("S %d %.3f\n" % (idx, t[0] + t[1]))
        jr.flush()
        try:
            val = func(case)
            rec = {"i": idx, "status": "ok", "value": val}
        except BaseException as e:  # noqa
            if isinstance(e, (KeyboardInterrupt, SystemExit)):
                raise
            rec = {"i": idx, "status": "exception", "error": "%s: %s" % (type(e).__name__, e),
                   "tb": traceback.format_exc()[-3000:]}
        out.write(json.dumps(rec, default=_json_default) + "\n")
        out.flush()
        jr.write("E %d\n" % idx)
        jr.flush()
    out.close()
    jr.close()
    sys.stdout.flush()
    sys.stderr.flush()
    os._exit(0)


if __name__ == "__main__":
    main()
