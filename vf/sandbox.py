"""Sandboxed, parallel execution of cases in child processes.

pmap("vf.checks.c10:run_case", cases) runs `run_case(case)` for every case in
child interpreters (own session / process group, stdio to files), up to
ncpu() at a time.  A child that crashes or hangs loses only the case it was
running (known from its journal); the rest of its share is restarted.

Verdicts about non-termination are taken on CPU time consumed by the case
(read from /proc), never on wall-clock time; a case killed by the generous
wall-clock watchdog without having used its CPU budget is reported as
"stalled" (inconclusive), not as a hang.
"""
import json
import os
import shutil
import signal
import subprocess
import sys
import tempfile
import time

from vf.common import PY, SCRATCH, VERIF, ncpu

_TICK = os.sysconf("SC_CLK_TCK")


def _cpu_of(pid):
    try:
        with open("/proc/%d/stat" % pid) as f:
            s = f.read()
        rest = s[s.rindex(")") + 2:].split()
        return (int(rest[11]) + int(rest[12])) / _TICK
    except Exception:
        return None


class _Worker:
    def __init__(self, func, items, wdir, env, wid, prefix=None):
        self.prefix = [x.replace("{wdir}", wdir) for x in (prefix or [])]
        self.func = func
        self.items = list(items)          # [(idx, case)]
        self.wdir = wdir
        self.env = env
        self.wid = wid
        self.gen = 0
        self.proc = None
        self.done = {}
        self.cur = None                   # idx currently running
        self.cur_cpu0 = 0.0
        self.cur_wall0 = 0.0
        self.jpos = 0
        self.opos = 0
        self.start()

    def start(self):
        self.gen += 1
        base = os.path.join(self.wdir, "w%d_%d" % (self.wid, self.gen))
        self.spec = base + ".spec.json"
        self.out = base + ".out.jsonl"
        self.journal = base + ".journal"
        self.stdout = base + ".stdout"
        self.stderr = base + ".stderr"
        with open(self.spec, "w") as f:
            json.dump({"func": self.func, "items": self.items, "out": self.out, "journal": self.journal}, f)
        open(self.out, "w").close()
        open(self.journal, "w").close()
        self.jpos = 0
        self.opos = 0
        self.all_done_since = None
        self.cur = None
        so = open(self.stdout, "w")
        se = open(self.stderr, "w")
        self.proc = subprocess.Popen(self.prefix + [PY, "-m", "vf.worker", self.spec], cwd=VERIF, env=self.env,
                                     stdout=so, stderr=se, stdin=subprocess.DEVNULL, start_new_session=True)
        so.close()
        se.close()

    def kill(self):
        if self.proc is None:
            return
        try:
            os.killpg(self.proc.pid, signal.SIGKILL)
        except Exception:
            pass
        try:
            self.proc.wait(timeout=10)
        except Exception:
            pass

    def poll_files(self):
        # results
        try:
            with open(self.out) as f:
                f.seek(self.opos)
                data = f.read()
        except FileNotFoundError:
            data = ""
        if data:
            end = data.rfind("\n")
            if end >= 0:
                for line in data[:end].split("\n"):
                    if line:
                        r = json.loads(line)
                        self.done[r["i"]] = r
                self.opos += len(data[:end + 1].encode("utf-8"))
        # journal
        try:
            with open(self.journal) as f:
                f.seek(self.jpos)
                data = f.read()
        except FileNotFoundError:
            data = ""
        if data:
            end = data.rfind("\n")
            if end >= 0:
                lines = [l for l in data[:end].split("\n") if l]
                self.jpos += len(data[:end + 1].encode("utf-8"))
                if lines:
                    last = lines[-1].split()
                    idx = int(last[1])
                    if last[0] == "S":
                        self.cur = idx
                        self.cur_cpu0 = float(last[2])
                        self.cur_wall0 = time.time()
                    else:
                        self.cur = None

    def tail_stderr(self, n=1500):
        try:
            with open(self.stderr, "rb") as f:
                f.seek(0, 2)
                sz = f.tell()
                f.seek(max(0, sz - n))
                return f.read().decode("utf-8", "replace")
        except Exception:
            return ""


def pmap(func, cases, jobs=None, cpu_budget=30.0, wall_budget=None, env=None, keep_dir=False,
         progress=None, fresh=False, share_size=None, prefix=None):
    """Run func(case) for each case; returns list of result dicts, one per case:
       {"status": "ok", "value": ...}
       {"status": "exception", "error": ..., "tb": ...}
       {"status": "crash", "signal": n, "stderr": ...}
       {"status": "hang", "cpu": s}          # CPU budget exhausted inside one case
       {"status": "stalled"}                 # wall watchdog, CPU not exhausted: inconclusive
    Also returns the scratch directory when keep_dir (for sanitizer logs)."""
    cases = list(cases)
    n = len(cases)
    if wall_budget is None:
        wall_budget = max(120.0, 20.0 * cpu_budget)
    jobs = max(1, min(jobs or ncpu(), n or 1))
    os.makedirs(SCRATCH, exist_ok=True)
    wdir = tempfile.mkdtemp(prefix="pmap-", dir=SCRATCH)
    e = dict(os.environ)
    e["PYTHONPATH"] = VERIF + (":" + e["PYTHONPATH"] if e.get("PYTHONPATH") else "")
    e.setdefault("PYTHONHASHSEED", "0")
    e["PYTHONWARNINGS"] = "ignore"
    e["OMP_NUM_THREADS"] = "1"
    e["OPENBLAS_NUM_THREADS"] = "1"
    if env:
        for k, v in env.items():
            e[k] = v.replace("{wdir}", wdir) if isinstance(v, str) else v
    results = [None] * n
    if fresh:                      # one new interpreter per case
        shares = [[(i, c)] for i, c in enumerate(cases)]
    elif share_size:               # many small shares: processes see different histories, load balances
        shares = [[(i, cases[i]) for i in range(k, min(n, k + share_size))] for k in range(0, n, share_size)]
    else:
        shares = [[] for _ in range(jobs)]
        for i, c in enumerate(cases):
            shares[i % jobs].append((i, c))
    pending = [(w, sh) for w, sh in enumerate(shares) if sh]
    pending.reverse()
    workers = []
    active = []
    try:
        while active or pending:
            while pending and len(active) < jobs:
                w_, sh_ = pending.pop()
                wk = _Worker(func, sh_, wdir, e, w_, prefix)
                workers.append(wk)
                active.append(wk)
            time.sleep(0.02)
            for w in list(active):
                w.poll_files()
                rc = w.proc.poll()
                if rc is not None:
                    w.poll_files()
                    for i, r in w.done.items():
                        results[i] = r
                    remaining = [(i, c) for (i, c) in w.items if i not in w.done]
                    if not remaining:
                        active.remove(w)
                        continue
                    # died with work left: blame the case in flight (or the first remaining one)
                    bad = w.cur if (w.cur is not None and w.cur not in w.done) else remaining[0][0]
                    results[bad] = {"i": bad, "status": "crash", "signal": -rc if rc < 0 else None, "exit": rc,
                                    "stderr": w.tail_stderr()}
                    w.kill()
                    w.items = [(i, c) for (i, c) in remaining if i != bad]
                    w.done = {}
                    if w.items:
                        w.start()
                    else:
                        active.remove(w)
                    continue
                if all(i in w.done for (i, c) in w.items):
                    # every case of this worker has reported, but the process is still there (met: a heap corrupted by native
                    # code made the interpreter spin in its own epilogue): its results stand, the process is not waited for
                    t_done = w.all_done_since
                    if t_done is None:
                        w.all_done_since = time.time()
                    elif time.time() - t_done > 5.0:
                        w.kill()
                        for i, r in w.done.items():
                            results[i] = r
                        active.remove(w)
                    continue
                if w.cur is not None and w.cur not in w.done:
                    cpu = _cpu_of(w.proc.pid)
                    now = time.time()
                    verdict = None
                    if cpu is not None and cpu - w.cur_cpu0 > cpu_budget:
                        verdict = {"status": "hang", "cpu": round(cpu - w.cur_cpu0, 2)}
                    elif now - w.cur_wall0 > wall_budget:
                        verdict = {"status": "stalled", "wall": round(now - w.cur_wall0, 1),
                                   "cpu": None if cpu is None else round(cpu - w.cur_cpu0, 2)}
                    if verdict:
                        bad = w.cur
                        w.kill()
                        w.poll_files()
                        for i, r in w.done.items():
                            results[i] = r
                        if bad not in w.done:
                            verdict["i"] = bad
                            results[bad] = verdict
                        w.items = [(i, c) for (i, c) in w.items if i not in w.done and i != bad]
                        w.done = {}
                        if w.items:
                            w.start()
                        else:
                            active.remove(w)
            if progress:
                progress(sum(1 for r in results if r is not None) + sum(len(w.done) for w in active), n)
        for w in workers:
            for i, r in w.done.items():
                if results[i] is None:
                    results[i] = r
    finally:
        for w in workers:
            w.kill()
        if not keep_dir:
            shutil.rmtree(wdir, ignore_errors=True)
    for i in range(n):
        if results[i] is None:
            results[i] = {"i": i, "status": "stalled", "detail": "no result recorded"}
    return (results, wdir) if keep_dir else results


def run_one(func, case, **kw):
    return pmap(func, [case], jobs=1, **kw)[0]


def run_extra(run, func, cases, cpu_budget=60, kind_prefix="", **kw):
    """Run an additional workload whose case function returns
       {"bad": [witness dicts with "what"], "counts": {...}, "key": ..., "nontrivial": bool, "sample": ...}
    and merge it into `run` (standard handling of crashes / hangs / harness exceptions)."""
    res = pmap(func, cases, cpu_budget=cpu_budget, **kw)
    for c, r_ in zip(cases, res):
        if r_["status"] != "ok":
            if r_["status"] in ("crash", "hang"):
                run.violation(kind_prefix + "engine " + r_["status"], {"workload": func, "case": c, "result": {k: r_[k] for k in r_ if k != "i"}},
                              mech={"what": r_["status"], "workload": func})
            elif r_["status"] == "exception":
                run.violation(kind_prefix + "harness exception", {"workload": func, "case": c, "error": r_.get("error"), "tb": r_.get("tb")},
                              mech={"what": "exception", "workload": func})
            else:
                run.inconclusive_because("%s case %s: %s" % (func, c, r_["status"]))
            continue
        v = r_["value"]
        if v.get("key") is not None:
            run.case(v["key"], nontrivial=v.get("nontrivial", True), sample=v.get("sample"))
        for k, n_ in v.get("counts", {}).items():
            run.count(k, n_)
        for b in v.get("bad", []):
            b.setdefault("case", c)
            run.violation((kind_prefix + b["what"])[:90], b, mech={"what": b["what"]})
    return res
