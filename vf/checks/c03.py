"""C03 - Chemostated entries never change; everything else ignores the flag.

Monitors (all on the real code):
  * bitwise constancy of flagged entries over recorded trajectories of the three engines;
  * unflagged entries: every Euler step equals x + dt * (reference rate law masked by the flags,
    flagged entries acting as sources); every Gillespie step is the chemostat-masked effect of one
    possible channel (vf.stoch.StepClassifier);
  * kinetics.compute_dstatedt(apply_chemostats=True) and make_dxdtf: exactly 0 at flagged entries,
    the un-chemostated law elsewhere;
  * RDSystem.apply_reaction: flagged entries untouched, unflagged moved by n * nu.
"""
import math
import sys

import numpy as np

from vf import gen, ref, si, engines, simhelp, stoch
from vf.common import Run, seed, tier, use_repo, chash
from vf.sandbox import pmap

TOL = 1e-12


def gen_case(sd, idx, small):
    r = gen.rng_for(sd, "C03", idx)
    kind = r.choice(["grid", "graph"])
    one_cell = r.random() < 0.12
    opts = {"space": kind, "explicit_chstt": 0.7, "integer_state": True, "state_counts": (0, 40), "p_zero": 0.15,
            "net": {"chstt": 0.5, "nreactions": (0, 3), "nspecies": (1, 4), "max_order": 3, "counts": (0, 40)},
            "grid": {"dims": (1, 1) if one_cell else (1, 3), "max_cells": 6 if small else 18},
            "graph": {"nodes": (1, 1) if one_cell else (2, 4 if small else 7), "simple": True}}
    desc = gen.rand_system(r, opts)
    if desc["chemostats"] is not None and not any(desc["chemostats"]):
        k = r.randrange(len(desc["chemostats"]))
        desc["chemostats"][k] = 1
    return desc


def asymmetric(desc):
    """some cell where species s>=1 is flagged differently from species 0, or some species flagged
    differently in cell i>=1 than in cell 0"""
    ch = gen.chemostats_of(desc)
    S, n = len(desc["species"]), gen.ncells(desc["space"])
    if S < 2 and n < 2:
        return False
    for i in range(n):
        for s in range(1, S):
            if ch[s * n + i] != ch[i]:
                return True
    for s in range(S):
        for i in range(1, n):
            if ch[s * n + i] != ch[s * n]:
                return True
    return False


def run_case(case):
    use_repo()
    engines.install()
    import strengths as st
    from strengths import kinetics
    sd, idx, with_python = case["seed"], case["idx"], case["python"]
    desc = gen_case(sd, idx, with_python)
    r = gen.rng_for(sd, "C03r", idx)
    rd = gen.Rendering(r, molecule_state=True)
    ctx = {"case": {"seed": sd, "idx": idx, "python": with_python}}
    bad = []
    counts = {}
    accs = {}

    def cnt(k, n_=1):
        counts[k] = counts.get(k, 0) + n_
    try:
        system = gen.render_system(desc, rd)
    except Exception as e:
        return {"key": chash(desc), "nontrivial": False, "counts": {}, "sample": None,
                "bad": [{"what": "valid system rejected", "error": "%s: %s" % (type(e).__name__, e), **ctx}]}
    S, n = len(desc["species"]), gen.ncells(desc["space"])
    state = gen.state_of(desc)
    chst = gen.chemostats_of(desc)
    flagged = [k for k, f in enumerate(chst) if f]
    f_free, mag = ref.rate_law(desc, state, None)
    maxrate = ref.max_rate(desc, state)
    dt = 0.02 / maxrate
    osys = (gen.mild_sys(r)[0], gen.mild_sys(r)[1], "molecule")

    # ---------------- engines ----------------
    for kind_, nsteps in (("euler", 12), ("tauleap", 150), ("gillespie", 250)):
        try:
            dt_k = dt * (r.choice([5.0, 15.0]) if kind_ == "tauleap" else 1.0)    # larger leaps: more events per step, more power
            script = simhelp.make_script(system, r, dt_si=dt_k, t_sample_si=[0.0], policy="on_iteration",
                                         t_max_si=1e9 * dt, usys=osys, isp="none", seed=r.randrange(2 ** 31))
            t, d, complete, out = simhelp.run_script(kind_, script, nsteps)
        except Exception as e:
            bad.append({"what": kind_ + ": exception on a valid system", "error": "%s: %s" % (type(e).__name__, e), **ctx})
            continue
        X = d.reshape(len(t), S * n)
        if X.shape[0] < 1 or X[0].tobytes() != np.array(state, dtype=float).tobytes():
            bad.append({"what": kind_ + ": sample 0 is not the given state (init_state_processing='none')",
                        "got": X[0].tolist()[:8] if X.shape[0] else None, "expected": state[:8], **ctx})
            continue
        # flagged entries: bitwise constant
        for k in flagged:
            col = X[:, k]
            cnt("flagged_entry_samples", len(col))
            if any(v.tobytes() != col[0].tobytes() for v in col):
                j = next(j for j, v in enumerate(col) if v.tobytes() != col[0].tobytes())
                bad.append({"what": kind_ + ": chemostated entry changed", "entry": k, "species": k // n, "cell": k % n,
                            "sample": j, "initial": float(col[0]), "value": float(col[j]), **ctx})
                break
        if kind_ == "euler":
            for j in range(len(t) - 1):
                x = X[j].tolist()
                if not all(math.isfinite(v) for v in x):
                    break
                f, mg = ref.rate_law(desc, x, chst)
                h = float(t[j + 1] - t[j])
                for k in range(S * n):
                    want = x[k] + h * f[k]
                    tol = TOL * (abs(x[k]) * 4 + h * mg[k]) + 1e-300
                    cnt("euler_unflagged_step_entries")
                    if abs(X[j + 1][k] - want) > tol:
                        bad.append({"what": "euler: entry does not follow the (chemostat-masked) rate law",
                                    "entry": k, "species": k // n, "cell": k % n, "flag": chst[k], "step": j,
                                    "got": float(X[j + 1][k]), "expected": want, **ctx})
                        break
                else:
                    continue
                break
        elif kind_ == "gillespie":
            sc = stoch.StepClassifier(desc, chst)
            for j in range(len(t) - 1):
                x0, x1 = X[j].tolist(), X[j + 1].tolist()
                cands, diff = sc.classify(x0, x1)
                cnt("gillespie_steps_classified")
                if not cands:
                    bad.append({"what": "gillespie: step is not the chemostat-masked effect of one possible event",
                                "step": j, "diff": sorted(diff), "flags_of_changed": [chst[i] for i, _ in sorted(diff)],
                                **ctx})
                    break
        else:
            cnt("tauleap_steps", len(t) - 1)
            if not np.all(X == np.round(X)):
                bad.append({"what": "tauleap: non-integer count", **ctx})
            # unflagged entries must follow the master-equation rates with flagged entries acting as reactants,
            # diffusion sources and sinks: increments of every species total and of one unflagged entry next to a
            # flagged one are fed into pooled Ville monitors (vf.stoch)
            funcs = [("total-species-%d" % s_, {s_ * n + i: 1 for i in range(n)}) for s_ in range(min(S, 3))]
            unfl_next_to_fl = [k for k in range(S * n) if not chst[k] and any(chst[(k // n) * n + j] for j in range(n))]
            if unfl_next_to_fl:
                funcs.append(("unflagged-entry-of-a-species-with-a-flagged-cell", {unfl_next_to_fl[0]: 1}))
            used, skipped = stoch.tauleap_accumulate(desc, chst, X.tolist(), float(t[1] - t[0]) if len(t) > 1 else dt_k, accs, funcs,
                                                     prefix="tauleap-with-chemostats:")
            cnt("tauleap_rate_steps", used)

    # ---------------- python entry points ----------------
    if with_python:
        usys = gen.mild_sys(r)
        try:
            dd = kinetics.compute_dstatedt(system, state=None, apply_chemostats=True,
                                           units_system=st.UnitsSystem(**si.sys_dict(usys)))
            dim = si.dim_of(dd.units.dim)
            sc_ = float(si.scale(si.sys_of(dd.units.sys), dim))
            for k in range(S * n):
                g = float(dd.value[k]) * sc_
                cnt("dstatedt_entries")
                if chst[k]:
                    if g != 0.0:
                        bad.append({"what": "compute_dstatedt(apply_chemostats=True): non-zero derivative at a chemostated entry",
                                    "entry": k, "species": k // n, "cell": k % n, "got": g,
                                    "flag_of_species0_in_cell": chst[k % n], **ctx})
                        break
                else:
                    if abs(g - f_free[k]) > TOL * (mag[k] + abs(f_free[k])) + 1e-300:
                        bad.append({"what": "compute_dstatedt(apply_chemostats=True): unflagged entry differs from the rate law",
                                    "entry": k, "species": k // n, "cell": k % n, "got": g, "expected": f_free[k],
                                    "flag_of_species0_in_cell": chst[k % n], **ctx})
                        break
        except Exception as e:
            bad.append({"what": "kinetics: exception on a valid system", "error": "%s: %s" % (type(e).__name__, e), **ctx})
    if n == 1:
        usys = gen.mild_sys(r)
        try:
            fdx = system.make_dxdtf(st.UnitsSystem(**si.sys_dict(usys)))
            qs, ts = float(si.QUANTITY[usys[2]]), float(si.TIME[usys[1]])
            got = [float(g) * qs / ts for g in fdx(0.0, [v / qs for v in state])]
            for k in range(S):
                cnt("dxdtf_entries")
                want = 0.0 if chst[k] else f_free[k]
                if (chst[k] and got[k] != 0.0) or abs(got[k] - want) > TOL * (mag[k] + abs(want)) + 1e-300:
                    bad.append({"what": "make_dxdtf: chemostat handling", "entry": k, "flag": chst[k], "got": got[k],
                                "expected": want, **ctx})
                    break
        except Exception as e:
            bad.append({"what": "make_dxdtf: exception on a valid system", "error": "%s: %s" % (type(e).__name__, e), **ctx})
    # ---------------- apply_reaction ----------------
    labels = [s["label"] for s in desc["species"]]
    for ridx, rx in enumerate(desc["reactions"]):
        pos = r.randrange(n)
        nfire = r.choice([1, 1, 2, 5, -1])
        ref_arg = rx["label"] if (rx.get("label") and r.random() < 0.5) else ridx
        try:
            import strengths as st
            before = np.array(system.state.value, dtype=float).copy()
            kw, flags, variant = {}, list(chst), []
            sys_q = si.sys_of(system.state.units.sys)[2]
            base_molecules = before * float(si.QUANTITY[sys_q])
            if r.random() < 0.5:
                # documented option: a custom chemostat map REPLACES the one of the system for this call
                mode = r.choice(["zeros", "ones", "random", "random", "complement"])
                flags = ([0] * (S * n) if mode == "zeros" else [1] * (S * n) if mode == "ones" else
                         [1 - int(bool(c_)) for c_ in chst] if mode == "complement" else [int(r.random() < 0.4) for _ in range(S * n)])
                form = r.choice(["list", "tuple", "int array", "bool array"])
                kw["chemostats"] = (list(flags) if form == "list" else tuple(flags) if form == "tuple" else
                                    np.array(flags, dtype=int) if form == "int array" else np.array(flags, dtype=bool))
                variant.append("custom chemostats (%s, %s)" % (mode, form))
                cnt("apply_reaction_custom_chemostats")
            if r.random() < 0.4:
                # documented option: a custom state (UnitArray in units of its own, or a bare array in the system state's units)
                custom = [float(r.randint(0, 50)) for _ in range(S * n)]
                base_molecules = np.array(custom)
                if r.random() < 0.5:
                    qu = r.choice(["molecule", "mol", "nmol", "µmol"])
                    kw["state"] = st.UnitArray([c_ / float(si.QUANTITY[qu]) for c_ in custom], qu)
                else:
                    kw["state"] = [c_ / float(si.QUANTITY[sys_q]) for c_ in custom]
                variant.append("custom state")
                cnt("apply_reaction_custom_state")
            upd = r.random() < 0.3
            if upd:
                kw["update"] = True
                variant.append("update=True")
            if r.random() < 0.3:
                # a refused call first (unknown reaction / position outside the space / map of the wrong length), with a map of
                # its own: it must raise and leave the system's map and state as they were
                other = np.array([1 - int(bool(c_)) for c_ in chst], dtype=int)
                badkw = r.choice([dict(reaction="no such reaction", position=pos, chemostats=other),
                                  dict(reaction=ref_arg, position=n + 3, chemostats=other),
                                  dict(reaction=ref_arg, position=pos, chemostats=list(other) + [1])])
                ch_before = np.array(system.chemostats).tobytes()
                refused = False
                try:
                    system.apply_reaction(badkw.pop("reaction"), n=1, **badkw)
                except Exception:
                    refused = True
                cnt("apply_reaction_refused_calls")
                if np.array(system.chemostats).tobytes() != ch_before or np.array(system.state.value, dtype=float).tobytes() != before.tobytes():
                    bad.append({"what": "apply_reaction: a refused call changed the system's chemostat map or state", "refused": refused,
                                "call": {k_: (v_ if isinstance(v_, (int, str)) else "...") for k_, v_ in badkw.items()}, **ctx})
                    break
                variant.append("after a refused call")
            new = system.apply_reaction(ref_arg, position=pos, n=nfire, **kw)
            qscale = float(si.QUANTITY[si.sys_of(new.units.sys)[2]])
            after_molecules = np.array(new.value, dtype=float) * qscale
            now = np.array(system.state.value, dtype=float)
            if not upd and now.tobytes() != before.tobytes():
                bad.append({"what": "apply_reaction(update=False) modified the system state", "variant": variant, **ctx})
            if upd:
                now_m = now * float(si.QUANTITY[si.sys_of(system.state.units.sys)[2]])
                if not np.allclose(now_m, after_molecules, rtol=1e-9, atol=1e-9):
                    bad.append({"what": "apply_reaction(update=True): the system state is not the returned state", "variant": variant, **ctx})
                system.state = st.UnitArray(before, system.state.units)
            for k in range(S * n):
                s_, i_ = k // n, k % n
                cnt("apply_reaction_entries")
                nu = rx["prod"].get(labels[s_], 0) - rx["sub"].get(labels[s_], 0)
                want_change = nfire * nu if (i_ == pos and not flags[k]) else 0
                got_change = after_molecules[k] - base_molecules[k]
                okk = abs(got_change - want_change) <= 1e-9 * (abs(base_molecules[k]) + abs(want_change))
                if want_change == 0 and not kw:
                    okk = np.array(new.value, dtype=float)[k].tobytes() == before[k].tobytes()
                if not okk:
                    bad.append({"what": "apply_reaction: flagged entries (of the map in force for the call) must be skipped, unflagged moved by n*nu",
                                "entry": k, "species": s_, "cell": i_, "flag_in_force": flags[k], "system_flag": chst[k], "position": pos,
                                "n": nfire, "nu": nu, "got_change": float(got_change), "expected_change": want_change,
                                "variant": variant, **ctx})
                    break
        except Exception as e:
            bad.append({"what": "apply_reaction: exception on valid arguments", "error": "%s: %s" % (type(e).__name__, e), **ctx})
    return {"key": chash(desc), "nontrivial": bool(flagged) and asymmetric(desc), "counts": counts, "bad": bad[:6], "accs": accs,
            "sample": {"seed": sd, "idx": idx, "space": desc["space"]["type"], "ncells": n, "nspecies": S,
                       "chemostats": chst[:24], "reactions": [gen.eq_string(x["sub"], x["prod"]) for x in desc["reactions"]]}}


def run_reservoir(case):
    """A chemostated entry holding a macroscopic amount (1e9..1e14 molecules) as a diffusion source: one tau-leap step,
    every entry's change judged against the master equation's mean and variance (independent Poisson channels,
    Bernstein bound: |change - mean| <= 9 sqrt(var) + 30 fails with probability < 1e-17 per entry).  Event counts per
    channel and step range from 1e3 to 1e11, i.e. below and beyond 2^31."""
    use_repo()
    engines.install()
    sd, idx = case["seed"], case["idx"]
    r = gen.rng_for(sd, "C03res", idx)
    h = 10 ** r.uniform(-7, -5)
    S = r.randint(1, 2)
    envs = gen.ENVS[:r.randint(1, 2)]
    labels = r.sample(gen.LABELS, S)
    species = [{"label": l, "D": gen.per_env(r, envs, lambda: 10 ** r.uniform(-1.0, 0.7) * h * h), "density": 0.0, "chstt": False}
               for l in labels]
    for sp_ in species:       # diffusion everywhere (a per-environment 0 would cut the reservoir off)
        if isinstance(sp_["D"], dict):
            sp_["D"] = {k_: (v if v > 0 else h * h) for k_, v in sp_["D"].items()}
            sp_["D"].setdefault("default", h * h)
    if r.random() < 0.5:
        space = gen.rand_grid(r, len(envs), h, dims=(1, 3), max_cells=6)
    else:
        space = gen.rand_graph(r, len(envs), h, nodes=(2, 5), simple=True, p_edge=0.7)
    n = gen.ncells(space)
    desc = {"envs": envs, "species": species, "reactions": [], "space": space, "h": h}
    state = [float(r.choice([0, 0, r.randint(0, 1000)])) for _ in range(S * n)]
    chst = [0] * (S * n)
    k0 = r.randrange(S * n)
    X0 = float(int(10 ** r.uniform(9, 14)))
    state[k0], chst[k0] = X0, 1
    if r.random() < 0.3:
        k1 = r.randrange(S * n)
        chst[k1] = 1
    desc["state"], desc["chemostats"] = state, chst
    chans = ref.channels(desc, chst)
    props = [ref.propensity(c_, state) for c_ in chans]
    amax = max(props + [0.0])
    if amax <= 0:
        return {"bad": [], "counts": {"reservoir_cases_without_channel": 1}, "key": None}
    lam_max = 10 ** r.uniform(3, 11)
    dt = lam_max / amax
    system = gen.render_system(desc, gen.exact_molecule_rendering(r))
    script = simhelp.make_script(system, r, dt_si=dt, t_sample_si=[0.0], policy="on_iteration", t_max_si=10 * dt, isp="none",
                                 usys=(gen.mild_sys(r)[0], gen.mild_sys(r)[1], "molecule"), seed=r.randrange(2 ** 31))
    t, d, complete, out = simhelp.run_script("tauleap", script, 1)
    bad, counts = [], {"reservoir_cases": 1}
    if d.shape[0] < 2:
        return {"bad": [{"what": "reservoir probe: no record after one step", "case": case}], "counts": counts, "key": None}
    x0, x1 = d[0].reshape(-1), d[1].reshape(-1)
    mean, var = [0.0] * (S * n), [0.0] * (S * n)
    for c_, a in zip(chans, props):
        for k_, dl in c_[5].items():
            mean[k_] += a * dt * dl
            var[k_] += a * dt * dl * dl
    if lam_max >= 2.0 ** 31:
        counts["reservoir_cases_beyond_2^31_events_per_channel"] = 1
    for k_ in range(S * n):
        counts["reservoir_entries_judged"] = counts.get("reservoir_entries_judged", 0) + 1
        ch_ = x1[k_] - x0[k_]
        if chst[k_]:
            if ch_ != 0 or x0[k_] != state[k_]:
                bad.append({"what": "reservoir probe: flagged entry changed", "entry": k_, "before": x0[k_], "after": x1[k_], "case": case})
            continue
        if abs(ch_ - mean[k_]) > 9.0 * math.sqrt(var[k_]) + 30.0:
            bad.append({"what": "reservoir probe: an entry fed by a macroscopic chemostated source did not change as the master equation prescribes",
                        "entry": k_, "species": k_ // n, "cell": k_ % n, "change": float(ch_), "expected_mean": mean[k_],
                        "expected_sd": math.sqrt(var[k_]), "events_per_step_of_largest_channel": lam_max, "source": k0,
                        "source_amount": X0, "case": case})
            break
    return {"bad": bad[:3], "counts": counts, "key": chash([desc, "reservoir"]), "nontrivial": True,
            "sample": {"seed": sd, "idx": idx, "source_amount": X0, "events_per_step": lam_max, "cells": n, "space": space["type"]}}


def run_large(case):
    """systems of 4100-5300 cells (state and chemostat arrays beyond 4096 / 8192 entries, flags up to the last entry):
    one Euler step against the masked reference law, flagged entries bitwise constant under Euler and tau-leap"""
    use_repo()
    engines.install()
    sd, idx = case["seed"], case["idx"]
    r = gen.rng_for(sd, "C03large", idx)
    desc = gen.large_system(r) if case.get("shape", "cells") == "cells" else gen.many_species_system(r)
    S, n = len(desc["species"]), gen.ncells(desc["space"])
    state, chst = desc["state"], desc["chemostats"]
    bad, counts = [], {"large_systems": 1}
    system = gen.render_system(desc, gen.Rendering(r, molecule_state=True))
    f_mask, mag = ref.rate_law(desc, state, chst)
    dt = 0.02 / ref.max_rate(desc, state)
    for kind_ in ("euler", "tauleap"):
        script = simhelp.make_script(system, r, dt_si=dt, t_sample_si=[0.0], policy="on_iteration", t_max_si=2.5 * dt, isp="none",
                                     usys=(gen.mild_sys(r)[0], gen.mild_sys(r)[1], "molecule"), seed=r.randrange(2 ** 31))
        t, d, complete, out = simhelp.run_script(kind_, script, 3)
        if d.shape[0] < 2:
            bad.append({"what": "large system: no record after one step", "engine": kind_, "case": case})
            continue
        x0 = d[0].reshape(-1)
        for k in range(S * n):
            if x0[k] != state[k]:
                bad.append({"what": "large system: the t = 0 record is not the state handed over", "engine": kind_, "entry": k, "got": float(x0[k]),
                            "expected": state[k], "entries": S * n, "case": case})
                break
        for j in range(1, d.shape[0]):
            xj = d[j].reshape(-1)
            for k in range(S * n):
                if chst[k]:
                    counts["large_flagged_entry_samples"] = counts.get("large_flagged_entry_samples", 0) + 1
                    if xj[k] != state[k]:
                        bad.append({"what": "large system: a flagged entry changed", "engine": kind_, "entry": k, "sample": j, "got": float(xj[k]),
                                    "expected": state[k], "entries": S * n, "case": case})
                        break
        if kind_ == "euler" and not bad:
            x1 = d[1].reshape(-1)
            for k in range(S * n):
                counts["large_euler_step_entries"] = counts.get("large_euler_step_entries", 0) + 1
                want = state[k] + dt * f_mask[k]
                if abs(x1[k] - want) > 1e-11 * (dt * mag[k] + abs(want)) + 1e-300:
                    bad.append({"what": "large system: Euler step differs from the (chemostat-masked) rate law", "entry": k, "flag": chst[k],
                                "got": float(x1[k]), "expected": want, "entries": S * n, "case": case})
                    break
    return {"bad": bad[:4], "counts": counts, "key": chash(["large", sd, idx]), "nontrivial": True,
            "sample": {"seed": sd, "idx": idx, "cells": n, "species": S, "space": desc["space"]["type"], "flags": sum(chst)}}


def run_overflow(case):
    """Deterministic engine, amounts so large (1e150 .. 1e300 molecules, all finite) that reaction or diffusion terms overflow to
    +-inf: whatever happens to the other entries, a flagged entry keeps exactly its initial value in every record."""
    use_repo()
    engines.install()
    import strengths as st
    sd, idx = case["seed"], case["idx"]
    r = gen.rng_for(sd, "C03ovf", idx)
    n = r.randint(2, 4)
    big = 10.0 ** r.uniform(150, 300)
    net = st.RDNetwork([st.Species("A", D=r.choice([0.0, 1.0, 1e9]), density=0), st.Species("B", D=r.choice([0.0, 1.0]), density=0)],
                       [st.Reaction(r.choice(["2 A -> B", "A + B -> ", "3 A -> 2 B", "A -> B"]), kf=r.choice([1.0, 1e9]), kr=r.choice([0.0, 1.0]))])
    if r.random() < 0.5:
        space = st.RDGridSpace(w=n, h=1, d=1, boundary_conditions={"x": r.choice(["reflecting", "periodical"])})
    else:
        space = st.RDGraphSpace([st.RDGraphSpaceNode(volume=r.uniform(0.5, 2)) for _ in range(n)],
                                [st.RDGraphSpaceEdge(i, i + 1, surface=1.0, distance=1.0) for i in range(n - 1)])
    state = [r.choice([0.0, 5.0, big, big * 0.5]) for _ in range(2 * n)]
    state[r.randrange(n)] = big
    chst = [int(r.random() < 0.5) for _ in range(2 * n)]
    if not any(chst):
        chst[0] = 1
    system = st.RDSystem(net, space, state=state, chemostats=chst)
    script = st.RDScript(system, t_sample=[0], t_max=1.0, time_step=r.choice([1e-3, 1.0]), sampling_policy="on_iteration", init_state_processing="none",
                         units_system=st.UnitsSystem(quantity="molecule"))
    t, d, complete, out = simhelp.run_script("euler", script, 3)
    bad, counts = [], {"overflow_probes": 1}
    X = d.reshape(d.shape[0], -1)
    if np.all(np.isfinite(X)):
        counts["overflow_probes_that_stayed_finite"] = 1
    for j in range(X.shape[0]):
        for k in range(2 * n):
            if chst[k]:
                counts["overflow_flagged_entry_samples"] = counts.get("overflow_flagged_entry_samples", 0) + 1
                if not (X[j][k] == state[k]):
                    bad.append({"what": "overflow probe: a flagged entry did not keep its initial value while other terms overflowed", "record": j, "entry": k,
                                "got": repr(float(X[j][k])), "expected": state[k], "case": case})
                    break
        if bad:
            break
    return {"bad": bad[:2], "counts": counts, "key": chash(["overflow", sd, idx]), "nontrivial": True, "sample": {"seed": sd, "idx": idx, "cells": n, "amount": big}}


def main():
    if len(sys.argv) > 2 and sys.argv[1] == "--replay":
        import json
        c = json.load(open(sys.argv[2]))["witness"]["case"]
        res = run_case(c)
        print(json.dumps(res, indent=1, default=str))
        return 1 if res["bad"] else 0
    run = Run("C03",
              rule="random systems (grids and simple graphs, 1-4 species, orders 0..3, per-environment constants) with "
                   "chemostat maps of all three origins (global flag, per-environment dict, explicit per-entry map with "
                   "random subsets), integer states in molecules. Per system: 12 Euler steps, 25 tau-leap steps, 250 "
                   "Gillespie events (on_iteration) + compute_dstatedt(apply_chemostats=True) (subset) + make_dxdtf "
                   "(one-cell) + apply_reaction on every reaction. Non-trivial: at least one flagged entry and a map that "
                   "is asymmetric across species within a cell or across cells within a species.",
              assumptions=["reference rate law / channels in vf/ref.py", "states are exact integers in molecules; init_state_processing='none'"])
    run.require("tauleap_rate_steps", "flagged_entry_samples", "euler_unflagged_step_entries", "gillespie_steps_classified", "dstatedt_entries",
                "dxdtf_entries", "apply_reaction_entries")
    thorough = tier() == "thorough"
    n_total = 20000 if thorough else 2400
    n_py = 4000 if thorough else 480
    cases = [{"seed": seed(), "idx": i, "python": i < n_py} for i in range(n_total)]
    res = pmap("vf.checks.c03:run_case", cases, cpu_budget=30)
    pool = stoch.Pool()
    for c, r_ in zip(cases, res):
        if r_["status"] != "ok":
            if r_["status"] in ("crash", "hang"):
                run.violation("engine " + r_["status"], {"case": c, "result": {k: r_[k] for k in r_ if k != "i"}})
            elif r_["status"] == "exception":
                run.violation("harness exception", {"case": c, "error": r_.get("error"), "tb": r_.get("tb")})
            else:
                run.inconclusive_because("case %s: %s" % (c, r_["status"]))
            continue
        v = r_["value"]
        run.case(v["key"], nontrivial=v["nontrivial"], sample=v.get("sample"))
        for k, n_ in v["counts"].items():
            run.count(k, n_)
        for b in v["bad"]:
            run.violation(b["what"].split(":")[0], b, mech={"what": b["what"]})
        pool.add(c, v.get("accs", {}))
    run.note("statistical_monitors", pool.judge(run, "tau-leap statistic '%s' (chemostats as sources/sinks) departs from the master equation (Ville test)"))
    run.note("false_alarm_budget", (len(pool.P) + pool.looks) * 1e-12)
    # ---- history workloads: objects used, modified through their setters / re-used, used again (vf/history.py) ----
    from vf.sandbox import run_extra as _run_extra
    from vf.common import seed as _seed, tier as _tier
    _run_extra(run, "vf.history:h_chemostat_alias", [{"seed": _seed(), "idx": _i} for _i in range(2400 if _tier() == "thorough" else 240)], cpu_budget=60, kind_prefix="history: ")
    _run_extra(run, "vf.checks.c03:run_reservoir", [{"seed": _seed(), "idx": _i} for _i in range(3000 if _tier() == "thorough" else 300)],
               cpu_budget=60, kind_prefix="")
    run.require("reservoir_entries_judged", "reservoir_cases_beyond_2^31_events_per_channel")
    _run_extra(run, "vf.checks.c03:run_large", [{"seed": _seed(), "idx": _i, "shape": "cells"} for _i in range(60 if _tier() == "thorough" else 8)] +
               [{"seed": _seed(), "idx": 1000 + _i, "shape": "species"} for _i in range(400 if _tier() == "thorough" else 60)], cpu_budget=240)
    run.require("large_euler_step_entries", "large_flagged_entry_samples")
    _run_extra(run, "vf.checks.c03:run_overflow", [{"seed": _seed(), "idx": _i} for _i in range(1500 if _tier() == "thorough" else 150)], cpu_budget=60)
    run.require("overflow_flagged_entry_samples")
    return run.finish()


if __name__ == "__main__":
    sys.exit(main())
