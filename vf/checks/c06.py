"""C06 - Unit conversion is exact SI scaling and composes.

Oracle: vf.si (exact rationals).  Monitors: direct comparison of every factor /
converted value with the rational SI factor, plus icontract postconditions on
compute_conversion_factor / convert_unitvalue that watch every internal call too.
"""
import itertools
import math
import random
import sys
from fractions import Fraction as Fr

from vf import si, contracts
from vf.common import Run, seed, tier, use_repo, chash
from vf.sandbox import pmap

REL = Fr(1, 10 ** 12)


_BIG = Fr(10) ** 280


def close(x, exact, rel=REL):
    if exact != 0 and not (1 / _BIG < abs(exact) < _BIG):
        return True          # the true result is (nearly) outside the double range: not judged
    if not isinstance(x, float):
        x = float(x)
    if math.isnan(x) or math.isinf(x):
        return False
    if exact == 0:
        return x == 0
    return abs(Fr(x) - exact) <= abs(exact) * rel


def _objs():
    use_repo()
    import strengths.units as U
    return U


_ROUTE = [0]


def mk_sys(U, s3):
    # by keyword, by position (documented order: space, time, quantity), or mixed - every route builds the same object
    _ROUTE[0] += 1
    k = _ROUTE[0] % 3
    if k == 0:
        return U.UnitsSystem(s3[0], s3[1], s3[2])
    if k == 1:
        return U.UnitsSystem(s3[0], quantity=s3[2], time=s3[1])
    return U.UnitsSystem(space=s3[0], time=s3[1], quantity=s3[2])


def mk_dim(U, d3):
    _ROUTE[0] += 1
    k = _ROUTE[0] % 3
    if k == 0:
        return U.UnitsDimensions(d3[0], d3[1], d3[2])
    if k == 1:
        return U.UnitsDimensions(d3[0], quantity=d3[2], time=d3[1])
    return U.UnitsDimensions(space=d3[0], time=d3[1], quantity=d3[2])


def target_forms(U, s3, d3, r):
    """every accepted form of conversion target for system s3 (dimension d3)"""
    ustr = si.unit_string(s3, d3, style=r.choice([0, 1, 2, 3, 0, 1, 2, 3, 4, 5]))
    forms = {
        "UnitsSystem": mk_sys(U, s3),
        "dict": si.sys_dict(s3),
        "Units": U.Units(mk_sys(U, s3), mk_dim(U, d3)),
        "UnitValue": U.UnitValue(r.uniform(-3, 3), U.Units(mk_sys(U, s3), mk_dim(U, d3))),
    }
    if any(d3):
        forms["str"] = ustr
    return forms


# ---------------------------------------------------------------------------
# worker-side case functions (run in children via pmap)

def case_pairs_exhaustive(case):
    """all ordered symbol pairs of one base kind x exponents -4..4"""
    U = _objs()
    contracts.install()
    kind = case["kind"]
    table = si.BASE[kind]
    bad, n = [], 0
    base = {"space": "m", "time": "s", "quantity": "molecule"}
    for a in table:
        for b in table:
            for e in range(-4, 5):
                sa, sb = dict(base), dict(base)
                sa[kind], sb[kind] = a, b
                d = {"space": 0, "time": 0, "quantity": 0}
                d[kind] = e
                f = U.compute_conversion_factor(U.unitssystem_from_dict(sa), U.unitssystem_from_dict(sb),
                                                U.unitsdimensions_from_dict(d))
                n += 1
                exact = (table[a] / table[b]) ** e
                if not close(f, exact):
                    bad.append({"kind": kind, "src": a, "dst": b, "exp": e, "got": float(f), "expected": float(exact)})
    log, counts = contracts.drain()
    return {"n": n, "bad": bad[:20], "contract_bad": log[:20], "contract_counts": counts}


def case_derived_symbols(case):
    """litre and molar families through parse_units: dimension and SI scale"""
    U = _objs()
    contracts.install()
    bad, n = [], 0
    for sym, (scale, dim) in si.SYMBOLS.items():
        if sym in si.SPACE or sym in si.TIME or sym in si.QUANTITY:
            continue
        for e in (-3, -2, -1, 1, 2, 3):
            txt = sym + ("" if e == 1 else str(e))
            u = U.parse_units(txt)
            n += 1
            d3 = si.dim_of(u.dim)
            want = tuple(x * e for x in dim)
            if d3 != want:
                bad.append({"unit": txt, "dim": d3, "expected_dim": want})
                continue
            v = U.UnitValue(1.0, u)
            got = Fr(v.value) * si.scale(si.sys_of(v.units.sys), d3)
            if abs(got - scale ** e) > abs(scale ** e) * REL:
                bad.append({"unit": txt, "si": float(got), "expected_si": float(scale ** e)})
            # and through a conversion to (m, s, molecule)
            c = v.convert(U.UnitsSystem(space="m", time="s", quantity="molecule"))
            if not close(c.value, scale ** e):
                bad.append({"unit": txt, "converted": c.value, "expected": float(scale ** e)})
    log, counts = contracts.drain()
    return {"n": n, "bad": bad[:20], "contract_bad": log[:20], "contract_counts": counts}


def case_random_block(case):
    """random triples of systems x dimension vectors, all target forms, scalars and arrays"""
    U = _objs()
    contracts.install()
    import numpy as np
    r = random.Random(case["seed"])
    bad = []
    stats = {"conversions": 0, "roundtrips": 0, "compositions": 0, "identities": 0, "cross_dim_raised": 0,
             "array_conversions": 0}
    keys = []
    for _ in range(case["n"]):
        A, B, C = (r.choice(si.ALL_SYSTEMS) for _ in range(3))
        if r.random() < 0.15:
            B = A
        d3 = tuple(r.randint(-4, 4) for _ in range(3)) if r.random() < 0.85 else tuple(r.randint(-9, 9) for _ in range(3))
        val = r.choice([1.0, -1.0, r.uniform(-10, 10), 10 ** r.uniform(-8, 8) * r.choice([-1, 1])])
        if max(abs(e_) for e_ in d3) > 4:
            # high exponents: keep the case only if every factor and every intermediate value involved is well inside the
            # double range (a factor that is not representable cannot be applied, whatever the implementation)
            fs_ = [si.factor(A, B, d3), si.factor(A, C, d3), si.factor(B, C, d3), si.factor(B, A, d3)]
            if any(not (1 / _BIG < abs(f_ * m_) < _BIG) for f_ in fs_ for m_ in (1, Fr(val), Fr(1, 10 ** 4), Fr(10 ** 4))) \
                    or not (1 / _BIG < abs(Fr(val) * fs_[0] * fs_[2]) < _BIG):
                stats["high_exponent_cases_skipped_out_of_range"] = stats.get("high_exponent_cases_skipped_out_of_range", 0) + 1
                continue
            stats["high_exponent_cases"] = stats.get("high_exponent_cases", 0) + 1
        keys.append((A, B, d3))
        try:
            q = U.UnitValue(val, U.Units(mk_sys(U, A), mk_dim(U, d3)))
            exactB = Fr(val) * si.factor(A, B, d3)
            exactC = Fr(val) * si.factor(A, C, d3)
            for fname, tgt in target_forms(U, B, d3, r).items():
                c = q.convert(tgt)
                stats["conversions"] += 1
                if si.dim_of(c.units.dim) != d3:
                    bad.append({"what": "dimension changed", "form": fname, "A": A, "B": B, "dim": d3})
                if fname == "str" or si.sys_of(c.units.sys) == B:
                    # (a unit string only fixes the bases with non-zero exponent)
                    rs = si.sys_of(c.units.sys)
                    ex = Fr(val) * si.factor(A, rs, d3)
                    if not close(c.value, ex):
                        bad.append({"what": "value", "form": fname, "A": A, "B": rs, "dim": d3, "val": val,
                                    "got": c.value, "expected": float(ex)})
                else:
                    bad.append({"what": "target system not taken", "form": fname, "A": A, "B": B,
                                "got_sys": si.sys_of(c.units.sys)})
            # partial dictionary as target: the components left out are the documented defaults (µm, s, molecule), whatever
            # was parsed, built or converted earlier in the process
            keep = [k_ for k_ in range(3) if r.random() < 0.5]
            Bp = tuple(B[k_] if k_ in keep else si.DEFAULT_SYS[k_] for k_ in range(3))
            pdict = {("space", "time", "quantity")[k_]: B[k_] for k_ in keep}
            cpd = q.convert(pdict)
            stats["partial_dict_targets"] = stats.get("partial_dict_targets", 0) + 1
            if si.sys_of(cpd.units.sys) != Bp:
                bad.append({"what": "partial dictionary target: components left out are not the defaults", "target": pdict,
                            "got_sys": si.sys_of(cpd.units.sys), "expected_sys": Bp})
            elif not close(cpd.value, Fr(val) * si.factor(A, Bp, d3)):
                bad.append({"what": "value", "form": "partial dict", "A": A, "B": Bp, "dim": d3, "val": val, "got": cpd.value,
                            "expected": float(Fr(val) * si.factor(A, Bp, d3))})
            apd = U.UnitArray([val, 2.0 * val], U.Units(mk_sys(U, A), mk_dim(U, d3))).convert(pdict)
            if si.sys_of(apd.units.sys) != Bp:
                bad.append({"what": "partial dictionary target (array): components left out are not the defaults", "target": pdict,
                            "got_sys": si.sys_of(apd.units.sys), "expected_sys": Bp, "source_sys": A})
            elif not close(float(apd.value[1]), Fr(2.0 * val) * si.factor(A, Bp, d3)):
                bad.append({"what": "array value", "form": "partial dict", "A": A, "B": Bp, "dim": d3, "x": 2.0 * val, "got": float(apd.value[1])})
            # extreme but finite values whose converted value is finite too (the factor is moderate although its per-kind
            # components may be large and pull in opposite directions): no intermediate may overflow or go subnormal
            fAB = si.factor(A, B, d3)
            if Fr(1, 1000) < fAB < 1000 and sum(1 for e_ in d3 if e_) >= 2:
                for big in (10.0 ** r.uniform(295, 304), 10.0 ** -r.uniform(295, 304), -(10.0 ** r.uniform(295, 304))):
                    qx = U.UnitValue(big, U.Units(mk_sys(U, A), mk_dim(U, d3)))
                    cx_ = qx.convert(mk_sys(U, B))
                    stats["extreme_value_conversions"] = stats.get("extreme_value_conversions", 0) + 1
                    ex_ = Fr(big) * fAB
                    if not (math.isfinite(cx_.value) and abs(Fr(cx_.value) - ex_) <= abs(ex_) * Fr(1, 10 ** 11)):
                        bad.append({"what": "value", "form": "extreme magnitude", "A": A, "B": B, "dim": d3, "val": big, "got": cx_.value,
                                    "expected": float(ex_)})
                    ax_ = U.UnitArray([big, 1.0], U.Units(mk_sys(U, A), mk_dim(U, d3))).convert(mk_sys(U, B))
                    if not (math.isfinite(float(ax_.value[0])) and abs(Fr(float(ax_.value[0])) - ex_) <= abs(ex_) * Fr(1, 10 ** 11)):
                        bad.append({"what": "array value", "form": "extreme magnitude", "A": A, "B": B, "dim": d3, "x": big, "got": float(ax_.value[0])})
            # there and back
            back = q.convert(mk_sys(U, B)).convert(mk_sys(U, A))
            stats["roundtrips"] += 1
            if not close(back.value, Fr(val)):
                bad.append({"what": "A->B->A", "A": A, "B": B, "dim": d3, "val": val, "got": back.value})
            # composition
            via = q.convert(mk_sys(U, B)).convert(mk_sys(U, C))
            direct = q.convert(mk_sys(U, C))
            stats["compositions"] += 1
            if not close(via.value, exactC) or not close(direct.value, exactC):
                bad.append({"what": "A->B->C vs A->C", "A": A, "B": B, "C": C, "dim": d3, "val": val,
                            "via": via.value, "direct": direct.value, "expected": float(exactC)})
            # identity
            same = q.convert(mk_sys(U, A))
            stats["identities"] += 1
            if same.value.hex() != float(val).hex() or si.dim_of(same.units.dim) != d3:
                bad.append({"what": "same-system conversion is not the identity", "A": A, "dim": d3, "val": val,
                            "got": same.value})
            # different dimension must raise (forms that carry a dimension)
            d_other = list(d3)
            k = r.randrange(3)
            d_other[k] += r.choice([-2, -1, 1, 2])
            d_other = tuple(d_other)
            for fname, tgt in target_forms(U, B, d_other, r).items():
                if fname in ("UnitsSystem", "dict"):
                    continue
                try:
                    out = q.convert(tgt)
                    bad.append({"what": "cross-dimension conversion returned", "form": fname, "dim": d3,
                                "target_dim": d_other, "got": str(out)})
                except Exception:
                    stats["cross_dim_raised"] += 1
            # arrays
            vals = [r.uniform(-5, 5) * 10 ** r.randint(-3, 3) for _ in range(r.randint(1, 4))]
            # the numbers come in any of the containers / item types the documentation calls "array" (a narrower float or an
            # integer type holds exactly the numbers it holds: the conversion must be that of those numbers in double precision)
            cont = r.choice(["list", "list", "tuple", "float64", "float32", "float16", "int64", "int32", "list of numpy scalars"])
            raw = list(vals)
            if cont == "tuple":
                raw = tuple(vals)
            elif cont in ("float64", "float32", "float16"):
                raw = np.array(vals, dtype=getattr(np, cont))
                vals = [float(x) for x in raw]
            elif cont in ("int64", "int32"):
                raw = np.array([r.randint(-5000, 5000) for _ in vals], dtype=getattr(np, cont))
                vals = [float(x) for x in raw]
            elif cont == "list of numpy scalars":
                raw = [np.float32(x) if r.random() < 0.5 else np.float64(x) for x in vals]
                vals = [float(x) for x in raw]
            stats["array_container:" + cont] = stats.get("array_container:" + cont, 0) + 1
            arr = U.UnitArray(raw, U.Units(mk_sys(U, A), mk_dim(U, d3)))
            for fname, tgt in target_forms(U, B, d3, r).items():
                ca = arr.convert(tgt)
                stats["array_conversions"] += 1
                rs = si.sys_of(ca.units.sys)
                if si.dim_of(ca.units.dim) != d3:
                    bad.append({"what": "array dimension changed", "form": fname})
                for x, y in zip(vals, ca.value):
                    if not close(float(y), Fr(x) * si.factor(A, rs, d3)):
                        bad.append({"what": "array value", "form": fname, "A": A, "B": rs, "dim": d3, "x": x,
                                    "got": float(y), "container": cont})
                        break
            for fname, tgt in target_forms(U, B, d_other, r).items():
                if fname in ("UnitsSystem", "dict"):
                    continue
                try:
                    arr.convert(tgt)
                    bad.append({"what": "array cross-dimension conversion returned", "form": fname, "dim": d3,
                                "target_dim": d_other})
                except Exception:
                    stats["cross_dim_raised"] += 1
            sa = arr.convert(mk_sys(U, A))
            if sa.value.tobytes() != np.array(vals, dtype=float).tobytes():
                bad.append({"what": "array same-system conversion is not the identity", "A": A})
            # arrays built from items that each carry their own units: every item is converted with ITS factor
            items, exact_items = [], []
            for _ in range(r.randint(2, 4)):
                Si = r.choice(si.ALL_SYSTEMS)
                xi = r.uniform(-5, 5) * 10 ** r.randint(-2, 2)
                form = r.choice(["uv", "str", "num"])
                if form == "uv":
                    items.append(U.UnitValue(xi, U.Units(mk_sys(U, Si), mk_dim(U, d3))))
                    exact_items.append(Fr(xi) * si.factor(Si, A, d3))
                elif form == "str" and any(d3):
                    items.append("%r %s" % (xi, si.unit_string(Si, d3)))
                    # a unit string only fixes the bases with a non-zero exponent
                    exact_items.append(Fr(xi) * si.factor(tuple(Si[k] if d3[k] else si.DEFAULT_SYS[k] for k in range(3)), A, d3))
                else:
                    items.append(xi)
                    exact_items.append(Fr(xi))
            if any(isinstance(it, str) for it in items) and not all(isinstance(it, str) for it in items):
                items = [it for it in items if not isinstance(it, str)] or [1.0]      # numpy cannot hold mixed str/number lists
                exact_items = None
            if exact_items is not None and not all(isinstance(it, str) for it in items):
                # ... whatever sequence holds them (a list, a tuple, a numpy array of objects), and the caller's sequence
                # still holds the same items afterwards, so that it can be used for a second array in other units
                icont = r.choice(["list", "list", "tuple", "object ndarray"])
                held = list(items)
                if icont == "tuple":
                    items = tuple(items)
                elif icont == "object ndarray":
                    oa = np.empty(len(items), dtype=object)
                    for k_, it in enumerate(held):
                        oa[k_] = it
                    items = oa
                stats["item_container:" + icont] = stats.get("item_container:" + icont, 0) + 1
                ma = U.UnitArray(items, U.Units(mk_sys(U, A), mk_dim(U, d3)))
                stats["mixed_item_arrays"] = stats.get("mixed_item_arrays", 0) + 1
                if len(items) != len(held) or any(a_ is not b_ for a_, b_ in zip(items, held)):
                    bad.append({"what": "building an array from items changed the caller's sequence of items", "container": icont,
                                "items_now": [str(x) for x in items][:4], "items_given": [str(x) for x in held][:4]})
                else:
                    mb = U.UnitArray(items, U.Units(mk_sys(U, B), mk_dim(U, d3)))
                    stats["item_sequences_used_twice"] = stats.get("item_sequences_used_twice", 0) + 1
                    for y, ex, it in zip(mb.value, exact_items, held):
                        if isinstance(it, (int, float)):
                            continue                       # a bare number is a number of the new array's units: judged above
                        if not close(float(y), ex * si.factor(A, B, d3)):
                            bad.append({"what": "array built from items with their own units: an item was not converted with its own factor",
                                        "second_use_of_the_sequence": True, "container": icont, "A": B, "dim": d3, "got": float(y),
                                        "expected": float(ex * si.factor(A, B, d3))})
                            break
                for y, ex in zip(ma.value, exact_items):
                    if not close(float(y), ex):
                        bad.append({"what": "array built from items with their own units: an item was not converted with its own factor",
                                    "A": A, "dim": d3, "got": float(y), "expected": float(ex)})
                        break
            # convert - modify an element in place - convert again (the second conversion must see the new element)
            ua = U.UnitArray(list(vals), U.Units(mk_sys(U, A), mk_dim(U, d3)))
            tgt2 = r.choice([mk_sys(U, B), si.sys_dict(B), U.Units(mk_sys(U, B), mk_dim(U, d3))])
            ua.convert(tgt2)
            newv = list(vals)
            k_ = r.randrange(len(newv))
            how = r.choice(["set_at", "index", "set_value"])
            newv[k_] = r.uniform(-7, 7)
            if how == "set_at":
                ua.set_at(k_, U.UnitValue(newv[k_], U.Units(mk_sys(U, A), mk_dim(U, d3))))
            elif how == "index":
                ua.value[k_] = newv[k_]
            else:
                ua.set_value(newv)
            c2 = ua.convert(tgt2)
            stats["convert_modify_convert"] = stats.get("convert_modify_convert", 0) + 1
            for x, y in zip(newv, c2.value):
                if not close(float(y), Fr(x) * si.factor(A, B, d3)):
                    bad.append({"what": "conversion after an in-place element change returns stale values", "how": how, "A": A, "B": B,
                                "dim": d3, "x": x, "got": float(y)})
                    break
            # the result of a conversion is a new quantity: editing it must not change the source (also when the target
            # system is the source's own), and editing the source afterwards must not change the result
            for tgt_sys in (A, B):
                src_arr = U.UnitArray(list(vals), U.Units(mk_sys(U, A), mk_dim(U, d3)))
                before = src_arr.value.tobytes()
                for fname, tgt in target_forms(U, tgt_sys, d3, r).items():
                    res_arr = src_arr.convert(tgt)
                    res_before = res_arr.value.copy()
                    res_arr.value[0] = res_arr.value[0] * 3 + 1
                    res_arr.set_at(len(vals) - 1, U.UnitValue(12.5, res_arr.units))
                    stats["result_independence_checks"] = stats.get("result_independence_checks", 0) + 1
                    if src_arr.value.tobytes() != before:
                        bad.append({"what": "editing the RESULT of a conversion changed the source array", "form": fname,
                                    "A": A, "target": tgt_sys, "dim": d3, "same_system": tgt_sys == A})
                        break
                    res2 = src_arr.convert(tgt)
                    src_arr.value[0] += 0.0
                    if res2.value.tobytes() != res_before.tobytes():
                        bad.append({"what": "a second conversion of an unchanged source differs from the first", "form": fname,
                                    "A": A, "target": tgt_sys, "dim": d3})
                        break
            qv = U.UnitValue(val, U.Units(mk_sys(U, A), mk_dim(U, d3)))
            qc = qv.convert(mk_sys(U, A))
            qc.value = 77.0
            if qv.value.hex() != float(val).hex():
                bad.append({"what": "editing the RESULT of a scalar conversion changed the source value", "A": A, "dim": d3})
            # convert_value, the functional form
            cv = U.convert_value(val, mk_sys(U, A), mk_sys(U, B), mk_dim(U, d3))
            if not close(cv, exactB):
                bad.append({"what": "convert_value", "A": A, "B": B, "dim": d3, "val": val, "got": float(cv)})
        except Exception as e:
            bad.append({"what": "exception on valid conversion", "A": A, "B": B, "C": C, "dim": d3, "val": val,
                        "error": "%s: %s" % (type(e).__name__, e)})
        if len(bad) > 30:
            break
    log, counts = contracts.drain()
    nontriv = sorted({chash(k) for k in keys if k[0] != k[1] and any(k[2])})
    return {"stats": stats, "bad": bad[:20], "contract_bad": log[:20], "contract_counts": counts,
            "keys": sorted({chash(k) for k in keys}), "nontrivial": nontriv,
            "sample": {"A": keys[0][0], "B": keys[0][1], "dim": keys[0][2]} if keys else None}


def case_sweep(case):
    """thorough: all destination systems for a slice of source systems, several dimension vectors"""
    U = _objs()
    srcs = case["srcs"]
    dims = case["dims"]
    bad, n = [], 0
    S = {s3: mk_sys(U, s3) for s3 in si.ALL_SYSTEMS}
    for a in srcs:
        a = tuple(a)
        for d3 in dims:
            d3 = tuple(d3)
            dd = mk_dim(U, d3)
            sa = si.scale(a, d3)
            for b in si.ALL_SYSTEMS:
                f = U.compute_conversion_factor(S[a], S[b], dd)
                n += 1
                if not close(f, sa / si.scale(b, d3)):
                    bad.append({"src": a, "dst": b, "dim": d3, "got": float(f)})
                    if len(bad) > 20:
                        return {"n": n, "bad": bad}
    return {"n": n, "bad": bad}


def case_large_arrays(case):
    """arrays longer than the block sizes a chunked implementation would use (65536 +- 1, 70000, 2^17 + 5, 200000): every
    element converted with the exact factor, element 0, the elements around every multiple of 4096 / 65536 and the last one
    included; there-and-back; same-system identity"""
    U = _objs()
    import numpy as np
    r = random.Random(case["seed"])
    bad, n = [], 0
    for _ in range(case["n"]):
        A, B = (tuple(gen_mild(r)) for _ in range(2))
        d3 = tuple(r.randint(-2, 2) for _ in range(3))
        L = r.choice([65535, 65536, 65537, 70000, 2 ** 17 + 5, 200000, 4097, 8192])
        cont = r.choice(["float64", "float64", "list", "float32"])
        vals = np.array([r.uniform(-5, 5) for _ in range(64)] * (L // 64 + 1))[:L] * np.linspace(1.0, 2.0, L)
        raw = vals.tolist() if cont == "list" else vals.astype(getattr(np, cont))
        ref_vals = np.array(raw, dtype=float)
        arr = U.UnitArray(raw, U.Units(mk_sys(U, A), mk_dim(U, d3)))
        f = si.factor(A, B, d3)
        ca = arr.convert(mk_sys(U, B))
        got = np.array(ca.value, dtype=float)
        n += 1
        if got.shape != ref_vals.shape:
            bad.append({"what": "large array: length changed", "length": L, "got": list(got.shape)})
            continue
        want = ref_vals * float(f)
        dev = np.abs(got - want) > 1e-12 * np.abs(want)
        if dev.any():
            k = int(np.argmax(dev))
            bad.append({"what": "large array: an element was not converted with the factor", "length": L, "container": cont, "element": k,
                        "first_wrong": int(np.flatnonzero(dev)[0]), "wrong_elements": int(dev.sum()), "A": A, "B": B, "dim": d3,
                        "got": float(got[k]), "expected": float(want[k])})
            continue
        back = np.array(ca.convert(mk_sys(U, A)).value, dtype=float)
        if (np.abs(back - ref_vals) > 1e-12 * np.abs(ref_vals)).any():
            bad.append({"what": "large array: A->B->A", "length": L, "A": A, "B": B, "dim": d3})
        same = np.array(arr.convert(mk_sys(U, A)).value, dtype=float)
        if same.tobytes() != ref_vals.tobytes():
            bad.append({"what": "large array: same-system conversion is not the identity", "length": L})
    return {"n": n, "bad": bad[:10]}


def gen_mild(r):
    from vf import gen
    return gen.mild_sys(r)


# ---------------------------------------------------------------------------

def main():
    run = Run("C06",
              rule="(1) exhaustive: every ordered pair of symbols of each base kind x exponent -4..4 through "
                   "compute_conversion_factor; (2) every litre/molar symbol x exponents through parse_units; "
                   "(3) random (A,B,C) unit-system triples x dimension vectors in [-4,4]^3 x every target form "
                   "(str, Units, UnitValue, UnitsSystem, dict) x scalar and array: value vs exact rational SI factor "
                   "(rel 1e-12), dimension kept, A->B->A, A->B->C vs A->C, same-system bitwise identity, "
                   "cross-dimension raises. A case is (A,B,dim); non-trivial when A != B and dim != 0.",
              assumptions=["SI table vf/si.py written from the SI definitions is the oracle",
                           "finite magnitudes within +-1e8, exponents within [-4,4]"])
    run.require("factor_checks", "value_checks", "contract:compute_conversion_factor", "contract:convert_unitvalue",
                "repo_tests_contract:compute_conversion_factor")
    thorough = tier() == "thorough"
    cases = [("vf.checks.c06:case_pairs_exhaustive", {"kind": k}) for k in si.KINDS]
    cases.append(("vf.checks.c06:case_derived_symbols", {}))
    nblocks = 96 if thorough else 48
    per = 2500 if thorough else 500
    for b in range(nblocks):
        cases.append(("vf.checks.c06:case_random_block", {"seed": "%d/%d" % (seed(), b), "n": per}))
    for b in range(32 if thorough else 8):
        cases.append(("vf.checks.c06:case_large_arrays", {"seed": "%d/L%d" % (seed(), b), "n": 6 if thorough else 3}))
    if thorough:
        rr = random.Random(seed())
        dims = [(1, 0, 0), (0, 1, 0), (0, 0, 1), (-3, 0, 1), (3, -1, -1), (2, -1, 0),
                tuple(rr.randint(-4, 4) for _ in range(3))]
        systems = list(si.ALL_SYSTEMS)
        for k in range(0, len(systems), 25):
            cases.append(("vf.checks.c06:case_sweep", {"srcs": systems[k:k + 25], "dims": dims}))
    # group by function for pmap
    by = {}
    for f, c in cases:
        by.setdefault(f, []).append(c)
    for f, cs in by.items():
        res = pmap(f, cs, cpu_budget=600)
        for c, r_ in zip(cs, res):
            if r_["status"] != "ok":
                run.violation("harness", {"func": f, "case": c, "result": r_}) if r_["status"] == "exception" \
                    else run.inconclusive_because("%s on %s: %s" % (r_["status"], f, str(r_)[:300]))
                continue
            v = r_["value"]
            if f.endswith("case_large_arrays"):
                run.count("large_array_conversions", v["n"])
                run.case("large-arrays" + chash(c), nontrivial=True, sample={"workload": "case_large_arrays", **c})
            elif f.endswith("case_pairs_exhaustive") or f.endswith("case_derived_symbols") or f.endswith("case_sweep"):
                run.count("factor_checks", v["n"])
                name = f.split(":")[1] + "/" + str(c.get("kind", ""))
                run.case(name + chash(c), nontrivial=True, sample={"workload": f.split(":")[1], **{k: c[k] for k in c if k != "srcs"}})
                run.evaluations += v["n"] - 1
            else:
                st = v["stats"]
                run.count("value_checks", st["conversions"] + st["array_conversions"])
                for k_, n_ in st.items():
                    run.count(k_, n_)
                nt = set(v["nontrivial"])
                for n_h, h in enumerate(v["keys"]):
                    run.case(h, nontrivial=h in nt, sample=v["sample"] if n_h == 0 else None)
            for k_, n_ in v.get("contract_counts", {}).items():
                run.count("contract:" + k_, n_)
            for b_ in v["bad"]:
                run.violation("conversion", b_, mech={"what": b_.get("what", "factor")})
            for name, w in v.get("contract_bad", []):
                run.violation("contract:" + name, w)
    # the repository's own test-suite, run once with the conversion contracts switched on
    import json as _json, os as _os, subprocess as _sp, tempfile as _tf
    from vf.common import REPO, VERIF, SRC, DEPS, PY, SCRATCH
    _os.makedirs(SCRATCH, exist_ok=True)
    outp = _tf.mktemp(prefix="contracts-", suffix=".json", dir=SCRATCH)
    env = dict(_os.environ, PYTHONPATH=_os.pathsep.join([VERIF, SRC, DEPS]), VERIF_CONTRACT_OUT=outp, PYTHONWARNINGS="ignore")
    pr = _sp.run([PY, "-m", "pytest", "-q", "-p", "no:cacheprovider", "-p", "vf.pytest_plugin", _os.path.join(REPO, "tests")],
                 cwd=REPO, env=env, capture_output=True, text=True, timeout=1800)
    try:
        rep = _json.load(open(outp))
        _os.remove(outp)
        for k_, n_ in rep["counts"].items():
            run.count("repo_tests_contract:" + k_, n_)
        for name, w in rep["violations"]:
            run.violation("contract:%s (during the repository's own tests)" % name, w)
    except Exception as e:
        run.inconclusive_because("repository tests with contracts on did not report: %s %s" % (e, pr.stdout[-200:]))
    run.exhaustive = False
    run.note("exhaustive_part", "all 11^2+10^2+10^2 ordered symbol pairs x 9 exponents; all 16 derived symbols x 6 exponents"
             + ("; all 1100x1100 system pairs x 7 dimension vectors" if thorough else ""))
    return run.finish()


if __name__ == "__main__":
    sys.exit(main())
