"""C09 - Sampling contract: which states are recorded, when, and in what shape.

Oracle.  The same script and seed is first run with sampling_policy="on_iteration", driven one
iterate() at a time, while the live clock and state are read through the independent raw exports
(engineexport_get_time / get_state) after every step.  That yields the engine's own step sequence
(T_k, X_k).  The policy under test must then record exactly the selection the contract defines
over that sequence, compared on the very doubles involved (raw bytes), so floating accumulation of
t += dt is not an issue.  Requested times, t_max, interval and time step are taken in the engine's
time unit and cross-checked against the SI description (1e-12).
"""
import ctypes
import math
import sys

import numpy as np

from vf import gen, ref, si, engines, simhelp
from vf.common import Run, seed, tier, use_repo, chash
from vf.sandbox import pmap

CAP = 1500


def gen_case(sd, idx):
    r = gen.rng_for(sd, "C09", idx)
    kind = r.choice(["grid", "graph"])
    opts = {"space": kind, "explicit_chstt": 0.2, "integer_state": True, "state_counts": (1, 30), "p_zero": 0.1,
            "net": {"chstt": 0.1, "nreactions": (0, 2), "nspecies": (1, 3), "max_order": 2, "counts": (1, 30)},
            "grid": {"dims": (1, 3), "max_cells": 8}, "graph": {"nodes": (1, 5), "simple": False}}
    desc = gen.rand_system(r, opts)
    return desc


def raw_state(eng, S, n):
    buf = (ctypes.c_double * (S * n))()
    eng._lib.engineexport_get_state(buf)
    return np.array(buf[:], dtype=float)


def raw_time(eng):
    return float(eng._lib.engineexport_get_time())


def sample_times(r, dt, nsteps_target):
    """sorted request lists: duplicates, clusters inside one step, start after 0, on and off the step grid"""
    horizon = dt * nsteps_target
    style = r.choice(["offgrid", "ongrid", "cluster", "late-start", "dups", "single", "dense"])
    ts = []
    if style == "offgrid":
        ts = [r.uniform(0, horizon) for _ in range(r.randint(1, 8))]
    elif style == "ongrid":
        ts = [dt * r.randint(0, nsteps_target) for _ in range(r.randint(1, 8))]
    elif style == "cluster":
        base = dt * r.randint(0, nsteps_target - 1)
        ts = [base + dt * r.random() for _ in range(r.randint(2, 6))] + [r.uniform(0, horizon) for _ in range(r.randint(0, 3))]
    elif style == "late-start":
        ts = [r.uniform(0.3 * horizon, horizon) for _ in range(r.randint(1, 5))]
    elif style == "dups":
        b = [r.uniform(0, horizon) for _ in range(r.randint(1, 4))]
        ts = b + [r.choice(b) for _ in range(r.randint(1, 4))]
    elif style == "single":
        ts = [r.choice([0.0, horizon, r.uniform(0, horizon)])]
    else:
        ts = [dt * (k + r.choice([0.0, 0.5])) for k in range(0, nsteps_target, max(1, nsteps_target // 12))]
    if r.random() < 0.5 and style != "late-start":
        ts.append(0.0)
    return sorted(ts), style


def _scribble(container):
    try:
        if isinstance(container, list):
            for i in range(len(container)):
                container[i] = -4321.5
        else:
            container.value[...] = -4321.5
    except Exception:
        pass


def expected_on_t_sample(T, taus):
    """contract: record at the first step whose time is at or after each requested time; one per step"""
    rec, pos = [], 0
    for k, t in enumerate(T):
        if pos < len(taus) and t >= taus[pos]:
            rec.append(k)
            while pos < len(taus) and t >= taus[pos]:
                pos += 1
    return rec


def run_sized(case):
    """trajectories whose extents sit on the sizes a blocked copy would use: grids of 256 m cells (16x16x1, 8x8x8, 256x1x1...),
    and / or a number of records that makes nsamples x nspecies x ncells an exact multiple of 65536 (and one off it).  Deterministic
    engine, K requested times in K distinct steps: record j must be, bit for bit, the state after step j+1 of a per-iteration run
    (whose own records are cross-read through the raw state export)."""
    use_repo()
    engines.install()
    import strengths as st
    sd, idx = case["seed"], case["idx"]
    r = gen.rng_for(sd, "C09sized", idx)
    w, h, d = r.choice([(16, 16, 1), (8, 8, 8), (256, 1, 1), (4, 64, 1), (16, 16, 2), (32, 8, 1), (17, 15, 1), (3, 5, 7)])
    C = w * h * d
    S = r.randint(1, 2)
    species = [st.Species(l, D=r.uniform(0.2, 1.0), density=0) for l in ["A", "B"][:S]]
    rx = [st.Reaction("A -> B", kf=0.5, kr=0.2)] if S == 2 else [st.Reaction("A -> ", kf=0.3)]
    bc = {"x": r.choice(["reflecting", "periodical"]), "y": r.choice(["reflecting", "periodical"]), "z": "reflecting"}
    system = st.RDSystem(st.RDNetwork(species, rx), st.RDGridSpace(w=w, h=h, d=d, boundary_conditions=bc),
                         state=[float(r.randint(0, 50)) for _ in range(S * C)])
    per = S * C
    if 65536 % per == 0 and r.random() < 0.7:
        K = (65536 // per) * r.choice([1, 1, 2]) + r.choice([0, 0, 0, 1])
    else:
        K = r.randint(3, 40)
    K = max(2, min(K, 700))
    dt = 0.01
    ts = [(k + 0.5) * dt for k in range(K)]
    kind_ = r.choice(["euler", "euler", "tauleap"])
    seed_ = r.randrange(2 ** 31)
    ref_script = st.RDScript(system, t_sample=[0.0, ts[-1]], time_step=dt, sampling_policy="on_iteration", rng_seed=seed_, init_state_processing="none")
    pol_script = st.RDScript(system, t_sample=list(ts), time_step=dt, sampling_policy="on_t_sample", rng_seed=seed_, init_state_processing="none")
    e = engines.get(kind_)
    e.setup(ref_script)
    raw = [raw_state(e, S, C)]
    while e.iterate():
        raw.append(raw_state(e, S, C))
    raw.append(raw_state(e, S, C))
    oref = e.get_output()
    e.finalize()
    e = engines.get(kind_)
    e.setup(pol_script)
    e.iterate_n(10 ** 6)
    out = e.get_output()
    e.finalize()
    bad, counts = [], {"sized_trajectories": 1, "sized_values": 0}
    dref = np.array(oref.data.value, dtype=float).reshape(-1, per)
    dpol = np.array(out.data.value, dtype=float)
    if dpol.size != K * per or out.nsamples() != K:
        bad.append({"what": "sized trajectory: data does not hold nsamples x nspecies x ncells values", "requested_times": K, "nsamples": out.nsamples(),
                    "values": int(dpol.size), "grid": [w, h, d], "species": S, "case": case})
    else:
        dpol = dpol.reshape(K, per)
        counts["sized_values"] = int(dpol.size)
        if dpol.size % 65536 == 0:
            counts["sized_trajectories_multiple_of_65536"] = 1
        if C % 256 == 0:
            counts["sized_grids_multiple_of_256_cells"] = 1
        for j in range(K):
            if j + 1 >= len(dref) or dpol[j].tobytes() != dref[j + 1].tobytes():
                k_ = int(np.argmax(dpol[j] != dref[j + 1])) if j + 1 < len(dref) else -1
                bad.append({"what": "sized trajectory: a record differs from the state after its step", "record": j, "entry": k_,
                            "got": float(dpol[j][k_]) if k_ >= 0 else None, "expected": float(dref[j + 1][k_]) if k_ >= 0 else None,
                            "grid": [w, h, d], "species": S, "records": K, "values": int(dpol.size), "engine": kind_, "case": case})
                break
        # the per-iteration reference itself against the live state read through the raw export after each step
        for j in range(min(len(dref), len(raw))):
            live = raw[j]
            if live.tobytes() != dref[j].tobytes():
                bad.append({"what": "sized trajectory: a per-iteration record differs from the live state read through the raw export", "record": j,
                            "grid": [w, h, d], "species": S, "engine": kind_, "case": case})
                break
    return {"bad": bad[:3], "counts": counts, "key": chash(["sized", sd, idx]), "nontrivial": True,
            "sample": {"seed": sd, "idx": idx, "grid": [w, h, d], "species": S, "records": K, "engine": kind_}}


def run_many_requests(case):
    """a long but valid list of requested times (60 000 - 100 001 values, several per step, some repeated): one record per step
    that covers at least one of them, and the whole run returns within the CPU budget of this workload (60 s; it needs about 2)"""
    use_repo()
    engines.install()
    import strengths as st
    sd, idx = case["seed"], case["idx"]
    r = gen.rng_for(sd, "C09many", idx)
    nsteps = r.choice([6000, 10000])
    per = r.choice([6, 10])
    dt = 2.0 ** -10
    ts = sorted([dt * (k + j / per) for k in range(nsteps) for j in range(per)] + [dt * nsteps] + [dt * r.randint(0, nsteps) for _ in range(50)])
    kind_ = engines.KINDS[idx % 2]          # euler, tauleap
    net = st.RDNetwork([st.Species("A", D=0.3, density=0)], [st.Reaction("A -> ", kf=0.2, kr=0.0)])
    system = st.RDSystem(net, st.RDGridSpace(w=2, h=1, d=1), state=[1000.0, 10.0])
    script = st.RDScript(system, t_sample=ts if r.random() < 0.5 else np.array(ts), time_step=dt, sampling_policy="on_t_sample", rng_seed=5,
                         init_state_processing="none")
    out = st.simulate_script(script, engines.get(kind_))
    T = [float(x) for x in out.t.value]
    bad = []
    want = [dt * k for k in range(nsteps + 1)]
    if T != want:
        k = next((k for k, (a, b) in enumerate(zip(T, want)) if a != b), min(len(T), len(want)))
        bad.append({"what": "many requested times: the records are not one per step covering a request", "requested": len(ts), "records": len(T),
                    "expected_records": len(want), "first_difference": k, "engine": kind_, "case": case})
    return {"bad": bad, "counts": {"many_request_runs": 1, "requested_times": len(ts)}, "key": chash(["many", sd, idx]), "nontrivial": True,
            "sample": {"seed": sd, "idx": idx, "requested_times": len(ts), "steps": nsteps, "engine": kind_}}


def run_case(case):
    use_repo()
    engines.install()
    import strengths as st
    sd, idx = case["seed"], case["idx"]
    desc = gen_case(sd, idx)
    r = gen.rng_for(sd, "C09r", idx)
    ctx = {"case": {"seed": sd, "idx": idx}}
    bad, counts = [], {}

    def cnt(k, n_=1):
        counts[k] = counts.get(k, 0) + n_

    def fail(what, **kw):
        bad.append({"what": what, **kw, **ctx})
    S, n = len(desc["species"]), gen.ncells(desc["space"])
    state = gen.state_of(desc)
    chst = gen.chemostats_of(desc)
    rd = gen.Rendering(r, molecule_state=True)
    system = gen.render_system(desc, rd)
    kind_ = r.choice(engines.KINDS)
    policy = r.choice(["on_t_sample", "on_t_sample", "on_interval", "on_iteration", "no_sampling"])
    _, mag = ref.rate_law(desc, state, None)
    a_tot = max(sum(mag), 1e-6)
    maxrate = ref.max_rate(desc, state)
    nsteps_target = r.choice([3, 10, 40, 120])
    if kind_ == "gillespie":
        dt = nsteps_target and (1.0 / a_tot)       # mean waiting time: horizon ~ nsteps events
    else:
        dt = 0.02 / maxrate * r.choice([1.0, 0.37, 2.5])
    dyadic = kind_ != "gillespie" and r.random() < 0.15
    if dyadic:
        # a step that is a power of two (in seconds, the script counting in seconds): step times n*dt are exact, so requested
        # times can coincide EXACTLY with step times - repeated ones, and clusters ending on a step time
        dt = 2.0 ** math.floor(math.log2(dt))
    ts, style = sample_times(r, dt, nsteps_target)
    if dyadic:
        k1, k2 = r.randint(0, nsteps_target), r.randint(0, nsteps_target)
        ts = sorted(ts + [0.0, 0.0, dt * k1, dt * k1, dt * k2, dt * (k2 - 0.5) if k2 else 0.0, dt * k2])
        style += "+exact-duplicates"
    tmax_mode = r.choice(["default", "default", "before", "after", "inside"])
    if tmax_mode == "default":
        tmax = "default"
        tmax_si = ts[-1]
    else:
        tmax_si = {"before": ts[-1] * r.uniform(0.3, 0.95), "after": ts[-1] * r.uniform(1.05, 1.6) + dt,
                   "inside": dt * (r.randint(0, nsteps_target) + r.choice([0.0, 0.5]))}[tmax_mode]
        tmax = tmax_si
    # also intervals far below the step (the ratio t/interval then exceeds 2^31: every step crosses a multiple)
    interval_si = dt * r.choice([0.5, 1.0, 1.7, 3.0, 7.3, 1e-3, 1e-10, 1e-12, 1e-22, 1e-200])      # down to t/interval far beyond 2^63
    ms = gen.mild_sys(r)
    usys = (ms[0], r.choice(["s", "s", "ms", "min", "ds", "µs"]), "molecule")
    if dyadic:
        usys = (ms[0], "s", "molecule")
    sseed = r.randrange(2 ** 31)
    tsc = float(si.TIME[usys[1]])
    t_in_other_unit = r.random() < 0.3 and not dyadic
    via_setters = r.random() < 0.35
    from strengths import RDScript, UnitsSystem, UnitArray

    def mk(policy_):
        kw = dict(system=system, sampling_policy=policy_, rng_seed=sseed, init_state_processing="none",
                  units_system=UnitsSystem(**si.sys_dict(usys)))
        rr = gen.rng_for(sd, "C09q", idx)      # same surface forms for every policy

        def tq(x):
            if rr.random() < 0.5 or dyadic:
                return float(x / tsc)
            own = rr.choice(["s", "ms", "min", "µs", "ds"])
            return "%r %s" % (float(x / float(si.TIME[own])), own)
        kw["time_step"] = tq(dt)
        kw["sampling_interval"] = tq(interval_si)
        if tmax != "default":
            kw["t_max"] = tq(tmax)
        if t_in_other_unit:
            own = rr.choice(["ms", "min", "ds"])
            kw["t_sample"] = UnitArray([float(x / float(si.TIME[own])) for x in ts], own)
        else:
            kw["t_sample"] = [float(x / tsc) for x in ts]
        if via_setters:
            # construct with other values, then assign the real ones through the property setters (a script object is
            # mutable: what it holds when it is run is what counts, defaults such as t_max must follow)
            kw0 = dict(kw)
            kw0["t_sample"] = [0.0, 3.0 * float(ts[-1] / tsc) + 1.0]
            kw0["time_step"] = float(dt / tsc) * 3.3
            kw0["sampling_interval"] = float(dt / tsc) * 11.0
            kw0["sampling_policy"] = "on_iteration" if policy_ != "on_iteration" else "on_t_sample"
            sc = RDScript(**kw0)
            sc.t_max                        # reading a derived value must not freeze it
            names = ["t_sample", "time_step", "sampling_interval", "sampling_policy"]
            gen.rng_for(sd, "C09set", idx).shuffle(names)
            for nm in names:
                setattr(sc, nm, kw[nm])
            refused_assignments(sc, kw)
            _scribble(kw["t_sample"])
            return sc
        sc = RDScript(**kw)
        refused_assignments(sc, kw)
        _scribble(kw["t_sample"])           # the script owns its requested times: the caller's container is the caller's
        return sc

    def held(sc):
        return (repr(sc.t_max), repr(sc.time_step), repr(sc.sampling_interval), sc.sampling_policy,
                [float(x) for x in sc.t_sample.value], repr(sc.t_sample.units), sc.rng_seed, sc.init_state_processing)

    def refused_assignments(sc, kw):
        """assignments the script must refuse (wrong dimension, not a quantity): a refused assignment leaves the script as it was"""
        rq = gen.rng_for(sd, "C09refuse", idx)
        if rq.random() > 0.3:
            return
        for _ in range(rq.randint(1, 3)):
            nm, val = rq.choice([("t_max", "2 µm"), ("t_max", "abc s"), ("t_max", [1.0, 2.0]), ("time_step", "3 mol"),
                                 ("time_step", "fast"), ("sampling_interval", "1 µm2/s"), ("sampling_interval", "often"),
                                 ("t_sample", "now and then"), ("t_sample", UnitArray([0.0, 1.0], "µm"))])
            before = held(sc)
            try:
                setattr(sc, nm, val)
            except Exception:
                cnt("refused_assignments")
                if held(sc) != before:
                    fail("a refused assignment changed the script", field=nm, value=repr(val), before=str(before)[:300], after=str(held(sc))[:300])
            else:
                # accepted (whether it should have been is C20's subject): put the valid value back
                setattr(sc, nm, kw[nm] if nm in kw else "default")
    try:
        script_ref = mk("on_iteration")
        script = mk(policy)
    except Exception as e:
        fail("valid script rejected", error="%s: %s" % (type(e).__name__, e))
        return {"key": chash([desc, idx]), "nontrivial": False, "counts": counts, "bad": bad, "sample": None}
    # engine-side doubles of the time quantities (engine time unit == script time unit)
    eus = UnitsSystem(**si.sys_dict(usys))
    taus = [float(x) for x in script.t_sample.convert(eus).value]
    tmax_e = float(script.t_max.convert(eus).value)
    dt_e = float(script.time_step.convert(eus).value)
    I_e = float(script.sampling_interval.convert(eus).value)
    for name, got, want in (("t_sample", taus, [x / tsc for x in ts]), ("t_max", [tmax_e], [tmax_si / tsc]),
                            ("time_step", [dt_e], [dt / tsc]), ("sampling_interval", [I_e], [interval_si / tsc])):
        for g, w in zip(got, want):
            cnt("time_quantity_checks")
            if abs(g - w) > 1e-12 * abs(w):
                fail("script time quantity has the wrong physical value", field=name, got=g, expected=w)
    if bad:
        return {"key": chash([desc, idx]), "nontrivial": False, "counts": counts, "bad": bad[:5], "sample": None}

    # ---------------- reference run: on_iteration, one iterate() at a time ----------------
    eng = simhelp.kept_engine(kind_)
    eng.setup(script_ref)
    T_raw, X_raw = [raw_time(eng)], [raw_state(eng, S, n)]
    complete_at = None
    prog_bad = None
    for k in range(1, CAP + 1):
        cont = eng.iterate()
        T_raw.append(raw_time(eng))
        X_raw.append(raw_state(eng, S, n))
        comp = eng.is_complete()
        if comp != (not cont):
            fail("is_complete() disagrees with the value returned by iterate()", step=k)
        if tmax_e > 0:
            p = eng.get_progress()
            want_p = 100.0 * T_raw[-1] / tmax_e
            if abs(p - want_p) > 1e-9 * abs(want_p):
                prog_bad = (k, p, want_p)
        if not cont:
            complete_at = k
            break
    out = eng.get_output()
    eng.finalize()
    if prog_bad:
        fail("get_progress() is not 100*t/t_max", step=prog_bad[0], got=prog_bad[1], expected=prog_bad[2])
    # a Gillespie run with nothing left to do flags completion without making a step
    dead_end = False
    if complete_at is not None and T_raw[-1] == T_raw[-2] if len(T_raw) > 1 else False:
        dead_end = True
        T_raw.pop()
        X_raw.pop()
    T = np.array(out.t.value, dtype=float)
    D = np.array(out.data.value, dtype=float)
    cnt("reference_runs")
    if D.size != len(T) * S * n:
        fail("len(data) != nsamples*nspecies*ncells", data_len=int(D.size), nsamples=len(T), S=S, n=n, policy="on_iteration")
        return {"key": chash([desc, idx]), "nontrivial": True, "counts": counts, "bad": bad[:5], "sample": None}
    X = D.reshape(len(T), S * n)
    # on_iteration: every step recorded, in (sample, species, cell) order, on the engine's clock
    if len(T) != len(T_raw):
        fail("on_iteration: number of records differs from number of steps (+1 for t=0)", records=len(T), steps=len(T_raw) - 1,
             engine=kind_)
    else:
        cnt("on_iteration_records", len(T))
        if T.tobytes() != np.array(T_raw).tobytes():
            fail("on_iteration: recorded times differ from the engine clock read after each step", engine=kind_)
        if X.tobytes() != np.array(X_raw).tobytes():
            j = next(j for j in range(len(T)) if X[j].tobytes() != X_raw[j].tobytes())
            fail("on_iteration: recorded state differs from the live state read after that step (order sample,species,cell)",
                 sample=j, engine=kind_, got=X[j].tolist()[:12], live=X_raw[j].tolist()[:12])
    if X.shape[0] and X[0].tobytes() != np.array(state, dtype=float).tobytes():
        fail("record at t=0 is not the (unprocessed, 'none') initial state in species-major order",
             got=X[0].tolist()[:12], expected=state[:12])
    if len(T) and T[0] != 0.0:
        fail("first record is not at t=0 under on_iteration", t0=float(T[0]))
    if np.any(np.diff(T) <= 0):
        fail("times not strictly increasing under on_iteration", engine=kind_)
    # fixed-step clock and completion
    K = len(T) - 1
    if kind_ != "gillespie":
        for k in range(len(T)):
            cnt("fixed_step_clock_checks")
            if abs(T[k] - k * dt_e) > 1e-12 * max(k, 1) * dt_e * 4:
                fail("fixed-step run: step time is not n*dt", step=k, got=float(T[k]), expected=k * dt_e)
                break
        if complete_at is not None:
            cnt("completion_checks")
            if not (T[K] > tmax_e and (K == 0 or T[K - 1] <= tmax_e)):
                fail("fixed-step run does not complete exactly at the first step beyond t_max", t_max=tmax_e,
                     last=float(T[K]), before_last=float(T[K - 1]) if K else None, tmax_mode=tmax_mode)
            if complete_at != K:
                fail("completion reported at a different iteration than the last step", complete_at=complete_at, steps=K)
        elif tmax_e / dt_e < CAP - 2:
            fail("fixed-step run not complete after ceil(t_max/dt)+1 iterations", t_max=tmax_e, dt=dt_e, iterations=CAP)
    else:
        if complete_at is not None:
            cnt("completion_checks")
            if not (T[K] > tmax_e):
                sc_a0 = sum(ref.propensity(ch, X[K].tolist()) for ch in ref.channels(desc, chst))
                if sc_a0 > 0:
                    fail("gillespie: completion reported although t <= t_max and events remain possible",
                         t=float(T[K]), t_max=tmax_e, a0=sc_a0)
            elif K and T[K - 1] > tmax_e:
                fail("gillespie: ran past the first event beyond t_max", t_max=tmax_e)
    steps_done = complete_at if complete_at is not None else CAP

    # ---------------- run under the policy, driven in chunks, optionally with manual sample() calls -----------
    manual = set()
    if policy == "no_sampling" or r.random() < 0.3:
        # explicit sample() after some steps (step index k means: after the k-th iterate; 0 = right after setup)
        manual = {k for k in range(0, steps_done + 1) if r.random() < (0.4 if policy == "no_sampling" else 0.15)}
    eng = simhelp.kept_engine(kind_)
    eng.setup(script)
    if 0 in manual:
        eng.sample()
    done = 0
    while done < steps_done:
        nxt = min([m for m in manual if m > done] + [steps_done])
        chunk = nxt - done if manual else min(steps_done - done, r.choice([1, 2, 5, 17, 1000]))
        if chunk == 1 and r.random() < 0.5:
            eng.iterate()
        else:
            eng.iterate_n(chunk)
        done += chunk
        if done in manual:
            eng.sample()
    if complete_at is not None and not eng.is_complete():
        fail("policy run not complete after the number of iterations that completed the on_iteration run", policy=policy)
    out = eng.get_output()
    nsamp = eng._count_samples()
    eng.finalize()
    t = np.array(out.t.value, dtype=float)
    d = np.array(out.data.value, dtype=float)
    cnt("policy_runs")
    cnt("policy_" + policy)
    if d.size != len(t) * S * n or nsamp != len(t) or out.nsamples() != len(t):
        fail("len(data) != nsamples*nspecies*ncells", data_len=int(d.size), nsamples=len(t), S=S, n=n, policy=policy)
        return {"key": chash([desc, idx]), "nontrivial": True, "counts": counts, "bad": bad[:5], "sample": None}
    x = d.reshape(len(t), S * n)
    Tl = [float(v) for v in T]
    index_of = {np.float64(v).tobytes(): k for k, v in enumerate(Tl)}
    rec_steps = []
    for j in range(len(t)):
        k = index_of.get(np.float64(t[j]).tobytes())
        cnt("records_matched")
        if k is None:
            fail("a record's time is not the time of any step of the run", policy=policy, sample=j, t=float(t[j]))
            break
        if x[j].tobytes() != X[k].tobytes():
            fail("a record does not hold the state at its step, in (species, cell) order", policy=policy, sample=j, step=k,
                 got=x[j].tolist()[:12], expected=X[k].tolist()[:12])
            break
        rec_steps.append(k)
    if not bad:
        if manual:
            if any(b < a for a, b in zip(rec_steps, rec_steps[1:])):
                fail("record times decrease (manual sample() calls mixed in)", policy=policy, steps=rec_steps[:20])
        elif any(b <= a for a, b in zip(rec_steps, rec_steps[1:])):
            fail("record times not strictly increasing / two records for one step", policy=policy, steps=rec_steps[:20])
        got = set(rec_steps)
        Tsteps = Tl
        if policy == "on_t_sample":
            permitted = set(expected_on_t_sample(Tsteps, taus))
            required = set(expected_on_t_sample(Tsteps, [x_ for x_ in taus if x_ <= tmax_e]))
            # a requested time <= t_max is owed a record only if a step at or after it exists (Gillespie may die early;
            # the iteration cap may cut the run): expected_on_t_sample already only yields existing steps
        elif policy == "on_interval":
            fl = [math.floor(v / I_e) for v in Tsteps]
            permitted = {0} | {k for k in range(1, len(fl)) if fl[k] > fl[k - 1]}
            required = set(permitted)
        elif policy == "on_iteration":
            permitted = set(range(len(Tsteps)))
            required = set(permitted)
        else:
            permitted, required = set(), set()
        m_eff = {min(k, len(Tsteps) - 1) for k in manual}   # iteration count -> step (a dead-end iterate makes no step)
        cnt("selection_checks")
        missing = sorted(required - got)
        extra = sorted(got - permitted - m_eff)
        # a manual sample() right after a policy record of the same step is a no-op: nothing to add
        miss_manual = sorted(m_eff - got)
        if missing:
            fail("a required record is missing", policy=policy, missing_steps=missing[:10], style=style, tmax_mode=tmax_mode,
                 step_times=[Tsteps[k] for k in missing[:5]], taus=taus[:12], t_max=tmax_e, interval=I_e, engine=kind_)
        if extra:
            fail("a record that neither the policy nor an explicit sample() call explains", policy=policy, extra_steps=extra[:10],
                 style=style, taus=taus[:12], t_max=tmax_e, interval=I_e, engine=kind_, manual=sorted(m_eff)[:10])
        if miss_manual:
            fail("an explicit sample() call did not record", policy=policy, steps=miss_manual[:10])
    key = chash([desc, kind_, policy, style, tmax_mode, bool(manual)])
    return {"key": key, "nontrivial": len(Tl) >= 3, "counts": counts, "bad": bad[:5],
            "sample": {"seed": sd, "idx": idx, "engine": kind_, "policy": policy, "style": style, "t_max": tmax_mode,
                       "requested": taus[:8], "dt": dt_e, "interval": I_e, "steps": len(Tl) - 1, "records": len(t),
                       "manual_sample_calls": len(manual), "time_unit": usys[1], "built_via_setters": via_setters}}


def main():
    if len(sys.argv) > 2 and sys.argv[1] == "--replay":
        import json
        c = json.load(open(sys.argv[2]))["witness"]["case"]
        res = run_case(c)
        print(json.dumps(res, indent=1, default=str))
        return 1 if res["bad"] else 0
    run = Run("C09",
              rule="random small systems x engine kind x sampling policy (on_t_sample weighted double) x request-list style "
                   "(off-grid, on-grid, clustered in one step, late start, duplicates, single, dense half-steps; with/without 0) x "
                   "t_max (default / before / after the last request / on or off the step grid) x time unit (s, ms, min, ds, us; "
                   "quantities bare or as strings in other units; t_sample optionally a UnitArray in another unit) x driving "
                   "(iterate / iterate_n chunks) x optional explicit sample() calls. Distinct = (system, engine, policy, style, "
                   "t_max mode, manual); non-trivial = the run made >= 2 steps.",
              assumptions=["the step sequence itself is taken from the same script under on_iteration (its own correctness: C01/C07/C08)",
                           "sorted request lists only (the quantifier lists sorted lists)"])
    run.require("reference_runs", "policy_on_t_sample", "policy_on_interval", "policy_on_iteration", "policy_no_sampling",
                "selection_checks", "completion_checks", "records_matched")
    thorough = tier() == "thorough"
    n_total = 100000 if thorough else 7200
    cases = [{"seed": seed(), "idx": i} for i in range(n_total)]
    res = pmap("vf.checks.c09:run_case", cases, cpu_budget=30)
    for c, r_ in zip(cases, res):
        if r_["status"] != "ok":
            if r_["status"] in ("crash", "hang"):
                run.violation("engine " + r_["status"], {"case": c, "result": {k: r_[k] for k in r_ if k != "i"}})
            elif r_["status"] == "exception":
                run.violation("harness exception", {"case": c, "error": r_.get("error"), "tb": r_.get("tb")})
            else:
                run.inconclusive_because("case %s: %s" % (c, r_["status"]))
            continue
        v = r_["value"]
        run.case(v["key"], nontrivial=v["nontrivial"], sample=v.get("sample"))
        for k, n_ in v["counts"].items():
            run.count(k, n_)
        for b in v["bad"]:
            run.violation(b["what"][:60], b, mech={"what": b["what"]})
    from vf.sandbox import run_extra as _run_extra
    _run_extra(run, "vf.checks.c09:run_sized", [{"seed": seed(), "idx": i} for i in range(300 if tier() == "thorough" else 40)], cpu_budget=300)
    run.require("sized_trajectories", "sized_trajectories_multiple_of_65536", "sized_grids_multiple_of_256_cells")
    _run_extra(run, "vf.checks.c09:run_many_requests", [{"seed": seed(), "idx": i} for i in range(12 if tier() == "thorough" else 2)], cpu_budget=60)
    run.require("many_request_runs")
    return run.finish()


if __name__ == "__main__":
    sys.exit(main())
