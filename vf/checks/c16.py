"""C16 - Coarse-graining conserves matter and geometry; un-coarse-graining inverts it.

Oracle: brute-force aggregation over the fine grid, computed from the SI description
(vf.gen) and the face list vf.ref.grid_faces: member lists, volumes, species totals,
environment, chemostat OR, shared faces, member centroids.  Nothing of
strengths.coarsegrain is used to compute an expectation.

Monitors (each case = one grid system + one index map):
  * coarsegrain_system(system, map): accepted when valid; node volumes / total volume,
    per-species group totals, group environment, chemostat flag, edge set, surfaces,
    centroid distances, no self-loop / duplicate / out-of-range edge;
  * invalid variants of the map (missing index, < -1, wrong length, mixed environments,
    non-int entry) must raise;
  * uncoarsegrain_trajectory on a hand-made coarse trajectory over an oracle-built coarse
    system: even spreading, group totals, zeros on dropped cells, fine shape, times;
  * simulate(..., engine=euler, cgmap=map): same structure, sample 0 = aggregated state,
    equal to the spread Euler run of the oracle-built coarse system;
  * simulate(..., engine=euler, cgmap=identity) == plain Euler run within 1e-12;
  * a grid with a periodic axis is refused (docstring) or, if accepted, has the edge set
    of the periodic face list.

VERIF_C16_SINGLE_ENV_DROPS=1 restricts dropped cells to one environment per map.
"""
import json
import numpy as np
import math
import os
import sys
from fractions import Fraction as Fr

from vf import gen, ref, si, engines
from vf.common import Run, seed, tier, use_repo, chash
from vf.sandbox import pmap

REL = 1e-12
REFL = {"x": "reflecting", "y": "reflecting", "z": "reflecting"}
KNOWN_DROP = "valid-map-rejected-dropped-cells-of-several-environments"


def single_env_drops():
    return os.environ.get("VERIF_C16_SINGLE_ENV_DROPS", "0") not in ("", "0")


# ---------------------------------------------------------------------------
# generation

def gen_dims(r):
    ndim = r.choice([1, 2, 3])
    if ndim == 1:
        sizes = [r.randint(2, 12)]
    elif ndim == 2:
        sizes = [r.randint(2, 6), r.randint(2, 6)]
    else:
        while True:
            sizes = [r.randint(2, 4) for _ in range(3)]
            if sizes[0] * sizes[1] * sizes[2] <= 40:
                break
    axes = r.sample([0, 1, 2], ndim)
    dims = [1, 1, 1]
    for a, s in zip(axes, sizes):
        dims[a] = s
    return ndim, dims


def gen_envs(r, nenv, dims):
    w, h, d = dims
    n = w * h * d
    u = r.random()
    if nenv == 1 or u < 0.2:
        return [r.randrange(nenv)] * n
    if u < 0.7:
        return [r.randrange(nenv) for _ in range(n)]
    # slabs / blocks along a random non-trivial axis, with a little noise
    ax = r.choice([a for a in range(3) if dims[a] > 1])
    cuts = sorted(r.randrange(dims[ax] + 1) for _ in range(nenv - 1))
    perm = r.sample(range(nenv), nenv)
    out = []
    for i in range(n):
        c = (i % w, (i // w) % h, i // (w * h))
        k = sum(1 for q in cuts if c[ax] >= q)
        out.append(perm[k] if r.random() > 0.1 else r.randrange(nenv))
    return out


def gen_desc(r, periodic=False):
    """rand_system for the network part, then a grid of a chosen dimensionality (1-D / 2-D / 3-D along
    random axes) with state / chemostats drawn as rand_system draws them."""
    desc = gen.rand_system(r, {"space": "grid", "grid": {"dims": (1, 1)},
                               "net": {"nreactions": (0, 2), "nenv": (1, 3), "chstt": 0.3}})
    nenv = len(desc["envs"])
    ndim, dims = gen_dims(r)
    env = gen_envs(r, nenv, dims)
    bc = dict(REFL)
    if periodic:
        axes = [a for a in "xyz"]
        for a in r.sample(axes, r.randint(1, 3)):
            bc[a] = "periodical"
    desc["space"] = {"type": "grid", "w": dims[0], "h": dims[1], "d": dims[2], "cell_env": env,
                     "cell_vol": desc["h"] ** 3 * r.uniform(0.5, 2.0), "bc": bc}
    n = len(env) * len(desc["species"])
    desc["state"] = None
    desc["chemostats"] = None
    if r.random() < 0.6:
        desc["state"] = [0.0 if r.random() < 0.2 else r.uniform(0, 200) for _ in range(n)]
    if r.random() < 0.6:
        p = r.choice([0.1, 0.3, 0.6])
        desc["chemostats"] = [int(r.random() < p) for _ in range(n)]
    return desc, ndim


def gen_map(r, env, single):
    """random partition WITHIN environment classes, dropped cells, ids 0..max shuffled; plain ints"""
    n = len(env)
    classes = {}
    for i, e in enumerate(env):
        classes.setdefault(e, []).append(i)
    dropped = set()
    if r.random() < 0.75:
        p = r.choice([0.1, 0.25, 0.5])
        if single:
            cand = classes[r.choice(sorted(classes))]
        else:
            cand = list(range(n))
        dropped = {i for i in cand if r.random() < p}
        if not single and len(classes) >= 2 and r.random() < 0.6:
            for e in r.sample(sorted(classes), 2):
                dropped.add(r.choice(classes[e]))
    if len(dropped) == n:
        dropped.discard(r.choice(sorted(dropped)))
    groups = []
    u = r.random()
    for e in sorted(classes):
        kept = [i for i in classes[e] if i not in dropped]
        if not kept:
            continue
        if u < 0.12:
            groups += [[i] for i in kept]                      # all singletons
        elif u < 0.22:
            groups.append(kept)                                # one group per environment
        else:
            k = r.randint(1, len(kept))
            if r.random() < 0.5:
                k = min(k, 3)
            lab = [r.randrange(k) for _ in kept]
            for q in range(k):
                g = [c for c, l in zip(kept, lab) if l == q]
                if g:
                    groups.append(g)
    r.shuffle(groups)
    cmap = [-1] * n
    for gid, g in enumerate(groups):
        for c in g:
            cmap[c] = int(gid)
    return cmap


def compact(cmap):
    """relabel so that every id of 0..max is present (keeps the partition)"""
    ids = sorted({g for g in cmap if g >= 0})
    rel = {g: k for k, g in enumerate(ids)}
    return [rel[g] if g >= 0 else -1 for g in cmap]


def invalid_variants(r, cmap, env):
    out = []
    mx = max(cmap)
    g = r.randint(0, mx)
    out.append(("missing-index", [v + 1 if v >= g else v for v in cmap]))
    m = list(cmap)
    m[r.randrange(len(m))] = r.choice([-2, -2, -3, -7])
    out.append(("below-minus-one", m))
    k = r.randrange(4)
    if k == 0 and len(cmap) > 1:
        m = list(cmap[:-1])
    elif k == 1:
        m = list(cmap) + [r.randint(0, mx)]
    elif k == 2:
        m = list(cmap) + [-1]
    else:
        m = list(cmap) + [r.randint(0, mx) for _ in range(r.randint(2, 5))]
    out.append(("wrong-length", m))
    pairs = [(i, j) for i in range(len(cmap)) for j in range(len(cmap)) if cmap[j] >= 0 and env[i] != env[j]]
    if pairs:
        i, j = r.choice(pairs)
        m = list(cmap)
        m[i] = m[j]
        out.append(("mixed-environments", compact(m)))
    m = list(cmap)
    k = r.randrange(len(m))
    v = m[k]
    m[k] = r.choice([v + 0.5, str(v), None, 0.25])
    out.append(("non-int-entry", m))
    return out


def gen_case(case):
    sd, idx = case["seed"], case["idx"]
    r = gen.rng_for(sd, "C16", idx)
    periodic = bool(case.get("periodic"))
    desc, ndim = gen_desc(r, periodic)
    env = desc["space"]["cell_env"]
    if case.get("identity_static"):
        cmap = list(range(len(env)))
    else:
        cmap = gen_map(r, env, bool(case.get("single", single_env_drops())))
    return desc, ndim, cmap


# ---------------------------------------------------------------------------
# oracle

def oracle(desc, cmap):
    sp = desc["space"]
    n = gen.ncells(sp)
    S = len(desc["species"])
    cv = sp["cell_vol"]
    h = cv ** (1.0 / 3.0)
    G = max(cmap) + 1
    members = [[] for _ in range(G)]
    for i, g in enumerate(cmap):
        if g >= 0:
            members[g].append(i)
    env = [sp["cell_env"][m[0]] for m in members]
    state = gen.state_of(desc)
    chst = gen.chemostats_of(desc)
    tot = [[math.fsum(state[s * n + i] for i in members[g]) for g in range(G)] for s in range(S)]
    flag = [[int(any(chst[s * n + i] for i in members[g])) for g in range(G)] for s in range(S)]
    shared = {}
    for (i, j) in ref.grid_faces(sp):
        if i < j and cmap[i] >= 0 and cmap[j] >= 0 and cmap[i] != cmap[j]:
            k = (min(cmap[i], cmap[j]), max(cmap[i], cmap[j]))
            shared[k] = shared.get(k, 0) + 1
    cen = []
    for m in members:
        cs = [ref.grid_coords(sp, i) for i in m]
        cen.append(tuple(Fr(sum(c[a] for c in cs), len(cs)) for a in range(3)))
    dist = {}
    for (a, b) in shared:
        d2 = sum((cen[a][q] - cen[b][q]) ** 2 for q in range(3))
        dist[(a, b)] = h * math.sqrt(float(d2))
    return {"n": n, "S": S, "G": G, "h": h, "cv": cv, "members": members, "env": env, "tot": tot, "flag": flag,
            "shared": shared, "dist": dist, "state": state, "chst": chst,
            "dropped": [i for i, g in enumerate(cmap) if g < 0]}


def coarse_desc(desc, o):
    """the coarse system as an SI graph description (input of gen.render_system / ref.rate_law)"""
    nodes = [{"vol": len(m) * o["cv"], "env": e} for m, e in zip(o["members"], o["env"])]
    edges = [{"i": a, "j": b, "sfc": k * o["h"] ** 2, "dst": o["dist"][(a, b)]} for (a, b), k in sorted(o["shared"].items())]
    return {"envs": desc["envs"], "species": desc["species"], "reactions": desc["reactions"], "h": desc["h"],
            "space": {"type": "graph", "nodes": nodes, "edges": edges},
            "state": [x for row in o["tot"] for x in row], "chemostats": [x for row in o["flag"] for x in row]}


def uv_si(uv, dim):
    d3 = si.dim_of(uv.units.dim)
    if d3 != dim:
        raise ValueError("dimension %s, expected %s" % (d3, dim))
    return float(uv.value) * float(si.scale(si.sys_of(uv.units.sys), d3))


def arr_si(ua, dim):
    d3 = si.dim_of(ua.units.dim)
    if d3 != dim:
        raise ValueError("dimension %s, expected %s" % (d3, dim))
    f = float(si.scale(si.sys_of(ua.units.sys), d3))
    return [float(x) * f for x in ua.value]


def err(e):
    return "%s: %s" % (type(e).__name__, str(e)[:300])


# ---------------------------------------------------------------------------
# monitors

def check_coarse_system(cg, o, cnt, geometry_only=False, periodic=False):
    """cg: the repository's coarse RDSystem (or RDGraphSpace when geometry_only)"""
    bad = []
    space = cg if geometry_only else cg.space
    G, S = o["G"], o["S"]
    if type(space).__name__ != "RDGraphSpace" or space.size() != G:
        return [{"what": "shape: coarse space is not a graph of max(map)+1 nodes", "got": [type(space).__name__, space.size()],
                 "expected_nodes": G}]
    if not periodic:
        # volumes
        vols = [uv_si(nd.volume, (3, 0, 0)) for nd in space.nodes]
        for g in range(G):
            want = len(o["members"][g]) * o["cv"]
            cnt["volume_checks"] += 1
            if not abs(vols[g] - want) <= REL * want:
                bad.append({"what": "volume: node volume is not members x cell volume", "group": g, "got": vols[g], "expected": want})
                break
        want = (o["n"] - len(o["dropped"])) * o["cv"]
        cnt["volume_checks"] += 1
        if not abs(math.fsum(vols) - want) <= REL * want:
            bad.append({"what": "volume: total volume over retained cells not conserved", "got": math.fsum(vols), "expected": want})
        # environments
        for g in range(G):
            cnt["env_checks"] += 1
            if space.nodes[g].environment != o["env"][g]:
                bad.append({"what": "group-environment: differs from the members' environment", "group": g,
                            "got": space.nodes[g].environment, "expected": o["env"][g]})
                break
    # edges
    got = {}
    structural = False
    for e in space.edges:
        a, b = int(e.i), int(e.j)
        cnt["edge_structure_checks"] += 1
        if not (0 <= a < G and 0 <= b < G):
            bad.append({"what": "edge-set: edge endpoint out of range", "edge": [a, b]})
            structural = True
            continue
        if a == b:
            bad.append({"what": "self-loop: edge from a group to itself", "edge": [a, b]})
            structural = True
            continue
        k = (min(a, b), max(a, b))
        if k in got:
            bad.append({"what": "duplicate-edge: the same pair of groups twice", "edge": [a, b]})
            structural = True
            continue
        got[k] = e
    cnt["edge_set_checks"] += 1
    miss = sorted(set(o["shared"]) - set(got))
    extra = sorted(set(got) - set(o["shared"]))
    if miss or extra:
        bad.append({"what": "edge-set: edges differ from 'groups sharing at least one face'", "missing": miss[:6], "extra": extra[:6]})
    for k in sorted(set(got) & set(o["shared"])):
        e = got[k]
        want = o["shared"][k] * o["h"] ** 2
        sfc = uv_si(e.surface, (2, 0, 0))
        cnt["surface_checks"] += 1
        if not abs(sfc - want) <= REL * want:
            bad.append({"what": "edge-surface: not shared faces x h^2", "edge": list(k), "shared_faces": o["shared"][k],
                        "got_over_h2": sfc / o["h"] ** 2})
            break
    if not periodic:
        span = o["h"] * 16.0
        for k in sorted(set(got) & set(o["shared"])):
            dst = uv_si(got[k].distance, (1, 0, 0))
            want = o["dist"][k]
            cnt["distance_checks"] += 1
            if not abs(dst - want) <= REL * (want + span):
                bad.append({"what": "edge-distance: not the distance between member centroids", "edge": list(k),
                            "got_over_h": dst / o["h"], "expected_over_h": want / o["h"]})
                break
    if geometry_only:
        return bad
    # matter
    if cg.network.nspecies() != S:
        bad.append({"what": "shape: number of species changed", "got": cg.network.nspecies()})
        return bad
    st_ = arr_si(cg.state, (0, 0, 1))
    ch = [int(x) for x in cg.chemostats]
    if len(st_) != S * G or len(ch) != S * G:
        bad.append({"what": "shape: coarse state / chemostat length is not nspecies x ngroups", "got": [len(st_), len(ch)],
                    "expected": S * G})
        return bad
    n = o["n"]
    for s in range(S):
        mags = [math.fsum(abs(o["state"][s * n + i]) for i in o["members"][g]) for g in range(G)]
        hit = False
        for g in range(G):
            cnt["species_total_checks"] += 1
            if not abs(st_[s * G + g] - o["tot"][s][g]) <= REL * mags[g]:
                bad.append({"what": "species-total: group amount is not the sum over members", "species": s, "group": g,
                            "got": st_[s * G + g], "expected": o["tot"][s][g]})
                hit = True
                break
        want = math.fsum(o["tot"][s])
        cnt["species_total_checks"] += 1
        if not hit and not abs(math.fsum(st_[s * G:(s + 1) * G]) - want) <= REL * math.fsum(mags):
            bad.append({"what": "species-total: total over retained cells not conserved", "species": s,
                        "got": math.fsum(st_[s * G:(s + 1) * G]), "expected": want})
        for g in range(G):
            cnt["chemostat_checks"] += 1
            if ch[s * G + g] != o["flag"][s][g]:
                bad.append({"what": "chemostat-flag: not the OR over members", "species": s, "group": g,
                            "got": ch[s * G + g], "expected": o["flag"][s][g],
                            "member_flags": [o["chst"][s * n + i] for i in o["members"][g]][:12]})
                break
    return bad


def check_fine_data(name, tsi, data_si, o, cmap, coarse_si, tol_rel, tol_abs, cnt, counter):
    """data_si[k][s][i] (fine) against coarse_si[k][s][g] spread evenly; dropped cells exactly zero"""
    bad = []
    n, S = o["n"], o["S"]
    for k in range(len(coarse_si)):
        for s in range(S):
            row = data_si[k][s]
            for i in o["dropped"]:
                cnt[counter] += 1
                if not row[i] == 0.0:
                    bad.append({"what": name + ": dropped cell is not zero", "sample": k, "species": s, "cell": i, "got": row[i]})
                    return bad
            for g, mem in enumerate(o["members"]):
                c = coarse_si[k][s][g]
                want = c / len(mem)
                cnt[counter] += 1
                for i in mem:
                    if not abs(row[i] - want) <= tol_rel * abs(want) + tol_abs:
                        bad.append({"what": name + ": member value is not the group's value / group size", "sample": k, "species": s,
                                    "group": g, "cell": i, "group_size": len(mem), "got": row[i], "expected": want})
                        return bad
                tot = math.fsum(row[i] for i in mem)
                if not abs(tot - c) <= tol_rel * abs(c) + tol_abs * len(mem):
                    bad.append({"what": name + ": group total not preserved", "sample": k, "species": s, "group": g,
                                "got": tot, "expected": c})
                    return bad
    return bad


def traj_si(tr, n_expected, S):
    """(times in s, data[k][s][i] in molecules) of an RDTrajectory; raises ValueError on a wrong shape"""
    t = arr_si(tr.t, (0, 1, 0))
    d = arr_si(tr.data, (0, 0, 1))
    ns = len(t)
    if tr.system.space.size() != n_expected:
        raise ValueError("trajectory system has %d cells, expected %d" % (tr.system.space.size(), n_expected))
    if tr.system.network.nspecies() != S:
        raise ValueError("trajectory system has %d species, expected %d" % (tr.system.network.nspecies(), S))
    if len(d) != ns * S * n_expected:
        raise ValueError("data length %d, expected nsamples %d x nspecies %d x ncells %d" % (len(d), ns, S, n_expected))
    data = [[d[(k * S + s) * n_expected:(k * S + s + 1) * n_expected] for s in range(S)] for k in range(ns)]
    return t, data


def finite(data):
    return all(math.isfinite(x) for k in data for row in k for x in row)


def max_rate(desc):
    return ref.max_rate(desc, gen.state_of(desc))       # (also the per-molecule rates of species that are absent at first)


# ---------------------------------------------------------------------------

def run_case(case):
    use_repo()
    engines.install()
    import strengths as st
    from strengths import coarsegrain as cgm
    sd, idx = case["seed"], case["idx"]
    desc, ndim, cmap = gen_case(case)
    sp = desc["space"]
    env = sp["cell_env"]
    r = gen.rng_for(sd, "C16r", idx)
    ctx = {"case": dict(case), "grid": [sp["w"], sp["h"], sp["d"]], "cell_env": env, "map": cmap}
    cnt = {k: 0 for k in ("valid_maps", "maps_accepted", "volume_checks", "env_checks", "species_total_checks",
                          "chemostat_checks", "edge_set_checks", "edge_structure_checks", "surface_checks",
                          "distance_checks", "invalid_maps_rejected", "uncoarsegrain_checks", "cgmap_sim_checks",
                          "identity_checks", "periodic_refused", "periodic_accepted", "maps_dropping_several_envs",
                          "maps_with_drops", "nonfinite_skipped", "zero_distance_sim_skipped")}
    bad = []
    o = oracle(desc, cmap)
    sizes = [len(m) for m in o["members"]]
    drop_envs = sorted({env[i] for i in o["dropped"]})
    info = {"key": chash([sp["w"], sp["h"], sp["d"], env, cmap]),
            "nontrivial": bool(o["G"] >= 2 and max(sizes) >= 2) and not case.get("periodic"),
            "ndim": ndim, "counts": cnt}
    info["sample"] = {"seed": sd, "idx": idx, "grid": [sp["w"], sp["h"], sp["d"]], "cell_env": env, "map": cmap,
                      "ngroups": o["G"], "group_sizes": sizes[:12], "dropped_cells": len(o["dropped"]),
                      "dropped_envs": drop_envs, "nspecies": o["S"], "edges": len(o["shared"])}

    def done():
        for b in bad:
            b.update(ctx)
        info["bad"] = bad[:6]
        return info

    try:
        system = gen.render_system(desc, gen.Rendering(r))
    except Exception as e:
        bad.append({"what": "exception: valid system rejected by the constructors", "error": err(e)})
        return done()

    # ---- periodic grids: refused (docstring), or right -------------------------------
    if case.get("periodic"):
        try:
            g = cgm.coarsegrain_grid(system.space, list(cmap))
        except Exception:
            cnt["periodic_refused"] += 1
            return done()
        cnt["periodic_accepted"] += 1
        bad += check_coarse_system(g, o, cnt, geometry_only=True, periodic=True)
        return done()

    # ---- static: coarsegrain_system against brute force ------------------------------
    cnt["valid_maps"] += 1
    if o["dropped"]:
        cnt["maps_with_drops"] += 1
    if len(drop_envs) >= 2:
        cnt["maps_dropping_several_envs"] += 1
    accepted = False
    try:
        cg = cgm.coarsegrain_system(system, list(cmap))
        accepted = True
        cnt["maps_accepted"] += 1
    except Exception as e:
        what = "valid-map-rejected"
        if len(drop_envs) >= 2:
            # discriminating experiment: keep the drops of one environment, make the others singleton groups
            m2, nxt = list(cmap), max(cmap) + 1
            for i in o["dropped"]:
                if env[i] != drop_envs[0]:
                    m2[i] = nxt
                    nxt += 1
            try:
                cgm.coarsegrain_system(system, m2)
                what = KNOWN_DROP
            except Exception:
                pass
        bad.append({"what": what, "error": err(e), "dropped_envs": drop_envs})
    if accepted:
        try:
            bad += check_coarse_system(cg, o, cnt)
            if r.random() < 0.3:
                bad += check_coarse_system(cgm.coarsegrain_grid(system.space, list(cmap)), o, cnt, geometry_only=True)
        except Exception as e:
            bad.append({"what": "exception: reading the coarse system", "error": err(e)})

    # ---- invalid variants must raise --------------------------------------------------
    variants = invalid_variants(r, cmap, env)
    ninv = int(case.get("ninv", len(variants)))
    if ninv < len(variants):
        variants = gen.rng_for(sd, "C16i", idx).sample(variants, ninv)
    for name, m in variants:
        try:
            if r.random() < 0.5:
                cgm.coarsegrain_system(system, m)
            else:
                cgm.coarsegrain_grid(system.space, m)
            bad.append({"what": "invalid-map-accepted: " + name, "variant": name, "invalid_map": m})
        except Exception:
            cnt["invalid_maps_rejected"] += 1

    # ---- un-coarse-graining of a hand-made coarse trajectory -------------------------
    cdesc = coarse_desc(desc, o)
    n, S, G = o["n"], o["S"], o["G"]
    try:
        csys = gen.render_system(cdesc, gen.Rendering(r))
        ns = r.randint(1, 4)
        if r.random() < 0.06 and S * G <= 40:
            ns = r.choice([255, 256, 257, 300, 513, 700])      # more samples than a block of 256 (the last partial block matters)
            cnt["uncoarsegrain_long_trajectories"] = cnt.get("uncoarsegrain_long_trajectories", 0) + 1
        qu = r.choice(["mol", "mmol", "µmol", "nmol", "pmol", "fmol", "molecule"])
        tu = r.choice(["h", "min", "s", "ms", "µs"])
        vals = [0.0 if r.random() < 0.15 else r.uniform(0, 500) * 10 ** r.randint(-3, 3) for _ in range(ns * S * G)]
        if r.random() < 0.08:
            # amounts of extreme but finite magnitude (spreading a value over n members is value / n: nothing to overflow or to
            # lose to subnormals, whatever the cell volumes are in their units)
            e_ = r.choice([-1, 1]) * r.uniform(295, 303)
            vals = [0.0 if r.random() < 0.15 else r.uniform(1, 9) * 10.0 ** e_ for _ in range(ns * S * G)]
            qu = "molecule"
            cnt["uncoarsegrain_extreme_amounts"] = cnt.get("uncoarsegrain_extreme_amounts", 0) + 1
        t0 = r.uniform(0, 5)
        times = [t0]
        for _ in range(ns - 1):
            times.append(times[-1] + r.uniform(0.01, 3))
        traj = st.RDTrajectory(st.UnitArray(vals, qu), st.UnitArray(times, tu), csys)
        out = cgm.uncoarsegrain_trajectory(traj, system, list(cmap))
        # the coarse trajectory is the caller's: it is still what it was, and spreading it a second time gives the same
        if [float(x) for x in traj.data.value] != [float(x) for x in vals] or [float(x) for x in traj.t.value] != [float(x) for x in times]:
            bad.append({"what": "uncoarsegrain: the coarse-grained trajectory handed in was modified", "first_values_now": [float(x) for x in traj.data.value][:6],
                        "first_values_given": vals[:6]})
        else:
            out2 = cgm.uncoarsegrain_trajectory(traj, system, list(cmap))
            cnt["uncoarsegrain_repeated"] = cnt.get("uncoarsegrain_repeated", 0) + 1
            if np.asarray(out2.data.value, dtype=float).tobytes() != np.asarray(out.data.value, dtype=float).tobytes():
                bad.append({"what": "uncoarsegrain: spreading the same coarse trajectory a second time gives other values"})
        qs, ts = float(si.QUANTITY[qu]), float(si.TIME[tu])
        coarse = [[[vals[(k * S + s) * G + g] * qs for g in range(G)] for s in range(S)] for k in range(ns)]
        try:
            t_out, d_out = traj_si(out, n, S)
        except ValueError as e:
            bad.append({"what": "shape: un-coarse-grained trajectory is not nsamples x nspecies x fine cells", "error": err(e)})
        else:
            if type(out.system.space).__name__ != "RDGridSpace":
                bad.append({"what": "shape: un-coarse-grained trajectory does not carry the fine system"})
            cnt["uncoarsegrain_checks"] += 1
            if len(t_out) != ns or any(not abs(a - b * ts) <= REL * abs(b * ts) for a, b in zip(t_out, times)):
                bad.append({"what": "uncoarsegrain-times: sample times changed", "got": t_out, "expected": [x * ts for x in times]})
            bad += check_fine_data("uncoarsegrain", t_out, d_out, o, cmap, coarse, REL, 0.0, cnt, "uncoarsegrain_checks")
    except Exception as e:
        bad.append({"what": "exception: uncoarsegrain_trajectory on a valid coarse trajectory", "error": err(e)})

    # ---- engine: simulate(cgmap=map) and the identity map -----------------------------
    if case.get("sim") and accepted:
        from strengths import UnitsSystem
        usys = gen.mild_sys(r)
        try:
            mr = max_rate(desc)
            zero_d = any(d <= 1e-9 * o["h"] for d in o["dist"].values())
            if not zero_d:
                mr = max(mr, max_rate(cdesc))
            dt = 0.02 / mr
            K = r.randint(6, 20)
            tsi = [0.0, (K // 2) * dt, K * dt]
            kw = dict(time_step=gen.q_bare(dt, usys, gen.TIME_DIM), units_system=UnitsSystem(**si.sys_dict(usys)))
            ts_ = [gen.q_bare(x, usys, gen.TIME_DIM) for x in tsi]
            if zero_d:
                cnt["zero_distance_sim_skipped"] += 1
            else:
                tr = st.simulate(system, list(ts_), engine=engines.get("euler"), cgmap=list(cmap), **kw)
                trc = st.simulate(csys, list(ts_), engine=engines.get("euler"), **kw)
                tc, dc = traj_si(trc, G, S)
                try:
                    tf, df = traj_si(tr, n, S)
                except ValueError as e:
                    bad.append({"what": "shape: simulate(cgmap) output is not nsamples x nspecies x fine cells", "error": err(e)})
                else:
                    if not (finite(dc) and finite(df)):
                        cnt["nonfinite_skipped"] += 1
                    else:
                        cnt["cgmap_sim_checks"] += 1
                        if len(tf) != len(tc) or any(not abs(a - b) <= REL * abs(b) for a, b in zip(tf, tc)):
                            bad.append({"what": "cgmap-sim-times: times differ from the coarse simulation's", "got": tf, "expected": tc})
                        else:
                            smax = max(abs(x) for k in dc for row in k for x in row)
                            # sample 0 is the aggregated initial state, spread
                            b0 = check_fine_data("cgmap-sim-initial", tf[:1], df[:1], o, cmap,
                                                 [[[o["tot"][s][g] for g in range(G)] for s in range(S)]],
                                                 1e-11, 1e-13 * smax, cnt, "cgmap_sim_checks")
                            bad += b0
                            if not b0:
                                bad += check_fine_data("cgmap-sim", tf, df, o, cmap, dc, 1e-9, 1e-9 * smax, cnt,
                                                       "cgmap_sim_checks")
            # identity map - under any of the script's options, which the coarse-grained run must take over unchanged
            opt = {}
            if r.random() < 0.5:
                pol = r.choice(["on_interval", "on_iteration", "on_t_sample"])
                opt["sampling_policy"] = pol
                if pol == "on_interval":
                    opt["sampling_interval"] = gen.q_bare(r.choice([2, 3, 5]) * dt, usys, gen.TIME_DIM)
            if r.random() < 0.3:
                opt["t_max"] = gen.q_bare((K + r.randint(1, 4)) * dt, usys, gen.TIME_DIM)
            if r.random() < 0.3:
                opt["init_state_processing"] = "none"
            if r.random() < 0.3:
                opt["rng_seed"] = r.randrange(2 ** 31)
            if opt:
                cnt["identity_checks_with_script_options"] = cnt.get("identity_checks_with_script_options", 0) + 1
            plain = st.simulate(system, list(ts_), engine=engines.get("euler"), **kw, **opt)
            ident = st.simulate(system, list(ts_), engine=engines.get("euler"), cgmap=list(range(n)), **kw, **opt)
            # the initial-state processing mode is one of those options: 'none' on a stochastic engine passes a non-integer
            # state through unchanged, an explicit 'redist' on the deterministic engine turns it into integers (the draws
            # themselves are not compared: only what the mode guarantees whatever the draws)
            st0 = [float(x) for x in system.state.convert("molecule").value]
            if any(x != math.floor(x) for x in st0):
                for kind_i, mode_i in (("tauleap", "none"), ("gillespie", "none"), ("euler", "redist")):
                    if r.random() < 0.5:
                        continue
                    tri = st.simulate(system, list(ts_[:1]), engine=engines.get(kind_i), cgmap=list(range(n)), init_state_processing=mode_i,
                                      rng_seed=r.randrange(2 ** 31), **kw)
                    rec0 = [float(x) for x in tri.data.convert("molecule").value[:S * n]]
                    cnt["identity_init_mode_checks"] = cnt.get("identity_init_mode_checks", 0) + 1
                    if mode_i == "none":
                        okk = all(abs(a - b) <= 1e-9 * (abs(b) + 1e-300) for a, b in zip(rec0, st0))
                    else:
                        okk = all(abs(a - round(a)) <= 1e-9 * (abs(a) + 1) for a in rec0)
                    if not okk:
                        bad.append({"what": "identity-map: the run with cgmap=identity does not use the script's init_state_processing",
                                    "engine": kind_i, "mode": mode_i, "t0_record": rec0[:8], "state": st0[:8]})
                        break
            tp, dp = traj_si(plain, n, S)
            try:
                ti, di = traj_si(ident, n, S)
            except ValueError as e:
                bad.append({"what": "shape: simulate(cgmap=identity) output is not nsamples x nspecies x cells", "error": err(e)})
            else:
                flat_p = [x for k_ in dp for row in k_ for x in row]
                if not (finite(dp) and finite(di)):
                    cnt["nonfinite_skipped"] += 1
                elif min(flat_p) < 0 or max(abs(x) for x in flat_p) > 10.0 * (max(abs(x) for x in gen.state_of(desc)) + 1.0):
                    # an unstable run (negative or exploding amounts) amplifies the rounding differences between the grid and the
                    # graph engine without bound: nothing can be concluded from it
                    cnt["identity_unstable_skipped"] = cnt.get("identity_unstable_skipped", 0) + 1
                else:
                    cnt["identity_checks"] += 1
                    one = 1.0  # molecule: absolute scale of the dt bound (rates <= 0.02 (|x| + 1) / dt)
                    if len(ti) != len(tp) or any(not abs(a - b) <= REL * abs(b) for a, b in zip(ti, tp)):
                        bad.append({"what": "identity-map: sample times differ from the plain simulation", "got": ti, "expected": tp})
                    else:
                        worst = None
                        for k in range(len(tp)):
                            for s in range(S):
                                for i in range(n):
                                    a, b = di[k][s][i], dp[k][s][i]
                                    if not abs(a - b) <= REL * (max(abs(a), abs(b)) + one):
                                        worst = {"what": "identity-map: Euler with cgmap=identity differs from the plain run",
                                                 "sample": k, "species": s, "cell": i, "got": a, "expected": b}
                                        break
                                if worst:
                                    break
                            if worst:
                                break
                        if worst:
                            bad.append(worst)
            # a coarse-grained run that is refused inside the engine phase (an engine object with an option the library does not
            # know) must leave the caller's script as it was: the same script then gives the plain run again
            if r.random() < 0.5:
                import ctypes
                from strengths import RDScript
                from strengths.librdengine import LibRDEngine
                bogus = LibRDEngine(ctypes.CDLL(engines.install()), option="euler_", description="description", requires_molecules=False)
                scr = RDScript(system=system, t_sample=list(ts_), **kw)
                ncell_before, kind_before = scr.system.space.size(), type(scr.system.space).__name__
                refused = False
                try:
                    st.simulate_script(scr, bogus, cgmap=list(cmap))
                except Exception:
                    refused = True
                try:
                    bogus.finalize()
                except Exception:
                    pass
                cnt["refused_cgmap_runs"] = cnt.get("refused_cgmap_runs", 0) + 1
                if refused:
                    if scr.system.space.size() != ncell_before or type(scr.system.space).__name__ != kind_before:
                        bad.append({"what": "exception-safety: after a refused simulate_script(cgmap=...) the caller's script holds another system",
                                    "cells_before": ncell_before, "cells_after": scr.system.space.size(), "space_after": type(scr.system.space).__name__})
                    else:
                        again = st.simulate_script(scr, engines.get("euler"))
                        ta, da = traj_si(again, n, S)
                        tp2, dp2 = traj_si(st.simulate(system, list(ts_), engine=engines.get("euler"), **kw), n, S)
                        if ta != tp2 or da != dp2:
                            bad.append({"what": "exception-safety: after a refused simulate_script(cgmap=...) the same script no longer gives the plain run"})
        except Exception as e:
            bad.append({"what": "exception: simulate with a valid cgmap", "error": err(e)})
    return done()


# ---------------------------------------------------------------------------

def make_cases(n_total, ninv=5):
    """ninv: invalid variants tried per map (each costs one grid_to_graph, the dominant cost)"""
    out = []
    for i in range(n_total):
        c = {"seed": seed(), "idx": i, "ninv": ninv, "single": single_env_drops()}
        if i % 4 == 0:
            c["sim"] = True
        if i % 16 == 9:
            c["periodic"] = True
        if i % 40 == 7:
            c["identity_static"] = True
        out.append(c)
    return out


def replay(path):
    w = json.load(open(path))["witness"]
    res = run_case(w["case"])
    print(json.dumps(res, indent=1, default=str))
    return 1 if res["bad"] else 0


def main():
    if len(sys.argv) > 2 and sys.argv[1] == "--replay":
        return replay(sys.argv[2])
    single = single_env_drops()
    run = Run("C16",
              rule="random grid systems (vf.gen.rand_system network: 1-4 species, 0-2 reactions, 1-3 environments; grid 1-D "
                   "(2..12 cells), 2-D (2..6)^2 or 3-D (2..4)^3 <= 40 cells along random axes, all-reflecting boundaries; "
                   "environment layouts uniform / i.i.d. / noisy slabs; random states, chemostat maps, unit systems per level). "
                   "Index map = random partition within environment classes (non-contiguous groups, singletons, one group per "
                   "environment, identity), ids shuffled over 0..max, plain ints, dropped cells (-1) with p in {0.1,0.25,0.5} "
                   + ("restricted to ONE environment (VERIF_C16_SINGLE_ENV_DROPS=1)" if single else "over several environments")
                   + ". Every map: coarsegrain_system vs brute-force aggregation; invalid variants (missing index, < -1, wrong length, "
                   "mixed environments, non-int entry) must raise; "
                   "uncoarsegrain_trajectory of a hand-made coarse trajectory; every 4th case: simulate(euler, cgmap=map) vs the "
                   "spread Euler run of the oracle-built coarse system, and cgmap=identity vs plain Euler (1e-12); every 16th "
                   "case: a periodic grid must be refused. A case is (grid, environments, map); non-trivial when it has >= 2 "
                   "groups and a group of >= 2 cells.",
              assumptions=["brute-force aggregation from the SI description (vf.gen, vf.ref.grid_faces) is the oracle",
                           "cell centres at (x,y,z)*h with h = cell_vol^(1/3); float tolerance 1e-12 relative to the summed terms",
                           "identity-map equivalence asserted for the deterministic (Euler) engine only, with time steps "
                           "such that rate*dt <= 0.02",
                           "bool / numpy integers / integral floats as map entries are not exercised (only plain ints are "
                           "'valid', only None / str / non-integral floats are 'non-int')"])
    run.require("valid_maps", "maps_accepted", "volume_checks", "species_total_checks", "env_checks", "chemostat_checks",
                "edge_set_checks", "surface_checks", "distance_checks", "invalid_maps_rejected", "uncoarsegrain_checks",
                "cgmap_sim_checks", "identity_checks", "maps_with_drops", "grids_1d", "grids_2d", "grids_3d")
    if not single:
        run.require("maps_dropping_several_envs")
    thorough = tier() == "thorough"
    cases = make_cases(20000 if thorough else 1920)
    # pmap deals cases round-robin: shuffle so that the engine cases (every 4th) spread over all workers
    gen.rng_for(seed(), "C16order").shuffle(cases)
    res = pmap("vf.checks.c16:run_case", cases, cpu_budget=120)
    for c, r_ in zip(cases, res):
        if r_["status"] != "ok":
            if r_["status"] in ("crash", "hang"):
                run.violation("engine " + r_["status"], {"case": c, "result": {k: r_[k] for k in r_ if k != "i"}},
                              mech={"what": "engine-" + r_["status"]})
            elif r_["status"] == "exception":
                run.violation("harness exception", {"case": c, "error": r_.get("error"), "tb": r_.get("tb")},
                              mech={"what": "harness-exception"})
            else:
                run.inconclusive_because("case %s: %s" % (c, r_["status"]))
            continue
        v = r_["value"]
        run.case(v["key"], nontrivial=v["nontrivial"], sample=v["sample"])
        for k, n_ in v["counts"].items():
            if n_:
                run.count(k, n_)
        if not c.get("periodic"):
            run.count("grids_%dd" % v["ndim"])
        for b in v["bad"]:
            what = b["what"].split(":")[0]
            run.violation(what, b, mech={"what": what, "variant": b.get("variant"), "error": b.get("error", "")})
    run.note("single_env_drops", single)
    # ---- history workloads: objects used, modified through their setters / re-used, used again (vf/history.py) ----
    from vf.sandbox import run_extra as _run_extra
    from vf.common import seed as _seed, tier as _tier
    _run_extra(run, "vf.history:h_cg_reuse", [{"seed": _seed(), "idx": _i} for _i in range(2400 if _tier() == "thorough" else 240)], cpu_budget=60, kind_prefix="history: ")
    _run_extra(run, "vf.history:h_ucg_twice", [{"seed": _seed(), "idx": _i} for _i in range(1600 if _tier() == "thorough" else 160)], cpu_budget=60, kind_prefix="history: ")
    return run.finish()


if __name__ == "__main__":
    sys.exit(main())
