"""C18 - Unit and quantity text: print-parse round-trip, SI meaning, rejection.

Runtime monitoring of strengths.units.parse_units / parse_unitvalue / UnitValue(str) /
Units(str) and of str(Units) / str(UnitValue).

Oracle (independent of the code under test):
  * vf.si gives every symbol its SI scale and (space, time, quantity) exponents; the
    meaning of a unit expression is the product of the meanings of its factors
    (compositional semantics).  A derived symbol implies base units: a litre symbol
    implies the space unit whose cube it is (L -> dm, nL -> dmm ...), a molar symbol
    xM implies xmol and dm.  Two different implied units of one base kind in one
    expression cannot be represented and must be rejected.
  * a small recogniser of the *documented* grammar (documentation/
    using_quantities_with_units.rst) written here; it is only used to make sure that a
    generated "malformed" string really is outside the grammar (anything the recogniser
    cannot place on one side is dropped, never judged).
  * Python's float() decides what a numeric literal is.

"Must raise" means: any exception type.
"""
import collections
import hashlib
import itertools
import json
import math
import os
import re
import shutil
import struct
import sys
import tempfile
from fractions import Fraction as Fr

from vf import si
from vf.common import Run, SCRATCH, seed, tier, use_repo
from vf.gen import rng_for
from vf.sandbox import pmap

FUNC = "vf.checks.c18:run_case"
SKIP_BLANKS = os.environ.get("VERIF_C18_SKIP_BLANKS", "") not in ("", "0")
KINDS = si.KINDS

# ---------------------------------------------------------------------------
# oracle: meaning of every spelling


def _build_meaning():
    m = {}
    for sym, (scale, dim) in si.SYMBOLS.items():
        if sym in si.SPACE:
            imp = {"space": sym}
        elif sym in si.TIME:
            imp = {"time": sym}
        elif sym in si.QUANTITY:
            imp = {"quantity": sym}
        elif sym in si.VOLUME:
            roots = [s for s, v in si.SPACE.items() if v ** 3 == scale]
            assert len(roots) == 1, sym
            imp = {"space": roots[0]}
        else:
            q = sym[:-1] + "mol"          # xM = xmol per litre, litre = dm3
            assert si.QUANTITY[q] / si.SPACE["dm"] ** 3 == scale, sym
            imp = {"quantity": q, "space": "dm"}
        m[sym] = (scale, tuple(dim), imp)
    for sym in list(m):
        if sym.startswith("µ"):
            m["u" + sym[1:]] = m[sym]      # documented u-for-micro spelling
    return m


MEANING = _build_meaning()
SPELL = sorted(MEANING)                    # 47 symbols + 5 u-spellings
assert len(SPELL) == 52 and len(si.SYMBOLS) == 47
EXPS = [e for e in range(-9, 10) if e != 0]
_POW = {}


def _pow(sp, e):
    k = (sp, e)
    v = _POW.get(k)
    if v is None:
        v = _POW[k] = MEANING[sp][0] ** e
    return v



def _set_units(U, t):
    q = U.UnitValue(1.5, "")
    q.units = t
    return q.units


def _same_dim_source(U, t):
    return ""


def _eq_text(U, t):
    u = U.Units(U.UnitsSystem(), U.UnitsDimensions())
    r_ = (u == t)          # comparing with a text parses the text: text outside the grammar must raise
    return "compared: %r" % r_

class Expect:
    __slots__ = ("consistent", "dim", "scale", "bases")


def expect(factors):
    """factors: [(spelling, effective exponent)] -> Expect"""
    x = Expect()
    dim = [0, 0, 0]
    scale = Fr(1)
    bases = {}
    for sp, e in factors:
        sc, d, imp = MEANING[sp]
        for i in range(3):
            dim[i] += d[i] * e
        scale *= _pow(sp, e)
        for kind, b in imp.items():
            bases.setdefault(kind, set()).add(b)
    x.consistent = all(len(v) == 1 for v in bases.values())
    x.dim = tuple(dim)
    x.scale = scale
    x.bases = {k: sorted(v) for k, v in bases.items()}
    return x


def fshow(fr):
    """a Fraction for a witness (may exceed the double range)"""
    try:
        f = float(fr)
        if f != 0.0 or fr == 0:
            return f
    except OverflowError:
        pass
    n, d = fr.numerator, fr.denominator
    return "~1e%+d" % (len(str(abs(n))) - len(str(d)))


def estr(e, explicit1=False):
    return ("1" if explicit1 else "") if e == 1 else str(e)


def render(factors, seps, explicit1=False):
    """factors [(sp, effective e)], seps[i] in './' for factor i>0; 'a/b2' carries b with effective -2"""
    out = factors[0][0] + estr(factors[0][1], explicit1)
    for (sp, e), sep in zip(factors[1:], seps):
        out += sep + sp + estr(-e if sep == "/" else e, explicit1)
    return out


# ---------------------------------------------------------------------------
# recogniser of the documented grammar (generator safety filter only)

_FACT = re.compile(r"([A-Za-zµ]+)(-?[0-9]+)?\Z")


def classify_units(text):
    """'valid' | 'invalid' | 'unjudged' (outer blanks, exponent 0 / leading zeros)"""
    if text == "":
        return "valid"
    if text != text.strip() or text.strip() == "":
        return "unjudged"
    bases = {}
    unj = False
    for p in re.split(r"[./]", text):
        m = _FACT.match(p)
        if not m or m.group(1) not in MEANING:
            return "invalid"
        ex = m.group(2)
        if ex is not None and ex.lstrip("-").startswith("0"):
            unj = True
        for kind, b in MEANING[m.group(1)][2].items():
            bases.setdefault(kind, set()).add(b)
    if any(len(v) > 1 for v in bases.values()):
        return "invalid"
    return "unjudged" if unj else "valid"


def is_numeric(tok):
    try:
        float(tok)
        return True
    except Exception:
        return False


def classify_quantity(text):
    tok = text.split()
    if not tok:
        return "unjudged"
    if len(tok) == 1:
        return "valid" if is_numeric(tok[0]) else "invalid"
    if len(tok) > 2:
        return "invalid"               # a blank inside the value or inside the unit expression
    if not is_numeric(tok[0]):
        return "invalid"
    return classify_units(tok[1])


# ---------------------------------------------------------------------------
# child-side context


def h64(text):
    return struct.unpack("<Q", hashlib.blake2b(text.encode("utf-8", "surrogatepass"), digest_size=8).digest())[0]


def sig_of(u):
    d = tuple(int(x) if x == int(x) else x for x in si.dim_of(u.dim))
    s = si.sys_of(u.sys)
    return (d, tuple(s[i] if d[i] else None for i in range(3)))


class Ctx:
    PER_WHAT = 8

    def __init__(self, case):
        use_repo()
        import strengths.units as U
        self.U = U
        self.case = {k: v for k, v in case.items() if k not in ("dir", "chunk", "systems")}
        self.bad = []
        self.nbad = collections.Counter()
        self.counts = collections.Counter()
        self.keys = []
        self.flags = []
        self.samples = {}
        self.accepted = {}
        self.n = 0
        self._alt = 0
        self.entries = {"parse_units": U.parse_units, "Units": U.Units,
                        "parse_unitvalue": U.parse_unitvalue, "UnitValue": U.UnitValue,
                        # every other public way a unit TEXT gets into the library must read it the same way / refuse it too
                        "UnitValue(number, text)": lambda t: U.UnitValue(1.5, t).units,
                        "UnitArray(values, text)": lambda t: U.UnitArray([1.5, 2.5], t).units,
                        "units setter": lambda t: _set_units(U, t),
                        "Units == text": lambda t: _eq_text(U, t)}

    def seen(self, text, nontrivial=True):
        self.n += 1
        self.keys.append(h64(text))
        self.flags.append(bool(nontrivial))

    def sample(self, fam, obj):
        l = self.samples.setdefault(fam, [])
        if len(l) < 4:
            l.append(obj)

    def fail(self, what, entry, w, replay):
        self.nbad[what] += 1
        if self.nbad[what] <= self.PER_WHAT:
            d = {"what": what, "entry": entry}
            d.update(w)
            d["replay"] = replay
            d["case"] = self.case
            self.bad.append(d)

    # ---- valid unit expression ------------------------------------------
    def valid_units(self, text, factors, fam, entries=("parse_units",), x=None, key=True):
        """text must be read with the dimension and SI scale of its factors; returns signature or None"""
        x = x or expect(factors)
        rp = {"op": "valid_units", "text": text, "factors": [list(f) for f in factors], "entries": list(entries),
              "family": fam}
        sig = None
        for entry in entries:
            if key:
                self.seen(text, nontrivial=bool(factors))
            else:
                self.n += 1
            try:
                u = self.entries[entry](text)
                g = sig_of(u)
            except Exception as e:
                self.fail("valid-unit-string-raised", entry, {"text": text, "error": "%s: %s" % (type(e).__name__, e)}, rp)
                continue
            sig = g
            if g[0] != x.dim:
                self.fail("dimension", entry, {"text": text, "got_dim": g[0], "expected_dim": x.dim, "got_sys": g[1]}, rp)
                continue
            try:
                sc = si.scale(si.sys_of(u.sys), g[0])
            except Exception:
                sc = None
            if sc != x.scale:
                self.fail("si-scale", entry, {"text": text, "got_sys": g[1], "dim": g[0],
                                              "got_scale": None if sc is None else fshow(sc),
                                              "expected_scale": fshow(x.scale), "expected_bases": x.bases}, rp)
                continue
            self.counts["ok:" + fam] += 1
            # the scale as the library itself applies it: 1 <text> expressed in (m, s, mol) is the ratio of the SI scales
            # (judged when that ratio is well inside the double range; the arithmetic needs no huge intermediate)
            try:
                exact = x.scale / si.scale(("m", "s", "mol"), x.dim)
                # judged when the factor and its three per-kind components are all inside the double range (a component such as
                # (molecule -> mol)^16 underflows on its own, whatever the other components make of the product)
                s3_ = si.sys_of(u.sys)
                comps = [Fr(si.BASE[kd_][sy_]) / Fr(si.BASE[kd_][tg_]) for kd_, sy_, tg_ in zip(("space", "time", "quantity"), s3_, ("m", "s", "mol"))]
                lo_, hi_ = Fr(10) ** -280, Fr(10) ** 280
                if lo_ < exact < hi_ and all(lo_ < c_ ** e_ < hi_ for c_, e_ in zip(comps, x.dim)):
                    got = float(self.U.UnitValue(1.0, u).convert(self.U.UnitsSystem(space="m", time="s", quantity="mol")).value)
                    self.counts["applied_scale_checks"] += 1
                    if not (math.isfinite(got) and abs(Fr(got) - exact) <= exact * Fr(1, 10 ** 11)):
                        self.fail("si-scale-applied", entry, {"text": text, "one_unit_in_m_s_mol": got, "expected": fshow(exact)}, rp)
                        continue
            except Exception as e:
                self.fail("si-scale-applied", entry, {"text": text, "error": "%s: %s" % (type(e).__name__, e)}, rp)
                continue
            # print - parse of what was read
            try:
                t2 = str(u)
                g2 = sig_of(self.U.parse_units(t2))
                self.counts["roundtrip_units"] += 1
                if g2 != g:
                    self.fail("roundtrip-units", entry, {"text": text, "printed": t2, "before": g, "after": g2}, rp)
            except Exception as e:
                self.fail("roundtrip-units", entry, {"text": text, "error": "%s: %s" % (type(e).__name__, e)}, rp)
        return sig

    # ---- valid quantity ---------------------------------------------------
    def valid_quantity(self, vtxt, ws, utext, factors, fam, x=None):
        x = x or expect(factors)
        text = vtxt + ws + utext
        want = float(vtxt)
        rp = {"op": "valid_quantity", "value": vtxt, "ws": ws, "utext": utext, "factors": [list(f) for f in factors],
              "family": fam}
        for entry in ("parse_unitvalue", "UnitValue"):
            self.seen(text, nontrivial=bool(factors))
            try:
                q = self.entries[entry](text)
                g = sig_of(q.units)
                val = q.value
            except Exception as e:
                self.fail("valid-quantity-string-raised", entry, {"text": text, "error": "%s: %s" % (type(e).__name__, e)}, rp)
                continue
            if not isinstance(val, float) or val.hex() != want.hex():
                self.fail("value-not-bit-identical", entry, {"text": text, "got": repr(val), "expected": repr(want)}, rp)
                continue
            try:
                sc = si.scale(si.sys_of(q.units.sys), g[0])
            except Exception:
                sc = None
            if g[0] != x.dim or sc != x.scale:
                self.fail("dimension" if g[0] != x.dim else "si-scale", entry,
                          {"text": text, "got_dim": g[0], "got_sys": g[1], "expected_dim": x.dim,
                           "expected_scale": fshow(x.scale)}, rp)
                continue
            self.counts["ok:" + fam] += 1

    # ---- must raise ---------------------------------------------------------
    def reject(self, entry, text, fam, mech=None):
        """text is outside the grammar: entry(text) must raise"""
        self.seen(text, nontrivial=True)
        try:
            r = self.entries[entry](text)
        except Exception:
            self.counts["rejected:" + fam] += 1
            return True
        what = mech or fam
        try:
            shown = str(r)
        except Exception:
            shown = "?"
        self.fail(what, entry, {"text": text, "family": fam, "read_as": shown},
                  {"op": "reject", "entry": entry, "text": text, "family": fam, "mech": what})
        l = self.accepted.setdefault(what + "|" + entry, [])
        if len(l) < 60:
            l.append([text, shown])
        return False

    def reject_units(self, m, fam, qvalue="1.5", mech_units=None, mech_quantity=None):
        """malformed unit expression m: through parse_units and, behind a value, through both quantity entries"""
        c = classify_units(m)
        if c != "invalid":
            self.counts["generator_discarded"] += 1
            return
        self.reject("parse_units", m, fam, mech_units)
        for entry in ("Units", "UnitValue(number, text)", "UnitArray(values, text)", "units setter", "Units == text"):
            self.reject(entry, m, fam, mech_units)
        qt = qvalue + " " + m
        if classify_quantity(qt) != "invalid":
            self.counts["generator_discarded"] += 1
            return
        self.reject("parse_unitvalue", qt, fam, mech_quantity or mech_units)
        self.reject("UnitValue", qt, fam, mech_quantity or mech_units)

    def reject_quantity(self, text, fam, mech=None):
        if classify_quantity(text) != "invalid":
            self.counts["generator_discarded"] += 1
            return
        self.reject("parse_unitvalue", text, fam, mech)
        self.reject("UnitValue", text, fam, mech)

    # ---- print-parse of constructed objects ----------------------------------
    def rt_units(self, s3, d3, all_entries=False):
        U = self.U
        s3, d3 = tuple(s3), tuple(d3)
        rp = {"op": "rt_units", "sys": list(s3), "dim": list(d3)}
        want = (d3, tuple(s3[i] if d3[i] else None for i in range(3)))
        try:
            u = U.Units(U.UnitsSystem(space=s3[0], time=s3[1], quantity=s3[2]),
                        U.UnitsDimensions(space=d3[0], time=d3[1], quantity=d3[2]))
            t = str(u)
        except Exception as e:
            self.n += 1
            self.fail("roundtrip-units", "str", {"sys": s3, "dim": d3, "error": "%s: %s" % (type(e).__name__, e)}, rp)
            return None
        self._alt += 1
        for entry in (("parse_units", "Units") if all_entries or self._alt % 3 == 0 else ("parse_units",)):
            self.n += 1
            try:
                g = sig_of(self.entries[entry](t))
            except Exception as e:
                self.fail("roundtrip-units", entry, {"sys": s3, "dim": d3, "printed": t,
                                                     "error": "%s: %s" % (type(e).__name__, e)}, rp)
                continue
            self.counts["roundtrip_units"] += 1
            if g != want:
                self.fail("roundtrip-units", entry, {"sys": s3, "dim": d3, "printed": t, "after": g}, rp)
        self.keys.append(h64("U|" + "|".join(s3) + "|%d,%d,%d" % d3))
        self.flags.append(any(d3))
        return t

    def rt_value(self, s3, d3, val, all_entries=False):
        U = self.U
        s3, d3 = tuple(s3), tuple(d3)
        fval = float(val)
        rp = {"op": "rt_value", "sys": list(s3), "dim": list(d3), "value_hex": fval.hex(), "int": isinstance(val, int)}
        want = (d3, tuple(s3[i] if d3[i] else None for i in range(3)))
        try:
            # the value reaches the quantity as a Python number or as the numpy scalar a computation would hand over
            # (array element, sum, sqrt...): what is printed must be the same text either way
            import numpy as _np
            self._npalt = getattr(self, "_npalt", 0) + 1
            vin = _np.float64(val) if (self._npalt % 3 == 0 and not isinstance(val, int)) else val
            q = U.UnitValue(vin, U.Units(U.UnitsSystem(space=s3[0], time=s3[1], quantity=s3[2]),
                                         U.UnitsDimensions(space=d3[0], time=d3[1], quantity=d3[2])))
            t = str(q)
        except Exception as e:
            self.n += 1
            self.fail("roundtrip-value", "str", {"sys": s3, "dim": d3, "value": repr(val),
                                                 "error": "%s: %s" % (type(e).__name__, e)}, rp)
            return None
        self._alt += 1
        # both entry points on every third value, alternately one of them otherwise
        k = self._alt % 3
        for entry in (("parse_unitvalue", "UnitValue") if all_entries or k == 0 else
                      ("parse_unitvalue",) if k == 1 else ("UnitValue",)):
            self.seen(t, nontrivial=any(d3))
            try:
                q2 = self.entries[entry](t)
                g = sig_of(q2.units)
                v2 = q2.value
            except Exception as e:
                self.fail("roundtrip-value", entry, {"printed": t, "error": "%s: %s" % (type(e).__name__, e)}, rp)
                continue
            self.counts["roundtrip_values"] += 1
            if not isinstance(v2, float) or v2.hex() != fval.hex():
                self.fail("roundtrip-value", entry, {"printed": t, "value": repr(fval), "after": repr(v2),
                                                     "value_hex": fval.hex()}, rp)
            elif g != want:
                self.fail("roundtrip-units", entry, {"printed": t, "sys": s3, "dim": d3, "after": g}, rp)
        return t

    def result(self):
        out = {"n": self.n, "counts": dict(self.counts), "bad": self.bad, "nbad": dict(self.nbad),
               "samples": self.samples, "accepted": self.accepted, "keyfile": None}
        return out


def _finish(ctx, case):
    out = ctx.result()
    d = case.get("dir")
    if d and ctx.keys:
        import numpy as np
        path = os.path.join(d, "k-%s-%s.npz" % (case["w"], case.get("idx", 0)))
        np.savez(path, keys=np.array(ctx.keys, dtype=np.uint64), flags=np.array(ctx.flags, dtype=bool))
        out["keyfile"] = path
    else:
        out["keys_inline"] = [[k, f] for k, f in zip(ctx.keys, ctx.flags)]
    return out


# ---------------------------------------------------------------------------
# generators

VALUES = ["1", "1.5", "2e3", "-3", "+1.3e-10", "-1.3e-10", "0.25", "1e-05", "6.02e23", "7", ".5", "1.", "0", "-0.0",
          "1E3", "12"]
UNKNOWN = ["x", "g", "kg", "K", "l", "S", "H", "Min", "sec", "hr", "d", "k", "µ", "u", "c", "n", "p", "f", "mole",
           "molecules", "Molecule", "molec", "Mol", "MOL", "KM", "ML", "Nm", "MM", "Mm", "Gm", "dL", "cL", "hL", "ks",
           "Ms", "kmin", "mh", "dmin", "Mmol", "GM", "daM", "hM", "ukm", "uh", "umin", "umolecule", "uu", "ul", "uS",
           "mu", "mum", "mus", "hum", "ug", "µg", "kmm", "mmm", "dmmol", "kms", "mmin", "kh", "N", "J", "Hz", "A", "e",
           "E", "molL", "mols", "sm", "hh", "ss", "LL", "mLL", "Ls", "uN", "uml", "usec"]
UNKNOWN = [s for s in UNKNOWN if s not in MEANING]
_LETTERS = "abcdefghijklmnopqrstuvwxyzABCDEFGHIJKLMNOPQRSTUVWXYZµ"
NONNUM = ["a", "abc", "[1,", "[1]", "{'v',", "(1)", "one", "1,5", "1.5.2", "--1", "+-1", "1e", "e3", "1e+", "0x10",
          "1/2", "1+2", "1j", "None", "True", "x1", "1x", "1..", "-", "+", ".", "1e1.5", "1'000", "$1", "1%", "#", "'1'",
          "\"1\"", "1e3e3", "NaN1", "infinit", "--", "1-", "1d0", "1f", "1L", "0b1", "1__0"]
NONNUM = [s for s in NONNUM if not is_numeric(s)]


def rand_factors(r, n=None, spread=9):
    """random consistent expression; returns factors (effective exponents)"""
    n = n or r.choice([1, 1, 2, 2, 2, 3, 3])
    for _ in range(200):
        fs = [(r.choice(SPELL), r.choice([e for e in EXPS if abs(e) <= spread])) for _ in range(n)]
        if expect(fs).consistent:
            return fs
    return [(r.choice(SPELL), 1)]


def rand_text(r, n=None, spread=9):
    fs = rand_factors(r, n, spread)
    seps = [r.choice("./") for _ in fs[1:]]
    return fs, seps, render(fs, seps, explicit1=r.random() < 0.2)


def rand_unknown(r):
    if r.random() < 0.6:
        return r.choice(UNKNOWN)
    for _ in range(50):
        s = "".join(r.choice(_LETTERS) for _ in range(r.randint(1, 4)))
        if s not in MEANING:
            return s
    return "x"


def rand_double(r):
    k = r.randrange(12)
    if k == 0:
        while True:
            bits = r.getrandbits(64)
            if (bits >> 52) & 0x7ff != 0x7ff:
                return struct.unpack("<d", struct.pack("<Q", bits))[0]
    if k == 1:      # subnormal
        return struct.unpack("<d", struct.pack("<Q", r.getrandbits(52) | (r.getrandbits(1) << 63)))[0]
    if k == 2:      # 1e-05 style
        return r.choice([1, 1.5, 2.5, 9.99, 1.0000000000000002]) * 10.0 ** -r.randint(4, 12) * r.choice([1, -1])
    if k == 3:
        return r.choice([0.0, -0.0, 5e-324, -5e-324, 1.7976931348623157e308, -1.7976931348623157e308,
                         2.2250738585072014e-308, 2.225073858507201e-308, 1e16, 9999999999999998.0, 1e22, 1e23,
                         0.0001, 0.00001, 0.1, 1 / 3, 2 / 3, 1e-7, 123456789012345678.0, 4.35, 0.30000000000000004])
    if k == 4:
        return float(r.randint(-10 ** 6, 10 ** 6))
    if k == 5:
        return r.randint(-10 ** 6, 10 ** 6)              # a Python int as the value
    if k == 6:
        return float(r.randint(10 ** 15, 10 ** 23)) * r.choice([1, -1])
    if k == 7:
        return r.uniform(-1, 1) * 10.0 ** r.randint(-320, 308)
    if k == 8:
        return r.uniform(-1000, 1000)
    if k == 9:
        return round(r.uniform(-100, 100), r.randint(0, 6))
    if k == 10:
        return r.random() * 2.0 ** r.randint(-1074, 1023) * r.choice([1, -1])
    return 10.0 ** r.randint(-323, 308) * r.choice([1, -1])


def rand_dim(r):
    k = r.random()
    if k < 0.08:
        return (0, 0, 0)
    if k < 0.35:
        d = [0, 0, 0]
        d[r.randrange(3)] = r.choice(EXPS)
        return tuple(d)
    if k < 0.7:
        return tuple(r.randint(-3, 3) for _ in range(3))
    return tuple(r.randint(-9, 9) for _ in range(3))


# ---------------------------------------------------------------------------
# workloads (children)

DOC_OK_UNITS = [("mol/µm.s", [("mol", 1), ("µm", -1), ("s", 1)]),
                ("mol.µm-1.s-2", [("mol", 1), ("µm", -1), ("s", -2)]),
                ("mol/µm/s2", [("mol", 1), ("µm", -1), ("s", -2)]),
                ("mol1/µm1/s2", [("mol", 1), ("µm", -1), ("s", -2)]),
                ("µM", [("µM", 1)]), ("uM", [("uM", 1)]), ("µM/s", [("µM", 1), ("s", -1)]),
                ("µmol/L.s-1", [("µmol", 1), ("L", -1), ("s", -1)]), ("m/s/mol", [("m", 1), ("s", -1), ("mol", -1)]),
                ("m.s-1.mol-1", [("m", 1), ("s", -1), ("mol", -1)]), ("µm2", [("µm", 2)]), ("m-3", [("m", -3)])]
DOC_OK_QUANTITIES = [("1", "µm/s"), ("1.5", "µm/s"), ("+1.3e-10", "µm/s"), ("-1.3e-10", "µm/s"), ("5", "µM"),
                     ("1e3", "µmol/L.s-1"), ("1", "um"), ("1", "µm")]
DOC_WRONG_UNITS = [("mol/µm. s", "blank"), ("mol//µm.s", "doubled-separator"), ("mol.µm-1.5.s-2", "fractional-exponent"),
                   ("mol.µm+1.s-2", "plus-exponent"), ("mol.µm 1.s-2", "blank")]
DOC_WRONG_QUANTITIES = [("1µm/s", "value-glued-to-unit"), ("a µm/s", "non-numeric-value"),
                        ("[1, 2] µm/s", "non-numeric-value"), ("{'v', 1} µm/s", "non-numeric-value"), ("a", "non-numeric-value"),
                        ("2m", "value-glued-to-unit")]
BLANK_U = "blank-inside-unit-expression"
BLANK_Q = "blank-between-quantity-tokens"
BLANK_V = "blank-inside-value"


def w_single(ctx, case):
    r = rng_for(case["seed"], "C18", "single")
    x0 = expect([])
    ctx.valid_units("", [], "single", entries=("parse_units", "Units"), x=x0)
    ctx.valid_quantity("2.5", "", "", [], "quantity", x=x0)
    for sp in SPELL:
        for e in EXPS:
            fs = [(sp, e)]
            x = expect(fs)
            for ex1 in ((False, True) if e == 1 else (False,)):
                t = sp + estr(e, ex1)
                assert classify_units(t) == "valid"
                ctx.valid_units(t, fs, "single", entries=("parse_units", "Units"), x=x)
                ctx.valid_quantity(r.choice(VALUES), r.choice([" ", " ", "  ", "   "]), t, fs, "quantity", x=x)
                # value + unit string given separately
                ctx.n += 1
                try:
                    q = ctx.U.UnitValue(2.5, t)
                    g = sig_of(q.units)
                    if g[0] != x.dim or si.scale(si.sys_of(q.units.sys), g[0]) != x.scale or q.value.hex() != (2.5).hex():
                        ctx.fail("si-scale", "UnitValue(value, text)", {"text": t, "got_dim": g[0], "got_sys": g[1]},
                                 {"op": "valid_units", "text": t, "factors": [list(f) for f in fs], "entries": ["parse_units"],
                                  "family": "single"})
                    else:
                        ctx.counts["ok:single"] += 1
                except Exception as ex:
                    ctx.fail("valid-unit-string-raised", "UnitValue(value, text)", {"text": t, "error": "%s: %s" % (type(ex).__name__, ex)},
                             {"op": "valid_units", "text": t, "factors": [list(f) for f in fs], "entries": ["parse_units"],
                              "family": "single"})
            ctx.sample("single", {"text": sp + estr(e), "dim": x.dim, "si_scale": fshow(x.scale)})
        # exponent 0: the documentation neither allows nor forbids it; if read, it must contribute nothing
        t = sp + "0"
        ctx.n += 1
        try:
            g = sig_of(ctx.U.parse_units(t))
            ctx.counts["zero_exponent_accepted"] += 1
            if g[0] != (0, 0, 0):
                ctx.fail("dimension", "parse_units", {"text": t, "got_dim": g[0], "expected_dim": (0, 0, 0)},
                         {"op": "reject", "entry": "parse_units", "text": t, "family": "zero-exponent", "mech": "dimension"})
        except Exception:
            ctx.counts["zero_exponent_rejected"] += 1
    # the documentation's own examples
    for t, fs in DOC_OK_UNITS:
        ctx.valid_units(t, fs, "doc", entries=("parse_units", "Units"))
    for v, t in DOC_OK_QUANTITIES:
        fs = [f for tt, f in DOC_OK_UNITS if tt == t]
        fs = fs[0] if fs else {"µm/s": [("µm", 1), ("s", -1)], "um": [("um", 1)], "µm": [("µm", 1)]}[t]
        ctx.valid_quantity(v, " ", t, fs, "doc")
    for t, fam in DOC_WRONG_UNITS:
        if fam == "blank":
            if not SKIP_BLANKS:
                ctx.reject("parse_units", t, BLANK_U)
                ctx.reject("parse_unitvalue", "1 " + t, BLANK_Q)
                ctx.reject("UnitValue", "1 " + t, BLANK_Q)
        else:
            ctx.reject_units(t, fam)
    for t, fam in DOC_WRONG_QUANTITIES:
        ctx.reject_quantity(t, fam)
    # not judged, only recorded: spellings the documentation does not settle
    obs = {}
    for t in ["m0", "m-0", "m02", "m2_0", " m", "m ", "m\n", "μm", "m２"]:
        try:
            obs[t] = "read as " + repr(str(ctx.U.parse_units(t)))
        except Exception as e:
            obs[t] = "raises " + type(e).__name__
    for t in ["", "nan m", "inf m", "1_0 m", "1\tm", " 1 m "]:
        try:
            obs[t] = "read as " + repr(str(ctx.U.parse_unitvalue(t)))
        except Exception as e:
            obs[t] = "raises " + type(e).__name__
    return {"observed_not_judged": obs}


PAIR_SPREAD_QUICK = [(1, 1), (1, -1), (2, -1), (-1, 3), (-2, -3), (3, 2), (1, -2), (-1, -1), (9, -9), (-4, 1), (2, 2), (1, 5)]
BAD_SPREAD = [(1, 1), (1, -1), (2, -3), (-2, 2)]


def w_pairs(ctx, case):
    thorough = case["tier"] == "thorough"
    spread = [(a, b) for a in EXPS for b in EXPS] if thorough else PAIR_SPREAD_QUICK
    for a in case["chunk"]:
        ia = SPELL.index(a)
        for ib, b in enumerate(SPELL):
            cons = expect([(a, 1), (b, 1)]).consistent
            if cons:
                for n, (ea, eb) in enumerate(spread):
                    fs = [(a, ea), (b, eb)]
                    x = expect(fs)
                    ex1 = (ia + ib + n) % 3 == 0
                    texts = [render(fs, ".", ex1), render(fs, "/", ex1),
                             render(fs[::-1], ".", ex1), render(fs[::-1], "/", ex1)]
                    sigs = []
                    for t in texts:
                        sigs.append(ctx.valid_units(t, fs, "pairs", x=x))
                    ctx.counts["equivalence_checks"] += 1
                    if None not in sigs and len(set(sigs)) != 1:
                        ctx.fail("variants-read-differently", "parse_units", {"texts": texts, "read": sigs},
                                 {"op": "valid_units", "text": texts[1], "factors": [list(f) for f in fs],
                                  "entries": ["parse_units"], "family": "pairs"})
                    if n == (ia * 7 + ib) % len(spread):
                        ctx.valid_quantity(VALUES[(ia + ib) % len(VALUES)], " ", texts[1], fs, "quantity", x=x)
                        ctx.sample("pairs", {"texts_read_identically": texts, "dim": x.dim, "si_scale": fshow(x.scale)})
            else:
                for n, (ea, eb) in enumerate(BAD_SPREAD if not thorough else BAD_SPREAD + [(9, 1), (1, -9), (-3, -3)]):
                    for sep in "./":
                        t = render([(a, ea), (b, eb)], sep, (ia + ib) % 3 == 0)
                        if classify_units(t) != "invalid":
                            ctx.counts["generator_discarded"] += 1
                            continue
                        ctx.reject("parse_units", t, "two-units-one-base-kind")
                        if n == 0:
                            ctx.reject("parse_unitvalue", "1.5 " + t, "two-units-one-base-kind")
                            ctx.reject("UnitValue", "1.5 " + t, "two-units-one-base-kind")
                ctx.sample("two-units-one-base-kind", {"must_raise": render([(a, 1), (b, -1)], "/")})
    return {}


def w_triples(ctx, case):
    r = rng_for(case["seed"], "C18", "triples", case["idx"])
    for _ in range(case["n"]):
        if r.random() < 0.08:
            # a conflicting pair behind factors that cancel (m/m.cm, m0.cm, s-1.s.min): the first unit of the kind has been NAMED,
            # whatever its exponents add up to - every order of the factors must be refused
            a = r.choice(SPELL)
            others = [b for b in SPELL if not expect([(a, 1), (b, 1)]).consistent]
            if others:
                b = r.choice(others)
                e = r.choice([1, 2, 3])
                fs = r.choice([[(a, e), (a, -e), (b, r.choice([1, -1, 2]))], [(a, 0), (b, r.choice([1, -1, 2]))], [(a, 0), (b, 1), (a, 0)]])
                for p in set(itertools.permutations(fs)):
                    t = render(list(p), [r.choice("./") for _ in range(len(p) - 1)], False)
                    if classify_units(t) == "invalid":
                        ctx.reject("parse_units", t, "two-units-one-base-kind")
                        ctx.counts["cancelling_conflicts"] = ctx.counts.get("cancelling_conflicts", 0) + 1
                    else:
                        ctx.counts["generator_discarded"] += 1
            continue
        if r.random() < 0.12:
            fs = [(r.choice(SPELL), r.choice(EXPS)) for _ in range(3)]      # mostly inconsistent: must raise
        else:
            fs = rand_factors(r, n=3)
        x = expect(fs)
        if not x.consistent:
            p = list(fs)
            r.shuffle(p)
            t = render(p, [r.choice("./"), r.choice("./")], r.random() < 0.2)
            if classify_units(t) == "invalid":
                ctx.reject("parse_units", t, "two-units-one-base-kind")
            continue
        sigs, texts = [], []
        for p in itertools.permutations(fs):
            t = render(list(p), [r.choice("./"), r.choice("./")], r.random() < 0.2)
            texts.append(t)
            sigs.append(ctx.valid_units(t, fs, "triples", x=x))
        ctx.counts["equivalence_checks"] += 1
        if None not in sigs and len(set(sigs)) != 1:
            ctx.fail("variants-read-differently", "parse_units", {"texts": texts, "read": sigs},
                     {"op": "valid_units", "text": texts[0], "factors": [list(f) for f in fs],
                      "entries": ["parse_units"], "family": "triples"})
        if r.random() < 0.25:
            ctx.valid_quantity(r.choice(VALUES), r.choice([" ", "  "]), r.choice(texts), fs, "quantity", x=x)
        ctx.sample("triples", {"texts_read_identically": texts[:3], "dim": x.dim, "si_scale": fshow(x.scale)})
    return {}


def w_rt_units(ctx, case):
    r = rng_for(case["seed"], "C18", "rtu", case["idx"])
    k = case["cube"]
    cube = list(itertools.product(range(-k, k + 1), repeat=3))
    axis = [tuple(e if i == j else 0 for j in range(3)) for i in range(3) for e in EXPS if abs(e) > k]
    for s3 in case["systems"]:
        dims = cube + axis + [tuple(r.randint(-9, 9) for _ in range(3)) for _ in range(case["extra"])]
        for d3 in dims:
            t = ctx.rt_units(s3, d3)
        ctx.sample("roundtrip-units", {"sys": list(s3), "dim": list(d3), "printed": t})
    return {}


def w_rt_values(ctx, case):
    r = rng_for(case["seed"], "C18", "rtv", case["idx"])
    for _ in range(case["n"]):
        s3 = r.choice(si.ALL_SYSTEMS)
        d3 = rand_dim(r)
        val = rand_double(r)
        t = ctx.rt_value(s3, d3, val)
        ctx.sample("roundtrip-value", {"value_hex": float(val).hex(), "printed": t})
        if r.random() < 0.15:
            # a quantity whose units come from text: value repr + unit text, then print - parse again
            fs, seps, ut = rand_text(r)
            x = expect(fs)
            v = float(val)
            ctx.valid_quantity(repr(v), " ", ut, fs, "quantity", x=x)
    return {}


def malformed_variants(r, fs, seps, text):
    """(family, malformed unit expression) derived from one valid expression"""
    out = []
    n = len(fs)

    def rebuild(parts, sp=None):
        """parts: list of rendered factor strings"""
        s = parts[0]
        for p, sep in zip(parts[1:], sp or seps):
            s += sep + p
        return s
    parts = [fs[0][0] + estr(fs[0][1])] + [sp + estr(-e if sep == "/" else e) for (sp, e), sep in zip(fs[1:], seps)]
    shown = [fs[0][1]] + [(-e if sep == "/" else e) for (sp, e), sep in zip(fs[1:], seps)]   # exponents as written
    i = r.randrange(n)
    sym, e = fs[i][0], shown[i]
    # unknown symbol
    for _ in range(2):
        p = list(parts)
        p[i] = rand_unknown(r) + estr(e)
        out.append(("unknown-symbol", rebuild(p)))
    # separators
    out.append(("leading-separator", r.choice("./") + text))
    out.append(("trailing-separator", text + r.choice("./")))
    if n > 1:
        j = r.randrange(n - 1)
        sp2 = list(seps)
        for extra in "./":
            sp2[j] = seps[j] + extra
            out.append(("doubled-separator", rebuild(parts, sp2)))
    else:
        out.append(("doubled-separator", text + r.choice(["..", "//", "./", "/."]) + r.choice(SPELL)))
    # '+' exponent
    p = list(parts)
    p[i] = sym + "+" + str(abs(e))
    out.append(("plus-exponent", rebuild(p)))
    if e < 0:
        p[i] = sym + "+" + str(e)
        out.append(("plus-exponent", rebuild(p)))
    # fractional exponent
    for tail in (".5", ".0", ",5", "e1", "/2"):
        p = list(parts)
        p[i] = sym + str(e) + tail
        out.append(("fractional-exponent", rebuild(p)))
    p = list(parts)
    p[i] = sym + ("-" if e < 0 else "") + "0.5"
    out.append(("fractional-exponent", rebuild(p)))
    # exponent before the symbol, split from it, dangling
    a = str(e) if e != 1 else r.choice(["1", "2", "-1"])
    for form in (a + sym, a + "." + sym, sym + "." + a, sym + "/" + a.lstrip("-"), sym + "-", sym + "--" + a.lstrip("-"),
                 ("-" + sym + a.lstrip("-")), sym + a + "-", sym + a + r.choice(SPELL), a, sym + "-." + a.lstrip("-"),
                 sym + "^" + a, sym + "**" + a):
        p = list(parts)
        p[i] = form
        fam = "foreign-notation" if ("^" in form or "**" in form) else "misplaced-exponent"
        out.append((fam, rebuild(p)))
    if n > 1:
        j = r.randrange(n - 1)
        for alien in ("*", "·", "×", ":", ",", ";", "\\", "|", "_"):
            sp2 = list(seps)
            sp2[j] = alien
            out.append(("foreign-notation", rebuild(parts, sp2)))
    out.append(("foreign-notation", "(" + text + ")"))
    out.append(("foreign-notation", "[" + text + "]"))
    return out


def w_reject(ctx, case):
    r = rng_for(case["seed"], "C18", "reject", case["idx"])
    for _ in range(case["n"]):
        fs, seps, text = rand_text(r)
        assert classify_units(text) == "valid", text
        for fam, m in malformed_variants(r, fs, seps, text):
            ctx.reject_units(m, fam, qvalue=r.choice(VALUES))
            ctx.sample(fam, {"must_raise": m, "derived_from": text})
        # value glued to the unit
        for v in r.sample(VALUES, 3):
            g = v + text
            if is_numeric(g):
                ctx.counts["generator_discarded"] += 1
                continue
            ctx.reject_quantity(g, "value-glued-to-unit")
            ctx.sample("value-glued-to-unit", {"must_raise": g})
        # non numeric value
        for _k in range(3):
            if r.random() < 0.7:
                w = r.choice(NONNUM)
            else:
                w = "".join(r.choice(_LETTERS + "0123456789.-+") for _ in range(r.randint(1, 5)))
            if is_numeric(w):
                ctx.counts["generator_discarded"] += 1
                continue
            q = w + " " + text
            ctx.reject_quantity(q, "non-numeric-value")
            ctx.sample("non-numeric-value", {"must_raise": q})
        if r.random() < 0.3:
            ctx.reject_quantity(text, "non-numeric-value")     # a unit expression without any value
    return {}


def blank_variants(ctx, r, text, value, ws_chars):
    """a blank at every inner position of a valid unit expression, alone and behind a value"""
    for pos in range(1, len(text)):
        for ws in ws_chars:
            m = text[:pos] + ws + text[pos:]
            if classify_units(m) != "invalid":
                ctx.counts["generator_discarded"] += 1
                continue
            ctx.reject("parse_units", m, BLANK_U)
            for entry in ("Units", "UnitValue(number, text)", "UnitArray(values, text)", "units setter"):
                ctx.reject(entry, m, BLANK_U)
            q = value + " " + m
            if classify_quantity(q) == "invalid":
                ctx.reject("parse_unitvalue", q, BLANK_Q)
                ctx.reject("UnitValue", q, BLANK_Q)
    if len(text) > 1:
        ctx.sample(BLANK_U, {"must_raise": text[:len(text) // 2] + " " + text[len(text) // 2:],
                             "derived_from": text, "positions_tried": len(text) - 1})
    for pos in range(1, len(value)):
        q = value[:pos] + " " + value[pos:] + " " + text
        if classify_quantity(q) == "invalid":
            ctx.reject("parse_unitvalue", q, BLANK_V)
            ctx.reject("UnitValue", q, BLANK_V)


def w_blanks(ctx, case):
    r = rng_for(case["seed"], "C18", "blanks", case["idx"])
    if case.get("chunk"):
        # every single factor with an explicit exponent and without; every juxtaposed pair of symbols
        for a in case["chunk"]:
            for e in (1, 2, -1, -3):
                blank_variants(ctx, r, a + estr(e), r.choice(VALUES), [" "])
            for b in SPELL:
                for ta, tb in ((a, b), (a + "2", b), (a, b + "-1")):
                    m = ta + " " + tb
                    ctx.reject("parse_units", m, BLANK_U)
                    for entry in ("Units", "UnitValue(number, text)", "UnitArray(values, text)", "units setter"):
                        ctx.reject(entry, m, BLANK_U)
                    ctx.reject("parse_unitvalue", "1 " + m, BLANK_Q)
                    ctx.reject("UnitValue", "1 " + m, BLANK_Q)
            ctx.sample(BLANK_Q, {"must_raise": "1 " + a + " s-1"})
    for _ in range(case["n"]):
        fs, seps, text = rand_text(r, n=r.choice([2, 2, 3]))
        blank_variants(ctx, r, text, r.choice(VALUES), [" ", "\t", "\n"] if r.random() < 0.15 else [" "])
    return {}


WORK = {"single": w_single, "pairs": w_pairs, "triples": w_triples, "rt_units": w_rt_units, "rt_values": w_rt_values,
        "reject": w_reject, "blanks": w_blanks}


def run_case(case):
    ctx = Ctx(case)
    extra = WORK[case["w"]](ctx, case) or {}
    out = _finish(ctx, case)
    out.update(extra)
    return out


# ---------------------------------------------------------------------------
# replay

def replay(path):
    with open(path, encoding="utf-8") as f:
        w = json.load(f)["witness"]
    rp = w["replay"]
    ctx = Ctx({"w": "replay"})
    op = rp["op"]
    if op == "valid_units":
        ctx.valid_units(rp["text"], [tuple(f) for f in rp["factors"]], rp["family"], entries=tuple(rp["entries"]))
    elif op == "valid_quantity":
        ctx.valid_quantity(rp["value"], rp["ws"], rp["utext"], [tuple(f) for f in rp["factors"]], rp["family"])
    elif op == "reject":
        ctx.reject(rp["entry"], rp["text"], rp["family"], rp.get("mech"))
    elif op == "rt_units":
        ctx.rt_units(rp["sys"], rp["dim"], all_entries=True)
    elif op == "rt_value":
        v = float.fromhex(rp["value_hex"])
        ctx.rt_value(rp["sys"], rp["dim"], int(v) if rp.get("int") else v, all_entries=True)
    else:
        print("unknown replay op", op)
        return 2
    print(json.dumps({"replayed": rp, "bad": ctx.bad, "counts": dict(ctx.counts)}, indent=1, default=str, ensure_ascii=False))
    print("REPLAY %s" % ("VIOLATION reproduced" if ctx.bad else "no violation"))
    return 1 if ctx.bad else 0


# ---------------------------------------------------------------------------

def chunks(l, n):
    k = (len(l) + n - 1) // n
    return [l[i:i + k] for i in range(0, len(l), k)]


def main():
    if len(sys.argv) > 2 and sys.argv[1] == "--replay":
        return replay(sys.argv[2])
    thorough = tier() == "thorough"
    run = Run("C18",
              rule="texts handed to parse_units / Units(str) / parse_unitvalue / UnitValue(str). Valid: every one of the 52 "
                   "spellings (47 symbols + um us umol uL uM) x exponent -9..9 (1 written and omitted); every ordered pair of "
                   "spellings x both separators x both orders x an exponent spread (%s); random triples x all 6 orders x random "
                   "separators; each compared with the product of the SI meanings of its symbols (exact rationals) and with its "
                   "re-orderings. Pairs / triples whose symbols imply two different base units of one kind (L->dm, nL->dmm, "
                   "xM->xmol,dm) must raise. Round trip: all 1100 systems x dimension cube [-%d,%d]^3 + axis exponents to +-9 + "
                   "random dims, random doubles (bit patterns, subnormals, 1e-05 style, integers, extremes) x random units: "
                   "str -> parse gives the same exponents, the same base symbol wherever the exponent != 0 and the same bits. "
                   "Malformed: derived from random valid expressions by the families counted below; kept only when a "
                   "recogniser of the documented grammar written in the check says 'outside'. A case is one text (round trip "
                   "of constructed units: one (system, dimension)); distinct = by text; non-trivial = contains at least one "
                   "unit factor / non-zero dimension (not '', not a bare number)."
                   % ("all 18x18" if thorough else "12 combinations", 4 if thorough else 2, 4 if thorough else 2),
              assumptions=["vf/si.py (SI definitions, exact rationals) gives the meaning of each symbol",
                           "documented grammar: symbols separated by '.' or '/', exponent = unsigned positive or negative "
                           "integer directly after the symbol; value and unit separated by whitespace",
                           "Python float() decides what a numeric literal is (nan, inf, 1_0 are numeric)",
                           "exponent 0 / leading zeros / outer whitespace / '_' inside an exponent are not judged",
                           "finite doubles only"])
    run.max_samples = 40
    run.require("accepted_and_correct", "equivalence_checks", "roundtrip_units", "roundtrip_values",
                "rejected_as_required", "rejected:" + BLANK_U, "rejected:" + BLANK_Q,
                "rejected:two-units-one-base-kind", "rejected:unknown-symbol", "rejected:value-glued-to-unit",
                "rejected:non-numeric-value")
    os.makedirs(SCRATCH, exist_ok=True)
    kdir = tempfile.mkdtemp(prefix="c18-keys-", dir=SCRATCH)
    sd = seed()
    cases = [{"w": "single", "seed": sd, "idx": 0}]
    for i, ch in enumerate(chunks(SPELL, 52 if thorough else 26)):
        cases.append({"w": "pairs", "seed": sd, "idx": i, "chunk": ch, "tier": tier()})
    nb = 64 if thorough else 16
    for i in range(nb):
        cases.append({"w": "triples", "seed": sd, "idx": i, "n": 4000 if thorough else 700})
    systems = list(si.ALL_SYSTEMS)
    for i, ch in enumerate(chunks(systems, 110 if thorough else 44)):
        cases.append({"w": "rt_units", "seed": sd, "idx": i, "systems": ch, "cube": 4 if thorough else 2,
                      "extra": 40 if thorough else 6})
    for i in range(nb):
        cases.append({"w": "rt_values", "seed": sd, "idx": i, "n": 20000 if thorough else 6500})
    for i in range(nb):
        cases.append({"w": "reject", "seed": sd, "idx": i, "n": 1000 if thorough else 220})
    if not SKIP_BLANKS:
        for i, ch in enumerate(chunks(SPELL, 26)):
            cases.append({"w": "blanks", "seed": sd, "idx": i, "chunk": ch, "n": 0})
        for i in range(nb):
            cases.append({"w": "blanks", "seed": sd, "idx": 100 + i, "n": 1000 if thorough else 150})
    else:
        run.note("skipped", "blank families skipped by VERIF_C18_SKIP_BLANKS: the verdict cannot be 'held'")
    for c in cases:
        c["dir"] = kdir
    import numpy as np
    allk, allf = [], []
    samples = {}
    accepted = {}
    nbad_total = collections.Counter()
    try:
        res = pmap(FUNC, cases, cpu_budget=1500 if thorough else 300)
        for c, r_ in zip(cases, res):
            cc = {k: v for k, v in c.items() if k not in ("dir", "chunk", "systems")}
            if r_["status"] != "ok":
                if r_["status"] == "exception":
                    run.violation("harness", {"case": cc, "error": r_.get("error"), "tb": r_.get("tb")},
                                  mech={"what": "exception-in-workload"})
                else:
                    run.inconclusive_because("%s in workload %s: %s" % (r_["status"], cc, str(r_)[:300]))
                continue
            v = r_["value"]
            run.evaluations += v["n"]
            for k_, n_ in v["counts"].items():
                run.count(k_, n_)
                if k_.startswith("ok:"):
                    run.count("accepted_and_correct", n_)
                if k_.startswith("rejected:"):
                    run.count("rejected_as_required", n_)
            for k_, n_ in v["nbad"].items():
                nbad_total[k_] += n_
            for b in v["bad"]:
                run.violation(b["what"], b, mech={"what": b["what"], "entry": b.get("entry")})
            for fam, l in v["samples"].items():
                samples.setdefault(fam, [])
                if len(samples[fam]) < 4:
                    samples[fam].extend(l[:4 - len(samples[fam])])
            for k_, l in v["accepted"].items():
                a = accepted.setdefault(k_, [])
                a.extend(l[:max(0, 60 - len(a))])
            if v.get("observed_not_judged"):
                run.note("observed_not_judged", v["observed_not_judged"])
            if v.get("keyfile"):
                z = np.load(v["keyfile"])
                allk.append(z["keys"])
                allf.append(z["flags"])
            elif v.get("keys_inline"):
                allk.append(np.array([k for k, f in v["keys_inline"]], dtype=np.uint64))
                allf.append(np.array([f for k, f in v["keys_inline"]], dtype=bool))
    finally:
        shutil.rmtree(kdir, ignore_errors=True)
    if allk:
        keys = np.concatenate(allk)
        flags = np.concatenate(allf)
        run.distinct = range(int(np.unique(keys).size))
        run.nontrivial = range(int(np.unique(keys[flags]).size))
    for fam in sorted(samples):
        for s in samples[fam][:2]:
            run.samples.append(dict({"family": fam}, **s))
    run.samples = run.samples[:run.max_samples]
    run.note("sample_strings", {fam: samples[fam] for fam in sorted(samples)})
    if nbad_total:
        run.note("violations_by_mechanism", dict(nbad_total))
        run.note("accepted_but_ungrammatical", {k: accepted[k] for k in sorted(accepted)})
    run.exhaustive = False
    run.note("exhaustive_part", "52 spellings x 18 exponents as single factors; all 52x52 ordered pairs x both separators x "
             "both orders x %s; 1100 systems x %d^3 dimension cube%s"
             % ("18x18 exponents" if thorough else "12 exponent combinations", 9 if thorough else 5,
                "" if SKIP_BLANKS else "; a blank at every inner position of every single-factor string and between every "
                                       "ordered pair of symbols"))
    # ---- history workloads: objects used, modified through their setters / re-used, used again (vf/history.py) ----
    from vf.sandbox import run_extra as _run_extra
    from vf.common import seed as _seed, tier as _tier
    _run_extra(run, "vf.history:h_units_inplace", [{"seed": _seed(), "idx": _i} for _i in range(320 if _tier() == "thorough" else 32)], cpu_budget=120, kind_prefix="history: ")
    return run.finish()


if __name__ == "__main__":
    sys.exit(main())
