"""C01 - Deterministic rate law: kinetics functions, exported ODE RHS and one Euler step
all equal the reference mass-action + Bernstein-diffusion law (vf.ref.rate_law)."""
import math
import random
import sys

from vf import gen, ref, si, engines, simhelp
from vf.common import Run, seed, tier, use_repo, chash
from vf.sandbox import pmap

TOL = 1e-12


def nontrivial(desc):
    sp = desc["space"]
    n = gen.ncells(sp)
    hetero = n >= 2 and (len(set(gen.cell_envs(sp))) > 1 or len({round(v, 40) for v in gen.cell_vols(sp)}) > 1)
    high = any(sum(r["sub"].values()) >= 2 or sum(r["prod"].values()) >= 2 for r in desc["reactions"])
    return bool(hetero and (high or any(s["D"] != 0 for s in desc["species"])))


def gen_case(sd, idx, with_python):
    r = gen.rng_for(sd, "C01", idx)
    kind = r.choice(["grid", "graph"])
    one_cell = r.random() < 0.15
    opts = {"space": kind, "explicit_chstt": 0.3,
            "net": {"no_growth": False, "chstt": 0.15, "nreactions": (0, 3)},
            "grid": {"dims": (1, 1) if one_cell else (1, 4), "max_cells": 24 if not with_python else 8},
            "graph": {"nodes": (1, 1) if one_cell else (1, 7 if not with_python else 5), "simple": True}}
    desc = gen.rand_system(r, opts)
    if idx % 50 == 21:
        # diffusion coefficients of extreme but finite magnitude (1e-175 .. 1e-160 or 1e+160 .. 1e+175 in SI), alone: every
        # quantity of the step (D, D/h^2, the harmonic interface mean, D dt) is representable although products such as Di*Dj are not
        e_ = r.choice([-1, 1]) * r.uniform(160, 175)
        for s_ in desc["species"]:
            f_ = 10.0 ** e_
            s_["D"] = {k_: v_ * f_ for k_, v_ in s_["D"].items()} if isinstance(s_["D"], dict) else s_["D"] * f_
        desc["reactions"] = []
        desc["extreme_D"] = True
        if desc["state"] is None:
            desc["state"] = [float(r.randint(0, 50)) for _ in range(len(desc["species"]) * gen.ncells(desc["space"]))]
    if not with_python and idx % 40 == 7:
        # a hub: one node with 255..320 neighbours (more than an 8-bit counter can count), unequal volumes and contacts
        h = desc["h"]
        nleaf = r.choice([255, 256, 257, 300, 320])
        envs_n = len(desc["envs"])
        nodes = [{"vol": (h * r.uniform(2.0, 4.0)) ** 3, "env": r.randrange(envs_n)}] + \
                [{"vol": (h * r.uniform(0.6, 1.8)) ** 3, "env": r.randrange(envs_n)} for _ in range(nleaf)]
        edges = []
        for j in range(1, nleaf + 1):
            a, b = (0, j) if r.random() < 0.5 else (j, 0)
            edges.append({"i": a, "j": b, "sfc": h * h * r.uniform(0.3, 2.0), "dst": h * r.uniform(0.5, 2.0)})
        r.shuffle(edges)
        desc["space"] = {"type": "graph", "nodes": nodes, "edges": edges}
        ncell = nleaf + 1
        S = len(desc["species"])
        desc["state"] = [float(r.randint(0, 50)) for _ in range(S * ncell)]
        desc["chemostats"] = [int(r.random() < 0.05) for _ in range(S * ncell)] if r.random() < 0.5 else None
    return desc


def check_vec(name, got, want, mag, extra_abs, bad, ctx):
    worst = 0.0
    for k, (g, w, m) in enumerate(zip(got, want, mag)):
        if not (isinstance(g, float) and math.isfinite(g)):
            bad.append({"what": name + ": non-finite", "entry": k, "got": repr(g), **ctx})
            return worst
        tol = TOL * (m + abs(w)) + extra_abs[k] + 1e-300
        err = abs(g - w)
        if m + abs(w) > 0:
            worst = max(worst, err / (m + abs(w) + extra_abs[k] / TOL + 1e-300))
        if err > tol:
            bad.append({"what": name + ": differs from the reference rate law", "entry": k, "got": g, "expected": w,
                        "sum_abs_terms": m, **ctx})
            return worst
    return worst


def run_case(case):
    use_repo()
    engines.install()
    import strengths as st
    from strengths import kinetics
    sd, idx, with_python = case["seed"], case["idx"], case["python"]
    desc = gen_case(sd, idx, with_python)
    r = gen.rng_for(sd, "C01r", idx)
    rd = gen.Rendering(r)
    bad = []
    info = {"key": chash(desc), "nontrivial": nontrivial(desc), "paths": []}
    ctx = {"case": {"seed": sd, "idx": idx}}
    try:
        system = gen.render_system(desc, rd)
    except Exception as e:
        return {"bad": [{"what": "valid system rejected", "error": "%s: %s" % (type(e).__name__, e), **ctx}], **info}
    S, n = len(desc["species"]), gen.ncells(desc["space"])
    state = gen.state_of(desc)
    chst = gen.chemostats_of(desc)
    f_free, mag = ref.rate_law(desc, state, None)
    f_mask, _ = ref.rate_law(desc, state, chst)
    zero = [0.0] * (S * n)
    worst = 0.0
    # (a) one Euler step through the engine
    rates = [abs(x) for x in f_free]
    maxrate = max([m / (abs(s) + 1.0) for m, s in zip(mag, state)] + [1e-3])
    if desc.get("extreme_D"):
        maxrate = max([m / (abs(s) + 1.0) for m, s in zip(mag, state)] + [1e-300])      # no floor: the step follows the extreme scale
    dt = 0.02 / maxrate
    if r.random() < 0.2:
        # a step far beyond the stability limit: the explicit step is still x + dt * f(x), entries that overshoot below
        # zero included (the statement is about the step, not about its usefulness)
        dt *= r.choice([60.0, 150.0, 400.0])
        info["overshooting_step"] = True
    osys = gen.mild_sys(r)
    try:
        script = simhelp.make_script(system, r, dt_si=dt, t_sample_si=[0.0, 10 * dt], policy="on_iteration",
                                     t_max_si=10 * dt, usys=osys)
        eng = engines.get("euler")
        eng.setup(script)
        eng.iterate()
        out = eng.get_output()
        eng.finalize()
        t, d = simhelp.output_arrays(out)
        if len(t) != 2:
            bad.append({"what": "euler: expected 2 samples after one iteration", "nsamples": len(t), **ctx})
        else:
            x0 = d[0].reshape(-1).tolist()
            x1 = d[1].reshape(-1).tolist()
            for k in range(S * n):
                if abs(x0[k] - state[k]) > 1e-12 * abs(state[k]):
                    bad.append({"what": "euler: sample 0 is not the system state", "entry": k, "got": x0[k],
                                "expected": state[k], **ctx})
                    break
            dt_eff = float(t[1] - t[0])
            if abs(dt_eff - dt) > 1e-12 * dt:
                bad.append({"what": "euler: step time differs from time_step", "got": dt_eff, "expected": dt, **ctx})
            want = [a + dt * b for a, b in zip(state, f_mask)]
            mg = [dt * m for m in mag]
            ex = [TOL * abs(s_) * 4 for s_ in state]
            worst = max(worst, check_vec("euler step", x1, want, mg, ex, bad, ctx))
            info["paths"].append("euler")
    except Exception as e:
        bad.append({"what": "euler: exception on a valid system", "error": "%s: %s" % (type(e).__name__, e), **ctx})
    # (b) python kinetics
    if with_python:
        usys = gen.mild_sys(r)
        try:
            dd = kinetics.compute_dstatedt(system, state=None, apply_chemostats=False,
                                           units_system=st.UnitsSystem(**si.sys_dict(usys)))
            dim = si.dim_of(dd.units.dim)
            if dim != (0, -1, 1):
                bad.append({"what": "compute_dstatedt: dimension is not amount/time", "dim": dim, **ctx})
            else:
                got = [float(x) * float(si.scale(si.sys_of(dd.units.sys), dim)) for x in dd.value]
                worst = max(worst, check_vec("compute_dstatedt", got, f_free, mag, zero, bad, ctx))
                info["paths"].append("kinetics")
            # a single entry through compute_dspeciesdt with the species given by label
            s_i, c_i = r.randrange(S), r.randrange(n)
            one = kinetics.compute_dspeciesdt(system, desc["species"][s_i]["label"], c_i, None, False,
                                              st.UnitsSystem(**si.sys_dict(usys)))
            if si.dim_of(one.units.dim) != (0, -1, 1):
                bad.append({"what": "compute_dspeciesdt: dimension is not amount/time", **ctx})
            else:
                g = one.value * float(si.scale(si.sys_of(one.units.sys), (0, -1, 1)))
                k = s_i * n + c_i
                check_vec("compute_dspeciesdt", [g], [f_free[k]], [mag[k]], [0.0], bad, ctx)
        except Exception as e:
            bad.append({"what": "kinetics: exception on a valid system", "error": "%s: %s" % (type(e).__name__, e),
                        "mech_hint": "no_reaction_no_neighbour" if _isolated_everywhere(desc) else "other", **ctx})
    # (c) exported ODE right-hand side (one-cell systems)
    if n == 1:
        usys = gen.mild_sys(r)
        try:
            fdx = system.make_dxdtf(st.UnitsSystem(**si.sys_dict(usys)))
            qs = float(si.QUANTITY[usys[2]])
            ts = float(si.TIME[usys[1]])
            x = [v / qs for v in state]
            kept = fdx(0.0, x)
            got = [float(g) * qs / ts for g in kept]
            worst = max(worst, check_vec("make_dxdtf", got, f_mask, mag, zero, bad, ctx))
            # the function is an ODE right-hand side: integrators evaluate it at several states and keep the results (the
            # stages of a Runge-Kutta step).  A second evaluation at another state must follow the law there, and must
            # leave the first result - still held by the caller - what it was
            state2 = [v * r.choice([0.5, 2.0, 3.0]) + r.choice([0.0, 1.0]) for v in state]
            f2, mag2 = ref.rate_law(desc, state2, chst)
            got2 = fdx(0.5, [v / qs for v in state2])
            worst = max(worst, check_vec("make_dxdtf (second evaluation)", [float(g) * qs / ts for g in got2], f2, mag2, zero, bad, ctx))
            again = [float(g) * qs / ts for g in kept]
            if again != got:
                bad.append({"what": "make_dxdtf: a result kept by the caller is changed by the next evaluation", "first_result": got,
                            "same_object_after_second_evaluation": again, **ctx})
            info["paths"].append("dxdtf")
        except Exception as e:
            bad.append({"what": "make_dxdtf: exception on a valid system", "error": "%s: %s" % (type(e).__name__, e), **ctx})
    info["worst_rel"] = worst
    info["bad"] = bad[:5]
    info["sample"] = {"seed": sd, "idx": idx, "space": desc["space"]["type"], "ncells": n, "nspecies": S,
                      "reactions": [gen.eq_string(x["sub"], x["prod"]) for x in desc["reactions"]],
                      "envs": desc["envs"], "units": {k: v for k, v in list(rd.log.items())[:4]}}
    return info


def _isolated_everywhere(desc):
    """some cell has neither a reaction nor an in-bounds neighbour"""
    if desc["reactions"]:
        return False
    sp = desc["space"]
    n = gen.ncells(sp)
    touched = set()
    for (i, j, _, _) in ref.interfaces(sp):
        if sp["type"] == "grid" or i != j:
            touched.add(i)
    return len(touched) < n


def replay(path):
    import json
    w = json.load(open(path))["witness"]
    c = w["case"]
    res = run_case({"seed": c["seed"], "idx": c["idx"], "python": True})
    print(json.dumps(res, indent=1, default=str))
    return 1 if res["bad"] else 0


def main():
    if len(sys.argv) > 2 and sys.argv[1] == "--replay":
        return replay(sys.argv[2])
    run = Run("C01",
              rule="random systems (1-4 species, 0-3 reversible reactions of order 0..4 per side incl. empty sides and "
                   "repeated species, 1-3 environments with scalar / per-environment / 'default' constants, grids w,h,d in 1..4 "
                   "with all boundary mixes, simple graphs with unequal volumes; every nesting level rendered in its own "
                   "random unit system, bare / string / UnitValue forms). Each system: one Euler step via the engine, "
                   "compute_dstatedt + compute_dspeciesdt (subset), make_dxdtf (one-cell systems) against vf.ref.rate_law, "
                   "|impl-ref| <= 1e-12 * sum|terms|. Non-trivial: >= 2 cells that differ in environment or volume AND "
                   "(a reaction of order >= 2 or a diffusing species).",
              assumptions=["reference rate law vf/ref.py and SI table vf/si.py are the oracle",
                           "finite non-negative states and constants within about +-12 decades"])
    run.require("euler_step_checks", "kinetics_checks", "dxdtf_checks")
    thorough = tier() == "thorough"
    n_total = 40000 if thorough else 6400
    n_py = 6000 if thorough else 720
    cases = [{"seed": seed(), "idx": i, "python": i < n_py} for i in range(n_total)]
    res = pmap("vf.checks.c01:run_case", cases, cpu_budget=60)
    worst = 0.0
    for c, r_ in zip(cases, res):
        if r_["status"] != "ok":
            if r_["status"] in ("crash", "hang"):
                run.violation("engine " + r_["status"], {"case": c, "result": {k: r_[k] for k in r_ if k != "i"}})
            elif r_["status"] == "exception":
                run.violation("harness exception", {"case": c, "error": r_.get("error"), "tb": r_.get("tb")})
            else:
                run.inconclusive_because("case %s: %s" % (c, r_["status"]))
            continue
        v = r_["value"]
        run.case(v["key"], nontrivial=v["nontrivial"], sample=v.get("sample"))
        for p in v["paths"]:
            run.count({"euler": "euler_step_checks", "kinetics": "kinetics_checks", "dxdtf": "dxdtf_checks"}[p])
        worst = max(worst, v.get("worst_rel", 0.0))
        for b in v["bad"]:
            run.violation(b["what"].split(":")[0], b, mech={"what": b["what"], "hint": b.get("mech_hint"),
                                                             "error": b.get("error", "")})
    run.note("worst_relative_error_over_sum_abs_terms", worst)
    # ---- history workloads: objects used, modified through their setters / re-used, used again (vf/history.py) ----
    from vf.sandbox import run_extra as _run_extra
    from vf.common import seed as _seed, tier as _tier
    _run_extra(run, "vf.history:h_reaction_setters", [{"seed": _seed(), "idx": _i} for _i in range(1600 if _tier() == "thorough" else 160)], cpu_budget=120, kind_prefix="history: ")
    return run.finish()


if __name__ == "__main__":
    sys.exit(main())
