"""C02 - Every engine conserves every conservation law of the network.

Offline checker over recorded trajectories: for every integer vector c in the left null
space of the stoichiometric matrix restricted to never-chemostated species (exact rational
elimination, vf.ref.left_null_space; includes the unit vector of every species that takes
part in no reaction), sum over cells of c.x must be the same in every recorded sample -
exactly for tau-leap / Gillespie (molecule counts), to rounding for Euler."""
import math
import sys

import numpy as np

from vf import gen, ref, si, engines, simhelp
from vf.common import Run, seed, tier, use_repo, chash
from vf.sandbox import pmap


def conservative_network(r, h):
    """networks built to *have* non-trivial laws (moieties, cycles) next to generic ones"""
    V = h ** 3
    labels = r.sample(gen.LABELS, r.randint(2, 5))
    envs = r.sample(gen.ENVS, r.randint(1, 3))
    typ = 30.0

    def k(order):
        return gen.per_env(r, envs, lambda: r.uniform(0.1, 3.0) * typ ** (1 - order) * V ** (order - 1))
    rx = []
    tmpl = r.choice(["cycle", "binding", "isomer", "dimer", "mixed", "none", "wide"])
    if tmpl == "wide":
        labels = r.sample(gen.LABELS, r.randint(6, 8))       # one reaction changing five or six species at once
    L = labels
    if tmpl == "cycle" and len(L) >= 3:
        for a, b in zip(L[:3], L[1:3] + L[:1]):
            rx.append(({a: 1}, {b: 1}))
    elif tmpl == "binding" and len(L) >= 3:
        rx.append(({L[0]: 1, L[1]: 1}, {L[2]: 1}))
        if len(L) >= 4:
            rx.append(({L[2]: 1}, {L[3]: 1}))
    elif tmpl == "isomer":
        rx.append(({L[0]: 1}, {L[1]: 1}))
    elif tmpl == "wide":
        if r.random() < 0.5:
            rx.append(({L[0]: 1, L[1]: 1, L[2]: 1}, {L[3]: 1, L[4]: 1, L[5]: 1}))
        else:
            rx.append(({L[0]: 1, L[1]: 2}, {L[2]: 1, L[3]: 1, L[4]: 1}))
        if r.random() < 0.5:
            rx.append(({L[5]: 1}, {L[0]: 1}))
    elif tmpl == "dimer":
        rx.append(({L[0]: 2}, {L[1]: 1}))
        if len(L) >= 3:
            rx.append(({L[1]: 1, L[0]: 1}, {L[2]: 1}))
    elif tmpl == "mixed":
        for _ in range(r.randint(1, 3)):
            s_, p_ = gen.rand_reaction(r, L, max_order=3)
            rx.append((s_, p_))
    reactions = []
    for j, (s_, p_) in enumerate(rx):
        n_, m_ = sum(s_.values()), sum(p_.values())
        kf, kr = k(n_), (k(m_) if r.random() < 0.7 else 0.0)
        if n_ >= 2 and m_ > n_:
            kf = 0.0
        if m_ >= 2 and n_ > m_:
            kr = 0.0
        if gen.autocatalytic(s_, p_):
            kf = 0.0
        if gen.autocatalytic(p_, s_):
            kr = 0.0
        if n_ >= 1 and m_ > n_:      # no exponential growth over long runs (tau-leap is undefined once propensity*dt >= 2^63)
            kf = 0.0
        if m_ >= 1 and n_ > m_:
            kr = 0.0
        reactions.append({"sub": s_, "prod": p_, "kf": kf, "kr": kr, "label": None})
    species = []
    for l in labels:
        D = gen.per_env(r, envs, lambda: 10 ** r.uniform(-1.0, 0.7) * h * h) if r.random() < 0.85 else 0.0
        ch = False
        if r.random() < 0.15:
            ch = True if r.random() < 0.5 else {envs[0]: True}
        species.append({"label": l, "D": D, "density": 0.0, "chstt": ch})
    return {"envs": envs, "species": species, "reactions": reactions, "h": h}


def gen_case(sd, idx):
    r = gen.rng_for(sd, "C02", idx)
    h = 10 ** r.uniform(-7, -5)
    net = conservative_network(r, h)
    kind = r.choice(["grid", "graph"])
    if kind == "grid":
        space = gen.rand_grid(r, len(net["envs"]), h, dims=(1, 4), max_cells=24)
    else:
        space = gen.rand_graph(r, len(net["envs"]), h, nodes=(1, 8), simple=False)
    desc = {"envs": net["envs"], "species": net["species"], "reactions": net["reactions"], "space": space,
            "state": None, "chemostats": None, "h": h}
    n = gen.ncells(space) * len(net["species"])
    desc["state"] = [0.0 if r.random() < 0.2 else float(r.randint(1, 60)) for _ in range(n)]
    if r.random() < 0.15:
        # macroscopic counts (beyond 2^24 and 2^31): molecule counts are still exact integers in doubles
        big = r.choice([3e5, 1e6, 5e7])
        desc["state"] = [float(int(x * big)) for x in desc["state"]]
        # the constants of higher-order directions are rescaled with the amounts (k ~ big^(1-order)), as for a larger volume:
        # otherwise a third-order direction at 1e9 molecules has a propensity near 2^63 per step, the regime of the known
        # tau-leap finding - also for a null reaction such as '3 B -> 3 B', which the step estimate does not see
        def _sc(k_, order):
            f_ = big ** (1 - order) if order >= 2 else 1.0
            return {e_: v_ * f_ for e_, v_ in k_.items()} if isinstance(k_, dict) else k_ * f_
        for x_ in desc["reactions"]:
            x_["kf"] = _sc(x_["kf"], sum(x_["sub"].values()))
            x_["kr"] = _sc(x_["kr"], sum(x_["prod"].values()))
    if r.random() < 0.25:
        desc["chemostats"] = gen.default_chemostats(desc)
        # add a flag on one entry of one species (then that species is excluded from the laws)
        k_ = r.randrange(n)
        desc["chemostats"][k_] = 1
    return desc


def run_sized(case):
    """conservation over trajectories whose number of values is an exact multiple of 65536 (or one record more), on grids of
    256 m cells: A <-> B with diffusion, total A + B in every record (exact for tau-leap / Gillespie, to rounding for Euler)"""
    use_repo()
    engines.install()
    import strengths as st
    sd, idx = case["seed"], case["idx"]
    r = gen.rng_for(sd, "C02sized", idx)
    w, h, d = r.choice([(16, 16, 1), (8, 8, 8), (256, 1, 1), (16, 16, 2), (32, 8, 1), (4, 4, 4), (8, 8, 2)])
    C = w * h * d
    net = st.RDNetwork([st.Species("A", D=r.uniform(0.2, 1.0), density=0), st.Species("B", D=r.uniform(0.0, 0.6), density=0)],
                       [st.Reaction("A -> B", kf=0.5, kr=0.2)])
    bc = {"x": r.choice(["reflecting", "periodical"]), "y": r.choice(["reflecting", "periodical"]), "z": r.choice(["reflecting", "periodical"])}
    state = [float(r.randint(0, 40)) for _ in range(2 * C)]
    system = st.RDSystem(net, st.RDGridSpace(w=w, h=h, d=d, boundary_conditions=bc), state=state)
    K = max(2, (65536 // (2 * C)) * r.choice([1, 1, 2]) + r.choice([0, 0, 1]))
    kind_ = engines.KINDS[idx % 3]
    dt = 0.01
    script = st.RDScript(system, t_sample=[0.0], t_max=(K - 1.5) * dt if kind_ != "gillespie" else 1e9, time_step=dt, sampling_policy="on_iteration",
                         rng_seed=r.randrange(2 ** 31), init_state_processing="none")
    t, dd, complete, out = simhelp.run_script(kind_, script, K - 1)
    tot = dd.reshape(dd.shape[0], -1).sum(axis=1)
    want = float(sum(state))
    bad = []
    tol = 0.0 if kind_ != "euler" else 1e-9 * want
    j = next((j for j in range(len(tot)) if abs(tot[j] - want) > tol), None)
    if j is not None:
        bad.append({"what": "%s: total A + B is not constant over a trajectory of %d values" % (kind_, dd.size), "record": j, "records": int(dd.shape[0]),
                    "total": float(tot[j]), "expected": want, "grid": [w, h, d], "case": case})
    return {"bad": bad, "counts": {"sized_trajectories": 1, "sized_trajectories_multiple_of_65536": int(dd.size % 65536 == 0)},
            "key": chash(["sized", sd, idx]), "nontrivial": True, "sample": {"seed": sd, "idx": idx, "grid": [w, h, d], "records": int(dd.shape[0]), "engine": kind_}}


def run_case(case):
    use_repo()
    engines.install()
    sd, idx = case["seed"], case["idx"]
    desc = gen_case(sd, idx)
    r = gen.rng_for(sd, "C02r", idx)
    ctx = {"case": {"seed": sd, "idx": idx}}
    bad, counts = [], {}

    def cnt(k, n_=1):
        counts[k] = counts.get(k, 0) + n_
    S, n = len(desc["species"]), gen.ncells(desc["space"])
    chst = gen.chemostats_of(desc)
    excluded = {s for s in range(S) if any(chst[s * n:(s + 1) * n])}
    laws = ref.left_null_space(desc, excluded)
    reacting = {l for x in desc["reactions"] for l in list(x["sub"]) + list(x["prod"])
                if x["prod"].get(l, 0) != x["sub"].get(l, 0)}
    nontrivial_laws = [c for c in laws if sum(1 for v in c if v) >= 2]
    state = gen.state_of(desc)
    _, mag = ref.rate_law(desc, state, None)
    maxrate = ref.max_rate(desc, state)
    dt = 0.02 / maxrate
    for kind_ in engines.KINDS:
        exact_units = r.random() < 0.7 or kind_ != "euler"
        rd = gen.Rendering(gen.rng_for(sd, "C02rd", idx, kind_), molecule_state=True)
        try:
            system = gen.render_system(desc, rd)
        except Exception as e:
            bad.append({"what": "valid system rejected", "error": "%s: %s" % (type(e).__name__, e), **ctx})
            break
        ms = gen.mild_sys(r)
        osys = (ms[0], ms[1], "molecule" if exact_units else ms[2])
        policy = r.choice(["on_iteration", "on_t_sample", "on_interval"])
        nsteps = {"euler": r.choice([50, 400]), "tauleap": r.choice([50, 400]), "gillespie": r.choice([300, 4000])}[kind_]
        dt_k = dt
        if kind_ == "tauleap" and r.random() < 0.4:
            dt_k = dt * r.choice([10.0, 40.0])      # coarse leaps: draws exceed what the cells hold, counts undershoot below zero
            nsteps = 60
        if kind_ == "euler" and r.random() < 0.2:
            # steps beyond the stability limit (entries overshoot below zero): a few of them only, totals are still conserved
            dt_k = dt * r.choice([60.0, 150.0])
            nsteps = 4
            policy = "on_iteration"
            cnt("euler_overshooting_runs")
        if case.get("long"):
            nsteps *= 10
        horizon = nsteps * dt_k if kind_ != "gillespie" else nsteps / max(sum(mag), 1e-9)
        ts = sorted(r.uniform(0, horizon) for _ in range(r.randint(2, 12)))
        try:
            script = simhelp.make_script(system, r, dt_si=dt_k, t_sample_si=[0.0] + ts, policy=policy, t_max_si=1e6 * horizon + 1.0,
                                         interval_si=horizon / r.randint(3, 20), usys=osys, isp="none",
                                         seed=r.randrange(2 ** 31))
            t, d, complete, out = simhelp.run_script(kind_, script, nsteps)
        except Exception as e:
            bad.append({"what": kind_ + ": exception on a valid system", "error": "%s: %s" % (type(e).__name__, e), **ctx})
            continue
        if d.shape[0] < 2:
            cnt("trajectories_with_single_sample")
            continue
        if not np.all(np.isfinite(d)):
            cnt("euler_trajectories_nonfinite_skipped")
            continue
        tot = d.sum(axis=2)          # (T, S)
        absmax = np.abs(d).sum(axis=2).max(axis=0)   # per species
        cnt("trajectories_" + kind_)
        if kind_ == "tauleap" and np.any(d < 0):
            cnt("tauleap_trajectories_with_negative_counts")
        cnt("samples", d.shape[0])
        for c in laws:
            cv = np.array(c, dtype=float)
            L = tot @ cv
            cnt("law_checks")
            if len([v for v in c if v]) >= 2:
                cnt("nontrivial_law_checks")
            if kind_ != "euler" and exact_units:
                okk = bool(np.all(L == L[0]))
                tol = 0.0
            else:
                scale = float(np.abs(cv) @ absmax) + 1e-300
                steps = np.arange(d.shape[0]) if policy == "on_iteration" else np.full(d.shape[0], nsteps)
                tolv = 1e-12 * (steps + 10) * scale if kind_ == "euler" else np.full(d.shape[0], 1e-12 * scale)
                okk = bool(np.all(np.abs(L - L[0]) <= tolv))
                tol = float(tolv.max())
            if not okk:
                j = int(np.argmax(np.abs(L - L[0])))
                bad.append({"what": kind_ + ": conservation law violated", "law": dict(zip([s["label"] for s in desc["species"]], c)),
                            "sample": j, "L0": float(L[0]), "Lj": float(L[j]), "tolerance": tol, "policy": policy,
                            "space": desc["space"]["type"], "pure_diffusion_species": all(v == 0 or desc["species"][i]["label"] not in reacting for i, v in enumerate(c)),
                            **ctx})
                break
    return {"key": chash(desc), "nontrivial": bool(laws) and (bool(nontrivial_laws) or n >= 2), "counts": counts, "bad": bad[:5],
            "sample": {"seed": sd, "idx": idx, "space": desc["space"]["type"], "ncells": n,
                       "reactions": [gen.eq_string(x["sub"], x["prod"]) for x in desc["reactions"]],
                       "laws": [dict(zip([s["label"] for s in desc["species"]], c)) for c in laws][:4],
                       "bc": desc["space"].get("bc")}}


def main():
    if len(sys.argv) > 2 and sys.argv[1] == "--replay":
        import json
        c = json.load(open(sys.argv[2]))["witness"]["case"]
        res = run_case(c)
        print(json.dumps(res, indent=1, default=str))
        return 1 if res["bad"] else 0
    run = Run("C02",
              rule="networks with conserved moieties / closed cycles / isomerisations / generic reactions / none (pure diffusion), "
                   "on grids (all boundary mixes incl. periodic axes of length 1 and 2, zero-diffusivity environments) and graphs "
                   "(unequal volumes, isolated nodes, self-loops, parallel edges), random chemostats on some; three engines x "
                   "three sampling policies, 50..4000 steps/events (x10 for 'long' cases). Every vector of an exact integer basis "
                   "of the left null space over never-chemostated species is checked at every sample. Non-trivial: a law with "
                   ">= 2 species, or >= 2 cells (diffusion can matter).",
              assumptions=["stochastic trajectories recorded in 'molecule' are compared exactly; others within 1e-12*(steps+10)*sum|c||x|",
                           "Euler trajectories that become non-finite are skipped and counted"])
    run.require("trajectories_euler", "trajectories_tauleap", "trajectories_gillespie", "nontrivial_law_checks")
    thorough = tier() == "thorough"
    n_total = 15000 if thorough else 1600
    cases = [{"seed": seed(), "idx": i, "long": (i % 10 == 0)} for i in range(n_total)]
    res = pmap("vf.checks.c02:run_case", cases, cpu_budget=40)
    for c, r_ in zip(cases, res):
        if r_["status"] != "ok":
            if r_["status"] in ("crash", "hang"):
                run.violation("engine " + r_["status"], {"case": c, "result": {k: r_[k] for k in r_ if k != "i"}})
            elif r_["status"] == "exception":
                run.violation("harness exception", {"case": c, "error": r_.get("error"), "tb": r_.get("tb")})
            else:
                run.inconclusive_because("case %s: %s" % (c, r_["status"]))
            continue
        v = r_["value"]
        run.case(v["key"], nontrivial=v["nontrivial"], sample=v.get("sample"))
        for k, n_ in v["counts"].items():
            run.count(k, n_)
        for b in v["bad"]:
            run.violation(b["what"].split(":")[0], b, mech={"what": b["what"]})
    # ---- history workloads: objects used, modified through their setters / re-used, used again (vf/history.py) ----
    from vf.sandbox import run_extra as _run_extra
    from vf.common import seed as _seed, tier as _tier
    _run_extra(run, "vf.history:h_network_swap", [{"seed": _seed(), "idx": _i} for _i in range(800 if _tier() == "thorough" else 80)], cpu_budget=120, kind_prefix="history: ")
    _run_extra(run, "vf.history:h_fractional_stochastic", [{"seed": _seed(), "idx": _i} for _i in range(1200 if _tier() == "thorough" else 120)], cpu_budget=60, kind_prefix="history: ")
    _run_extra(run, "vf.checks.c02:run_sized", [{"seed": _seed(), "idx": _i} for _i in range(200 if _tier() == "thorough" else 30)], cpu_budget=300)
    run.require("sized_trajectories_multiple_of_65536")
    return run.finish()


if __name__ == "__main__":
    sys.exit(main())
