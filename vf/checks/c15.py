"""C15 - Grid geometry is consistent everywhere, and a grid equals its graph.

Oracle: the reference geometry of vf.ref (index <-> coordinates, face list under each
boundary mode), written from the statement.  Per grid (w, h, d, boundary mix) the monitors are

 (a) index <-> coordinates bijection, every position form (int, tuple, list, object with x,y,z)
 (b) every out-of-range linear index / coordinate triple one step outside the box is rejected
 (c) are_neighbors on every ordered pair of distinct cells (symmetric, == reference relation),
     get_neighbors as a set == reference neighbour set
 (d) neighbour set revealed by kinetics.compute_dstatedt on a pure-diffusion one-hot state
 (e) neighbour multiset revealed by one native Euler step from a one-hot state at every cell
 (f) grid_to_graph: volumes, environments, edge multiset, surface = h^2, distance = h
and, on generated systems over such grids,
 (g) Euler trajectory on grid_to_graph(space) == trajectory on the grid; compute_dstatedt equal
     on both when every periodic axis has length >= 3.
"""
import json
import math
import sys
from collections import Counter

from vf import gen, ref, si, engines, simhelp
from vf.common import Run, seed, tier, use_repo, chash
from vf.sandbox import pmap

TOL = 1e-12          # relative bound of the statement (graph quantities, trajectories)
RATIO_TOL = 1e-9     # |gain / (dt k x) - number of faces|; the quotient is a small integer and the
                     # data path has < 100 roundings (unit conversions, cube root, one Euler step)
AX = ("x", "y", "z")


class XYZ:
    """Coord-like position: an object with x, y, z attributes (also used as return_type)."""

    def __init__(self, x=0, y=0, z=0):
        self.x, self.y, self.z = x, y, z

    def __repr__(self):
        return "XYZ(%r,%r,%r)" % (self.x, self.y, self.z)


def _try(fn, *a, **k):
    try:
        return True, fn(*a, **k)
    except Exception as e:  # the repository signalling a rejection / failing on valid input
        return False, "%s: %s" % (type(e).__name__, str(e)[:200])


class Bad:
    """witness list, capped per (monitor, what) so that a broken tree does not flood the evidence"""

    def __init__(self, ctx, cap=2):
        self.ctx, self.cap, self.items, self.seen = ctx, cap, [], {}

    def add(self, monitor, what, **kw):
        k = (monitor, what)
        self.seen[k] = self.seen.get(k, 0) + 1
        if self.seen[k] <= self.cap:
            self.items.append({"monitor": monitor, "what": what, **kw, **self.ctx})

    def total(self):
        return sum(self.seen.values())


def periodic_axes(sp):
    return [sp["bc"].get(a, "reflecting") == "periodical" for a in AX]


def periodic_lengths_ok(sp):
    """every periodic axis has length >= 3 (no parallel edges / self-loops in the graph)"""
    return all((not p) or L >= 3 for p, L in zip(periodic_axes(sp), (sp["w"], sp["h"], sp["d"])))


def face_counter(sp):
    """directed face multiplicities {(i, j): count}, self-faces included"""
    return Counter(ref.grid_faces(sp))


def undirected_faces(sp):
    """each undirected face once: {frozenset(i, j): count} (a self-face is frozenset({i}))"""
    c = Counter(frozenset(f) for f in ref.grid_faces(sp))
    out = {}
    for k, v in c.items():
        # a face seen from both of its sides (for a self-face: from the +1 and the -1 direction)
        out[k] = v // 2
    return out


def neighbor_sets(sp):
    n = gen.ncells(sp)
    nb = [set() for _ in range(n)]
    for p in ref.grid_neighbor_relation(sp):
        i, j = tuple(p)
        nb[i].add(j)
        nb[j].add(i)
    return nb


def to_si(uv, dim3):
    """SI value of a UnitValue, or None when its dimension is not dim3"""
    if si.dim_of(uv.units.dim) != tuple(dim3):
        return None
    return float(uv.value) * float(si.scale(si.sys_of(uv.units.sys), tuple(dim3)))


def rel_close(a, b, tol=TOL):
    return a is not None and math.isfinite(a) and abs(a - b) <= tol * abs(b)


# ---------------------------------------------------------------------------
# per-grid case: monitors (a)-(f)

def grid_desc(sd, w, h, d, bci):
    """pure-diffusion system description on the grid (geometry fixed by the case, the rest seeded)"""
    r = gen.rng_for(sd, "C15grid", w, h, d, bci)
    hh = 10 ** r.uniform(-7, -4.5)
    n = w * h * d
    envs = ["cyt", "mem", "nuc"]
    sp = {"type": "grid", "w": w, "h": h, "d": d, "cell_env": [r.randrange(len(envs)) for _ in range(n)],
          "cell_vol": hh ** 3 * r.uniform(0.5, 2.0), "bc": dict(gen.BCS[bci])}
    D = 10 ** r.uniform(-1.5, 1.0) * hh * hh
    return {"envs": envs, "species": [{"label": "A", "D": D, "density": 0.0, "chstt": False}], "reactions": [],
            "space": sp, "state": None, "chemostats": None, "h": hh}


def kinetics_cells(case, n, r):
    mode = case.get("py", "some")
    if mode == "none":
        return []
    if mode == "all" or n <= case.get("py_all_upto", 8):
        return list(range(n))
    cells = {0, n - 1}
    while len(cells) < min(n, case.get("py_ncells", 4)):
        cells.add(r.randrange(n))
    return sorted(cells)


def run_grid(case):
    use_repo()
    engines.install()
    import strengths as st
    from strengths import kinetics, coarsegrain
    sd, w, h, d, bci = case["seed"], case["w"], case["h"], case["d"], case["bc"]
    desc = grid_desc(sd, w, h, d, bci)
    sp = desc["space"]
    n = w * h * d
    r = gen.rng_for(sd, "C15r", w, h, d, bci)
    ctx = {"case": dict(case), "grid": [w, h, d], "bc": sp["bc"]}
    bad = Bad(ctx)
    cnt = Counter()
    info = {"key": "grid %dx%dx%d %s" % (w, h, d, "".join("p" if p else "r" for p in periodic_axes(sp))),
            "nontrivial": n >= 2}
    rd = gen.Rendering(r)
    ok, system = _try(gen.render_system, desc, rd)
    if not ok:
        bad.add("setup", "valid pure-diffusion grid system rejected", error=system)
        return {**info, "bad": bad.items, "bad_total": bad.total(), "counts": dict(cnt), "sample": None}
    G = system.space
    nb = neighbor_sets(sp)
    faces = face_counter(sp)
    coords = [ref.grid_coords(sp, i) for i in range(n)]

    # ---- (a) index <-> coordinates, all forms --------------------------------------
    for i in range(n):
        x, y, z = coords[i]
        assert i == z * w * h + y * w + x          # the reference itself follows the statement
        ok, got = _try(G.get_cell_coordinates, i)
        cnt["a_coordinates"] += 1
        if not ok:
            bad.add("a", "get_cell_coordinates raised on a valid index", index=i, error=got)
        elif not (isinstance(got, tuple) and len(got) == 3 and tuple(got) == (x, y, z)):
            bad.add("a", "get_cell_coordinates differs from (i%w, (i//w)%h, i//(w*h))", index=i, got=repr(got),
                    expected=[x, y, z])
        ok, o = _try(G.get_cell_coordinates, i, XYZ)
        cnt["a_coordinates_return_type"] += 1
        if not ok:
            bad.add("a", "get_cell_coordinates(return_type=class) raised on a valid index", index=i, error=o)
        elif not (isinstance(o, XYZ) and (o.x, o.y, o.z) == (x, y, z)):
            bad.add("a", "get_cell_coordinates(return_type=class) differs from the reference", index=i, got=repr(o),
                    expected=[x, y, z])
        for fname, pos in (("int", i), ("tuple", (x, y, z)), ("list", [x, y, z]), ("object", XYZ(x, y, z))):
            ok, gi = _try(G.get_cell_index, pos)
            cnt["a_index"] += 1
            if not ok:
                bad.add("a", "get_cell_index raised on a valid position", form=fname, position=repr(pos), error=gi)
            elif not (gi == i):
                bad.add("a", "get_cell_index differs from z*w*h + y*w + x", form=fname, position=repr(pos),
                        got=repr(gi), expected=i)
            ok, wb = _try(G.is_within_bounds, pos)
            cnt["a_within_bounds"] += 1
            if not ok or not wb:
                bad.add("a", "is_within_bounds is not True on a valid position", form=fname, position=repr(pos),
                        got=repr(wb))
            ok, ev = _try(G.get_cell_env, pos)
            cnt["a_cell_env"] += 1
            if not ok or not (ev == sp["cell_env"][i]):
                bad.add("a", "get_cell_env differs from the environment of the cell", form=fname, position=repr(pos),
                        got=repr(ev), expected=sp["cell_env"][i])
        # round trip through the repository's own functions
        ok, rt = _try(lambda k: G.get_cell_index(G.get_cell_coordinates(k)), i)
        cnt["a_roundtrip"] += 1
        if not ok or rt != i:
            bad.add("a", "get_cell_index(get_cell_coordinates(i)) != i", index=i, got=repr(rt))

    # ---- (b) positions outside the grid are rejected --------------------------------
    outside = [("int", k) for k in range(-n - 2, 2 * n + 3) if not (0 <= k < n)]
    n_lin = len(outside)
    for cx in range(-1, w + 1):
        for cy in range(-1, h + 1):
            for cz in range(-1, d + 1):
                if 0 <= cx < w and 0 <= cy < h and 0 <= cz < d:
                    continue
                outside.append(("tuple", (cx, cy, cz)))
                outside.append(("list", [cx, cy, cz]))
                outside.append(("object", XYZ(cx, cy, cz)))
    valid = n - 1
    for fname, pos in outside:
        calls = [("get_cell_index", G.get_cell_index, (pos,)),
                 ("get_cell_env", G.get_cell_env, (pos,)),
                 ("get_neighbors", G.get_neighbors, (pos,)),
                 ("are_neighbors(pos, valid)", G.are_neighbors, (pos, valid)),
                 ("are_neighbors(valid, pos)", G.are_neighbors, (valid, pos))]
        if fname == "int":
            calls.append(("get_cell_coordinates", G.get_cell_coordinates, (pos,)))
        for cname, fn, args in calls:
            ok, v = _try(fn, *args)
            cnt["b_reject"] += 1
            if ok:
                bad.add("b", "out-of-range position accepted by " + cname.split("(")[0], call=cname, form=fname,
                        position=repr(pos), returned=repr(v)[:80])
        ok, v = _try(G.is_within_bounds, pos)
        cnt["b_reject"] += 1
        if ok and v:
            bad.add("b", "out-of-range position accepted by is_within_bounds", call="is_within_bounds", form=fname,
                    position=repr(pos), returned=repr(v))
        elif not ok:
            cnt["b_within_bounds_raised"] += 1
    cnt["b_linear_positions"] += n_lin
    cnt["b_coordinate_positions"] += len(outside) - n_lin

    # ---- (c) are_neighbors / get_neighbors -----------------------------------------
    A = [[None] * n for _ in range(n)]
    for i in range(n):
        for j in range(n):
            if i == j:
                continue
            ok, a = _try(G.are_neighbors, i, j)
            cnt["c_pairs"] += 1
            if not ok:
                bad.add("c", "are_neighbors raised on valid cells", i=i, j=j, error=a)
                continue
            A[i][j] = bool(a)
            if bool(a) != (j in nb[i]):
                bad.add("c", "are_neighbors differs from the reference relation", i=i, j=j, ci=coords[i],
                        cj=coords[j], got=bool(a), expected=(j in nb[i]))
    for i in range(n):
        for j in range(i + 1, n):
            cnt["c_symmetry"] += 1
            if A[i][j] is not None and A[j][i] is not None and A[i][j] != A[j][i]:
                bad.add("c", "are_neighbors is not symmetric", i=i, j=j, ij=A[i][j], ji=A[j][i])
    if case.get("mixed_forms", True):
        fm = lambda k, q: (k, tuple(coords[k]), list(coords[k]), XYZ(*coords[k]))[q % 4]
        for i in range(n):
            for j in range(n):
                if i == j:
                    continue
                q1, q2 = (i * 7 + j) % 4, (i + 3 * j + 1) % 4
                if q1 == 0 and q2 == 0:
                    q2 = 3
                ok, a = _try(G.are_neighbors, fm(i, q1), fm(j, q2))
                cnt["c_pairs_mixed_forms"] += 1
                if not ok or bool(a) != (j in nb[i]):
                    bad.add("c", "are_neighbors (tuple/list/object forms) differs from the reference relation", i=i, j=j,
                            forms=[q1, q2], got=repr(a), expected=(j in nb[i]))
    for i in range(n):
        for fname, pos in (("int", i), ("tuple", tuple(coords[i])), ("object", XYZ(*coords[i]))):
            ok, g = _try(G.get_neighbors, pos)
            cnt["c_get_neighbors"] += 1
            if not ok:
                bad.add("c", "get_neighbors raised on a valid cell", i=i, form=fname, error=g)
                continue
            try:
                gs = {int(v) for v in g}
                exact = all(int(v) == v for v in g)
            except Exception:
                gs, exact = None, False
            if gs is None or not exact or (gs - {i}) != nb[i]:
                bad.add("c", "get_neighbors (as a set, self excluded) differs from the reference neighbour set", i=i,
                        ci=coords[i], form=fname, got=repr(g)[:120], expected=sorted(nb[i]))

    # ---- (c') the relation follows the setting of each axis also when the setting is CHANGED on an existing grid object
    #      (set_boundary_conditions after the grid has been queried), and back
    import copy as _copy
    Gc = _copy.deepcopy(G)
    orig_bc = dict(sp["bc"])
    for flip in ("x", "y", "z", "all"):
        nbc = dict(orig_bc)
        for ax in ("x", "y", "z"):
            if flip in (ax, "all"):
                nbc[ax] = "periodical" if nbc[ax] == "reflecting" else "reflecting"
        sp2 = dict(sp, bc=nbc)
        nb2 = neighbor_sets(sp2)
        handed = gen.bc_dict_form(nbc, r)
        ok, e_ = _try(Gc.set_boundary_conditions, handed)
        for k_ in list(handed):                 # the caller's dictionary is the caller's: editing it afterwards changes nothing
            handed[k_] = "periodical" if handed[k_] == "reflecting" else "reflecting"
        handed["x"] = "reflecting" if nbc["x"] == "periodical" else "periodical"
        if not ok:
            bad.add("c", "set_boundary_conditions raised on valid conditions", bc=nbc, error=e_)
            continue
        for i in range(n):
            ok, g = _try(Gc.get_neighbors, i)
            cnt["c_get_neighbors_after_bc_change"] += 1
            if not ok or ({int(v) for v in g} - {i}) != nb2[i]:
                bad.add("c", "after set_boundary_conditions: get_neighbors does not follow the new setting", i=i,
                        old_bc=orig_bc, new_bc=nbc, got=repr(g)[:120], expected=sorted(nb2[i]))
                break
        for i in range(n):
            for j in range(n):
                if i != j:
                    ok, a = _try(Gc.are_neighbors, i, j)
                    cnt["c_pairs_after_bc_change"] += 1
                    if not ok or bool(a) != (j in nb2[i]):
                        bad.add("c", "after set_boundary_conditions: are_neighbors does not follow the new setting", i=i, j=j,
                                new_bc=nbc, got=repr(a), expected=(j in nb2[i]))
                        break
            else:
                continue
            break

    # ---- pure-diffusion constants ---------------------------------------------------
    hcell = sp["cell_vol"] ** (1.0 / 3.0)
    kd = desc["species"][0]["D"] / (hcell * hcell)          # first-order constant per face, 1/s
    X = float(r.randint(50, 5000))

    # ---- (d) neighbour set revealed by the Python kinetics --------------------------
    unit_faces = periodic_lengths_ok(sp)
    kcells = kinetics_cells(case, n, r)
    for i in kcells:
        x = [0.0] * n
        x[i] = X
        usys = gen.mild_sys(r)
        ok, dd = _try(kinetics.compute_dstatedt, system, st.UnitArray(x, "molecule"), False,
                      st.UnitsSystem(**si.sys_dict(usys)))
        cnt["d_one_hot_states"] += 1
        if not ok:
            bad.add("d", "compute_dstatedt raised on a pure-diffusion one-hot state", cell=i, error=dd)
            continue
        if si.dim_of(dd.units.dim) != (0, -1, 1) or len(dd.value) != n:
            bad.add("d", "compute_dstatedt: wrong dimension or length", cell=i, dim=si.dim_of(dd.units.dim),
                    length=len(dd.value))
            continue
        sc = float(si.scale(si.sys_of(dd.units.sys), (0, -1, 1)))
        der = [float(v) * sc for v in dd.value]
        gainers = {j for j in range(n) if j != i and der[j] > 0}
        losers = {j for j in range(n) if j != i and der[j] < 0}
        cnt["d_entries"] += n
        if gainers != nb[i] or losers:
            bad.add("d", "kinetics: cells gaining from a one-hot cell differ from the reference neighbours", cell=i,
                    ci=coords[i], got=sorted(gainers), negative=sorted(losers), expected=sorted(nb[i]))
        if not (der[i] <= 0) or (der[i] < 0) != bool(nb[i]):
            bad.add("d", "kinetics: the one-hot cell loses iff it has neighbours", cell=i, derivative=der[i],
                    neighbours=sorted(nb[i]))
        if unit_faces:
            # every neighbour is reached through exactly one face: gain = k x, loss = deg k x
            cnt["d_magnitude_checks"] += 1
            for j in sorted(nb[i]):
                if not rel_close(der[j], kd * X, 1e-11):
                    bad.add("d", "kinetics: gain of a neighbour differs from D/h^2 * x", cell=i, neighbour=j,
                            got=der[j], expected=kd * X)
                    break
            if not (abs(der[i] + len(nb[i]) * kd * X) <= 1e-11 * max(1, len(nb[i])) * kd * X):
                bad.add("d", "kinetics: loss of the one-hot cell differs from deg * D/h^2 * x", cell=i, got=der[i],
                        expected=-len(nb[i]) * kd * X)

    # ---- (e) neighbour multiset revealed by the native engine -----------------------
    dt = 0.05 / kd
    osys = gen.mild_sys(r)
    row0 = None
    for i in range(n):
        x = [0.0] * n
        x[i] = X
        try:
            system.state = st.UnitArray(x, "molecule")
            script = simhelp.make_script(system, r, dt_si=dt, t_sample_si=[0.0], policy="on_iteration",
                                         t_max_si=10 * dt, usys=osys)
            eng = engines.get("euler")
            eng.setup(script)
            eng.iterate()
            out = eng.get_output()
            eng.finalize()
            t, dat = simhelp.output_arrays(out)
        except Exception as e:
            bad.add("e", "euler: exception on a pure-diffusion one-hot state", cell=i,
                    error="%s: %s" % (type(e).__name__, e))
            continue
        cnt["e_one_hot_steps"] += 1
        if len(t) != 2:
            bad.add("e", "euler: expected 2 samples after one iteration", cell=i, nsamples=len(t))
            continue
        x0 = dat[0, 0, :].tolist()
        x1 = dat[1, 0, :].tolist()
        dte = float(t[1] - t[0])
        if any(abs(a - b) > TOL * X for a, b in zip(x0, x)) or not (math.isfinite(dte) and dte > 0):
            bad.add("e", "euler: sample 0 is not the one-hot state / no time step", cell=i, x0=x0[:8], dt=dte)
            continue
        unit = dte * kd * X
        row = [(x1[j] - x0[j]) / unit for j in range(n)]
        want = [faces.get((i, j), 0) for j in range(n)]
        want[i] = -sum(c for (a, b), c in faces.items() if a == i and b != i)
        cnt["e_entries"] += n
        if i == 0:
            row0 = [round(v, 6) for v in row[:24]]
        if any(not (math.isfinite(g) and abs(g - wv) <= RATIO_TOL * max(1, abs(wv))) for g, wv in zip(row, want)):
            diff = [j for j in range(n) if not (math.isfinite(row[j]) and abs(row[j] - want[j]) <= RATIO_TOL * max(1, abs(want[j])))]
            bad.add("e", "engine: gain / (dt * D/h^2 * x) differs from the number of faces of the reference", cell=i,
                    ci=coords[i], cells=diff[:8], got=[row[j] for j in diff[:8]], expected=[want[j] for j in diff[:8]])

    # ---- (f) grid_to_graph ----------------------------------------------------------
    ok, graph = _try(coarsegrain.grid_to_graph, G)
    cnt["f_conversions"] += 1
    nloops = None
    if not ok:
        bad.add("f", "grid_to_graph raised on a valid grid", error=graph)
    else:
        try:
            nodes, edges = list(graph.nodes), list(graph.edges)
            if len(nodes) != n:
                bad.add("f", "grid_to_graph: number of nodes differs from the number of cells", got=len(nodes), expected=n)
            else:
                for i, nd in enumerate(nodes):
                    cnt["f_nodes"] += 1
                    v = to_si(nd.volume, gen.VOL_DIM)
                    if not rel_close(v, sp["cell_vol"]):
                        bad.add("f", "grid_to_graph: node volume differs from the cell volume", node=i, got=v,
                                expected=sp["cell_vol"])
                    if nd.environment != sp["cell_env"][i]:
                        bad.add("f", "grid_to_graph: node environment differs from the cell environment", node=i,
                                got=nd.environment, expected=sp["cell_env"][i])
                va = graph.get_cell_vol_array()
                ea = list(graph.get_cell_env_array())
                sc = float(si.scale(si.sys_of(va.units.sys), gen.VOL_DIM)) if si.dim_of(va.units.dim) == gen.VOL_DIM else float("nan")
                if [int(e) for e in ea] != list(sp["cell_env"]) or \
                        any(not rel_close(float(v) * sc, sp["cell_vol"]) for v in va.value):
                    bad.add("f", "grid_to_graph: volume / environment arrays of the graph differ from the grid",
                            envs=ea[:10])
            got = Counter()
            inrange = True
            for e in edges:
                cnt["f_edges"] += 1
                if not (0 <= e.i < n and 0 <= e.j < n):
                    inrange = False
                    bad.add("f", "grid_to_graph: edge endpoint out of range", edge=[e.i, e.j])
                    continue
                got[frozenset((e.i, e.j))] += 1
                s_, l_ = to_si(e.surface, gen.SFC_DIM), to_si(e.distance, gen.LEN_DIM)
                if not rel_close(s_, hcell * hcell):
                    bad.add("f", "grid_to_graph: edge surface differs from a cell face h^2", edge=[e.i, e.j], got=s_,
                            expected=hcell * hcell)
                if not rel_close(l_, hcell):
                    bad.add("f", "grid_to_graph: edge distance differs from a cell edge h", edge=[e.i, e.j], got=l_,
                            expected=hcell)
            want = undirected_faces(sp)
            got_pairs = {k: v for k, v in got.items() if len(k) == 2}
            want_pairs = {k: v for k, v in want.items() if len(k) == 2}
            cnt["f_edge_multisets"] += 1
            if inrange and got_pairs != want_pairs:
                miss = [(sorted(k), v, got_pairs.get(k, 0)) for k, v in want_pairs.items() if got_pairs.get(k, 0) != v]
                extra = [(sorted(k), 0, v) for k, v in got_pairs.items() if k not in want_pairs]
                bad.add("f", "grid_to_graph: edge multiset differs from the reference face multiset",
                        pair_expected_got=(miss + extra)[:6])
            # self-loops carry no flux: at most the self-faces of the reference (periodic axis of length 1)
            loops = {k: v for k, v in got.items() if len(k) == 1}
            nloops = sum(loops.values())
            if any(v > want.get(k, 0) for k, v in loops.items()):
                bad.add("f", "grid_to_graph: self-loop where the grid has no self-face", loops=[(sorted(k), v) for k, v in loops.items()][:6])
        except Exception as e:
            bad.add("f", "grid_to_graph: result cannot be inspected", error="%s: %s" % (type(e).__name__, e))

    info["counts"] = dict(cnt)
    info["bad"] = bad.items[:14]
    info["bad_total"] = bad.total()
    info["sample"] = {"grid": [w, h, d], "bc": sp["bc"], "ncells": n, "units": {k: v for k, v in list(rd.log.items())[:3]},
                      "reference_neighbours_of_cell_0": sorted(nb[0]),
                      "engine_gain_over_dt_k_x_from_cell_0": row0,
                      "graph_edges": None if not ok else len(graph.edges), "graph_self_loops": nloops,
                      "kinetics_one_hot_cells": kcells[:12]}
    return info


# ---------------------------------------------------------------------------
# (g) grid - graph equivalence on generated systems

def gen_equiv(case):
    """system description on a grid with the boundary mix of the case; for `python` cases every
    periodic axis has length >= 3 (rejection sampling, seeded)"""
    sd, idx = case["seed"], case["idx"]
    bc = dict(gen.BCS[idx % 8])
    lo, hi = case.get("dims", (1, 4))
    for attempt in range(2000):
        r = gen.rng_for(sd, "C15g", idx, attempt)
        opts = {"space": "grid", "explicit_chstt": 0.3,
                "net": {"chstt": 0.15, "nreactions": (0, 3), "p_diff": 0.9,
                        "nspecies": (1, 2) if case["python"] else (1, 4)},
                "grid": {"dims": (lo, hi), "max_cells": case.get("max_cells", 64)}}
        desc = gen.rand_system(r, opts)
        desc["space"]["bc"] = bc
        if not case["python"] and idx % 20 == 13:
            # diffusion coefficients of extreme but finite magnitude, alone (D, D/h^2, the interface mean and D dt are all
            # representable; a product Di*Dj is not): grid and graph must still agree
            e_ = r.choice([-1, 1]) * r.uniform(160, 175)
            for s_ in desc["species"]:
                f_ = 10.0 ** e_
                s_["D"] = {k_: v_ * f_ for k_, v_ in s_["D"].items()} if isinstance(s_["D"], dict) else s_["D"] * f_
            desc["reactions"] = []
            desc["extreme_D"] = True
            if desc["state"] is None:
                desc["state"] = [float(r.randint(0, 50)) for _ in range(len(desc["species"]) * gen.ncells(desc["space"]))]
        if not case["python"] or periodic_lengths_ok(desc["space"]):
            return desc, attempt
    raise AssertionError("no grid with periodic axes of length >= 3 found")


def run_equiv(case):
    use_repo()
    engines.install()
    import numpy as np
    import strengths as st
    from strengths import kinetics, coarsegrain
    sd, idx = case["seed"], case["idx"]
    desc, attempt = gen_equiv(case)
    sp = desc["space"]
    n, S = gen.ncells(sp), len(desc["species"])
    ctx = {"case": dict(case), "grid": [sp["w"], sp["h"], sp["d"]], "bc": sp["bc"]}
    bad = Bad(ctx)
    cnt = Counter()
    diffusing = any((s["D"] != 0) if not isinstance(s["D"], dict) else any(s["D"].values()) for s in desc["species"])
    info = {"key": chash(desc), "nontrivial": bool(n >= 2 and diffusing)}
    r = gen.rng_for(sd, "C15gr", idx)
    rd = gen.Rendering(r)
    try:
        system = gen.render_system(desc, rd)
        graph = coarsegrain.grid_to_graph(system.space)
        gsys = st.RDSystem(system.network, space=graph, state=system.state, chemostats=list(system.chemostats),
                           units_system=system.units_system)
    except Exception as e:
        bad.add("g", "valid grid system / its graph rejected", error="%s: %s" % (type(e).__name__, e))
        return {**info, "bad": bad.items, "bad_total": bad.total(), "counts": dict(cnt), "sample": None}
    state = gen.state_of(desc)
    f_free, mag = ref.rate_law(desc, state, None)          # used for the step size and error scales only
    maxrate = ref.max_rate(desc, state)
    if desc.get("extreme_D"):
        maxrate = max([m / (abs(s_) + 1.0) for m, s_ in zip(mag, state)] + [1e-300])     # no floor: the step follows the extreme scale
        cnt["g_extreme_D_cases"] += 1
    dt = 0.02 / maxrate
    nsteps = case.get("steps", 10)
    osys = gen.mild_sys(r)
    worst = 0.0
    traj = []
    try:
        for k, sysk in enumerate((system, gsys)):
            rs = gen.rng_for(sd, "C15gs", idx)             # same script on both
            script = simhelp.make_script(sysk, rs, dt_si=dt, t_sample_si=[0.0], policy="on_iteration",
                                         t_max_si=1000 * dt, usys=osys)
            eng = engines.get("euler")
            eng.setup(script)
            eng.iterate_n(nsteps)
            out = eng.get_output()
            eng.finalize()
            traj.append(simhelp.output_arrays(out))
    except Exception as e:
        bad.add("g", "euler: exception on a valid system (grid or its graph)", which=len(traj),
                error="%s: %s" % (type(e).__name__, e))
    if len(traj) == 2:
        (t1, d1), (t2, d2) = traj
        if d1.shape != d2.shape or len(t1) != nsteps + 1:
            bad.add("g", "euler: number of samples differs between grid and graph", on_grid=list(d1.shape), on_graph=list(d2.shape))
        elif not (np.isfinite(d1).all()):
            cnt["g_euler_nonfinite_skipped"] += 1
        else:
            scale = float(max(np.abs(d1).max(), 1e-300))
            err = np.abs(d1 - d2)
            cnt["g_euler_trajectories"] += 1
            cnt["g_euler_entries"] += int(d1.size)
            if not np.isfinite(d2).all() or float(err.max()) > TOL * scale:
                k = np.unravel_index(int(np.nanargmax(np.where(np.isfinite(err), err, np.inf))), err.shape)
                bad.add("g", "euler: trajectory on grid_to_graph(space) differs from the trajectory on the grid",
                        at={"sample": int(k[0]), "species": int(k[1]), "cell": int(k[2])}, on_grid=float(d1[k]),
                        on_graph=float(d2[k]), scale=scale)
            else:
                worst = float(err.max()) / scale
            if np.abs(t1 - t2).max() > TOL * abs(t1[-1]):
                bad.add("g", "euler: sample times differ between grid and graph", on_grid=t1.tolist()[:4], on_graph=t2.tolist()[:4])
    if case["python"] and periodic_lengths_ok(sp):
        usys = gen.mild_sys(r)
        ach = r.random() < 0.5
        try:
            us = st.UnitsSystem(**si.sys_dict(usys))
            a = kinetics.compute_dstatedt(system, None, ach, us)
            b = kinetics.compute_dstatedt(gsys, None, ach, us)
            if si.dim_of(a.units.dim) != (0, -1, 1) or si.dim_of(b.units.dim) != (0, -1, 1):
                bad.add("g", "kinetics: dimension is not amount/time")
            else:
                va = [float(v) * float(si.scale(si.sys_of(a.units.sys), (0, -1, 1))) for v in a.value]
                vb = [float(v) * float(si.scale(si.sys_of(b.units.sys), (0, -1, 1))) for v in b.value]
                cnt["g_kinetics_systems"] += 1
                cnt["g_kinetics_entries"] += len(va)
                for k in range(S * n):
                    if not (math.isfinite(va[k]) and math.isfinite(vb[k])) or abs(va[k] - vb[k]) > TOL * mag[k] + 1e-300:
                        bad.add("g", "kinetics: compute_dstatedt on the graph differs from the grid", entry=k,
                                species=k // n, cell=k % n, on_grid=va[k], on_graph=vb[k], sum_abs_terms=mag[k],
                                apply_chemostats=ach)
                        break
        except Exception as e:
            bad.add("g", "kinetics: exception on a valid system (grid or its graph)",
                    error="%s: %s" % (type(e).__name__, e))
    info["counts"] = dict(cnt)
    info["bad"] = bad.items[:8]
    info["bad_total"] = bad.total()
    info["worst_rel"] = worst
    info["sample"] = {"workload": "grid-graph equivalence", "seed": sd, "idx": idx, "grid": [sp["w"], sp["h"], sp["d"]],
                      "bc": sp["bc"], "nspecies": S, "graph_edges": len(graph.edges),
                      "reactions": [gen.eq_string(x["sub"], x["prod"]) for x in desc["reactions"]],
                      "python_kinetics": bool(case["python"])}
    return info


# ---------------------------------------------------------------------------

def run_huge(case):
    """A grid of more than 65536 cells (65600 x 1 x 1 and 257 x 256 x 1, periodic) and its graph: index <-> coordinates at both ends,
    and the neighbour relation of grid and graph on pairs around every 2^16 boundary, the wrap-around pair, and pairs whose packed
    16-bit indices would collide."""
    use_repo()
    import strengths as st
    sd, idx = case["seed"], case["idx"]
    r = gen.rng_for(sd, "C15huge", idx)
    w, h, d = [(65600, 1, 1), (257, 256, 1), (1, 65700, 1)][idx % 3]
    bc = {"x": "periodical", "y": "periodical", "z": "reflecting"}
    grid = st.RDGridSpace(w=w, h=h, d=d, boundary_conditions=bc)
    n = w * h * d
    sp = {"type": "grid", "w": w, "h": h, "d": d, "bc": bc}
    bad, counts = [], {"huge_grids": 1}
    from strengths import coarsegrain
    graph = coarsegrain.grid_to_graph(grid)
    if graph.size() != n:
        bad.append({"what": "huge grid: the graph does not have one node per cell", "cells": n, "nodes": graph.size(), "case": case})
        return {"bad": bad, "counts": counts, "key": None}

    def nbrs(i):
        x, y, z = ref.grid_coords(sp, i)
        out = set()
        for ax, (dx, dy, dz) in (("x", (1, 0, 0)), ("x", (-1, 0, 0)), ("y", (0, 1, 0)), ("y", (0, -1, 0))):
            xn, yn = x + dx, y + dy
            if bc[ax] == "periodical":
                xn, yn = xn % w, yn % h
            if 0 <= xn < w and 0 <= yn < h:
                j = ref.grid_index(sp, xn, yn, z)
                if j != i:
                    out.add(j)
        return out
    probes = {0, 1, 2, 63, 65535, 65536, 65537, 65538, n - 1, n - 2, 131071 % n, 65599 % n} | {r.randrange(n) for _ in range(20)}
    pairs = set()
    for i in probes:
        for j in list(nbrs(i)) + [(i + 65536) % n, (i + 65538) % n, (i ^ 65536) % n, r.randrange(n), (i * 65536 + 1) % n]:
            if i != j:
                pairs.add((i, j))
    for i, j in sorted(pairs):
        want = j in nbrs(i)
        counts["huge_pair_checks"] = counts.get("huge_pair_checks", 0) + 1
        got = {"grid.are_neighbors": bool(grid.are_neighbors(i, j)), "graph.are_neighbors": bool(graph.are_neighbors(i, j)),
               "graph.get_edge": graph.get_edge(i, j) is not None}
        e = graph.get_edge(i, j)
        if e is not None and {int(e.i), int(e.j)} != {i, j}:
            bad.append({"what": "huge grid: get_edge(i, j) returned an edge between other nodes", "i": i, "j": j, "edge": [int(e.i), int(e.j)], "grid": [w, h, d], "case": case})
            break
        wrong = [k_ for k_, v_ in got.items() if v_ != want]
        if wrong:
            bad.append({"what": "huge grid: neighbour relation differs from the grid's geometry", "i": i, "j": j, "expected_neighbours": want, "wrong": wrong,
                        "grid": [w, h, d], "case": case})
            break
    for i in sorted(probes):
        c_ = tuple(grid.get_cell_coordinates(i))
        x, y, z = ref.grid_coords(sp, i)
        counts["huge_index_checks"] = counts.get("huge_index_checks", 0) + 1
        if tuple(int(v) for v in c_) != (x, y, z) or grid.get_cell_index((x, y, z)) != i:
            bad.append({"what": "huge grid: index <-> coordinates", "index": i, "got": [int(v) for v in c_], "expected": [x, y, z], "case": case})
            break
    return {"bad": bad[:3], "counts": counts, "key": chash(["huge", sd, idx]), "nontrivial": True, "sample": {"seed": sd, "idx": idx, "grid": [w, h, d]}}


def replay(path):
    w = json.load(open(path))["witness"]
    c = w["case"]
    res = run_equiv(c) if c.get("kind") == "equiv" else run_grid(c)
    print(json.dumps(res, indent=1, default=str))
    return 1 if res["bad"] else 0


MONITORS = {"a": ["a_coordinates", "a_index"], "b": ["b_reject"], "c": ["c_pairs", "c_get_neighbors"],
            "d": ["d_entries"], "e": ["e_entries"], "f": ["f_edge_multisets", "f_edges"],
            "g": ["g_euler_trajectories", "g_kinetics_systems"]}


def main():
    if len(sys.argv) > 2 and sys.argv[1] == "--replay":
        return replay(sys.argv[2])
    thorough = tier() == "thorough"
    L = 6 if thorough else 4
    run = Run("C15",
              rule="EXHAUSTIVE over all grids w,h,d in 1..%d x 8 reflecting/periodic mixes (%d grids; environments, cell "
                   "volume, D and unit systems seeded): every cell x every position form (int, tuple, list, object) for "
                   "index<->coordinates; every linear index in [-size-2, 2*size+2] outside [0,size) and every coordinate "
                   "triple of the box grown by one step (tuple, list, object) must be rejected by get_cell_index, "
                   "get_cell_coordinates, is_within_bounds, get_cell_env, get_neighbors, are_neighbors; every ordered pair "
                   "of distinct cells through are_neighbors; get_neighbors of every cell; one native Euler step from the "
                   "one-hot state at every cell (gain/(dt k x) == face multiplicity); grid_to_graph of every grid. "
                   "Sampled: compute_dstatedt from one-hot states (all cells of small grids, corners + seeded cells of "
                   "larger ones); grid-graph equivalence (Euler %d steps, compute_dstatedt) on vf.gen.rand_system grids, "
                   "boundary mix = case index mod 8. A case is a grid (w,h,d,mix) or a generated system; non-trivial: "
                   ">= 2 cells (equivalence cases: and a diffusing species)." % (L, 8 * L ** 3, 10),
              assumptions=["reference geometry vf/ref.py (index = z*w*h + y*w + x; faces per axis: reflecting ends, periodic "
                           "wraps; a periodic axis of length 2 gives two faces to the same neighbour, of length 1 a self-face "
                           "without net effect) and SI table vf/si.py are the oracle",
                           "self-loops of the converted graph are not demanded (no flux); only self-loops without a "
                           "self-face in the grid are reported",
                           "Python kinetics grid-vs-graph comparison only when every periodic axis has length >= 3 "
                           "(as the statement says); magnitudes in monitor (d) only on those grids",
                           "is_within_bounds raising on an outside position counts as a rejection"])
    for names in MONITORS.values():
        run.require(*names)
    try:
        from vf import build
        build.engine_path()
    except Exception as e:
        run.inconclusive_because("engine build failed: %s" % str(e)[:300])
        return run.finish()
    sd = seed()
    grids = []
    for w in range(1, L + 1):
        for h in range(1, L + 1):
            for d in range(1, L + 1):
                for bci in range(8):
                    c = {"kind": "grid", "seed": sd, "w": w, "h": h, "d": d, "bc": bci}
                    if thorough:
                        small = max(w, h, d) <= 4
                        c.update({"py": "some", "py_all_upto": 16 if small else 6, "py_ncells": 5 if small else 3,
                                  "mixed_forms": w * h * d <= 100})
                    else:
                        c.update({"py": "some", "py_all_upto": 6, "py_ncells": 3})
                    grids.append(c)
    # heavy grids first, dealt round-robin to the workers
    grids.sort(key=lambda c: -(c["w"] * c["h"] * c["d"]))
    n_eq = 4000 if thorough else 640
    n_py = 400 if thorough else 64
    equiv = []
    for i in range(n_eq):
        py = i < n_py
        c = {"kind": "equiv", "seed": sd, "idx": i, "python": py, "dims": (1, L if not py else 4),
             "max_cells": 36 if py else (216 if thorough else 64)}
        equiv.append(c)
    complete = True
    worst = 0.0
    run.max_samples = 9
    # written-out samples: a few small, telling grids and the first equivalence cases
    show = {(1, 1, 1, 7), (2, 1, 1, 7), (3, 2, 1, 2), (2, 2, 2, 5), (4, 3, 2, 3), (L, L, L, 7)}
    for func, cases in (("vf.checks.c15:run_grid", grids), ("vf.checks.c15:run_equiv", equiv)):
        res = pmap(func, cases, cpu_budget=900 if thorough else 300)
        for c, r_ in zip(cases, res):
            if r_["status"] != "ok":
                complete = False
                if r_["status"] in ("crash", "hang"):
                    run.violation("engine " + r_["status"], {"case": c, "result": {k: r_[k] for k in r_ if k != "i"}},
                                  mech={"what": "engine " + r_["status"]})
                elif r_["status"] == "exception":
                    run.violation("harness exception", {"case": c, "error": r_.get("error"), "tb": r_.get("tb")},
                                  mech={"what": "harness exception"})
                else:
                    run.inconclusive_because("case %s: %s" % (c, r_["status"]))
                continue
            v = r_["value"]
            shown = (c["w"], c["h"], c["d"], c["bc"]) in show if c["kind"] == "grid" else c["idx"] in (0, 1, 2)
            run.case(v["key"], nontrivial=v["nontrivial"], sample=v.get("sample") if shown else None)
            for k_, n_ in v.get("counts", {}).items():
                run.count(k_, n_)
            worst = max(worst, v.get("worst_rel", 0.0))
            if c["kind"] == "grid":
                run.count("grids_completed")
            if v.get("bad_total", 0) > len(v["bad"]):
                run.count("violations_not_written_out", v["bad_total"] - len(v["bad"]))
            for b in v["bad"]:
                run.violation("(%s) %s" % (b["monitor"], b["what"][:72]), b,
                              mech={"what": b["what"], "monitor": b["monitor"], "call": b.get("call"),
                                    "form": b.get("form"), "error": b.get("error", "")})
    run.exhaustive = bool(complete and run.monitors.get("grids_completed", 0) == len(grids))
    run.note("exhaustive_part", "monitors (a), (b), (c), (e), (f) over all %d grids with w,h,d in 1..%d x 8 boundary mixes; "
                                "(d) and (g) are samples" % (len(grids), L))
    run.note("grids", len(grids))
    run.note("worst_relative_grid_graph_trajectory_difference", worst)
    from vf.sandbox import run_extra as _rxh
    _rxh(run, "vf.checks.c15:run_huge", [{"seed": seed(), "idx": _i} for _i in range(6 if tier() == "thorough" else 2)], cpu_budget=900)
    run.require("huge_pair_checks")
    return run.finish()


if __name__ == "__main__":
    sys.exit(main())
