"""C04 - Physical results do not depend on the units used to state or report them.

For each physical description (SI data, vf.gen) several *renderings* are built: constructor or
dictionary form, a units system declared at every nesting level (script / system / network / space /
species / reaction / node / edge) or inherited, drawn from all 1100 systems, every dimensioned field as a
bare number re-scaled into the enclosing system or as an explicit-unit string / UnitValue / unit-array
dictionary in yet another system, and a random output units system.  Observed on each rendering, after
conversion to (molecule, s) by the harness' own SI table: RDSystem.state and chemostats,
kinetics.compute_dstatedt (small systems), a 20-step Euler trajectory.  Oracle: metamorphic (every
rendering vs the first) AND absolute (every rendering vs the SI description / reference rate law).
The step grid is rounding-proof: requested times and t_max sit at (k + 1/2) dt.
"""
import math
import sys

import numpy as np

from vf import gen, ref, si, engines, simhelp, contracts
from vf.common import Run, seed, tier, use_repo, chash
from vf.sandbox import pmap

REL = 1e-9
NSTEPS = 20


def gen_desc(sd, idx, small):
    r = gen.rng_for(sd, "C04", idx)
    kind = r.choice(["grid", "graph"])
    opts = {"space": kind, "explicit_chstt": 0.3, "explicit_state": 0.5,
            "net": {"chstt": 0.2, "nreactions": (0, 3), "nspecies": (1, 3), "max_order": 3, "no_growth": False},
            "grid": {"dims": (1, 3), "max_cells": 6 if small else 12}, "graph": {"nodes": (1, 4 if small else 7), "simple": True}}
    return gen.rand_system(r, opts)


def extreme(x):
    return x != 0 and not (1e-250 < abs(x) < 1e250)


def render(desc, sd, idx, k, dt, req, tmax, interval, policy):
    """rendering number k of description (sd, idx): returns (script, info)"""
    import strengths as st
    r = gen.rng_for(sd, "C04r", idx, k)
    all_systems = r.random() < 0.6
    rd = gen.Rendering(r, sys_draw=(gen.rand_sys if all_systems else gen.mild_sys))
    form = r.choice(["ctor", "dict", "ctor+file", "dict+file"])
    usys = rd.sys_draw(r)           # script level = output units system
    if form.startswith("ctor"):
        system = gen.render_system(desc, rd)
    else:
        d = gen.system_dict(desc, rd, parent_sys=usys)
        system = st.rdsystem_from_dict(d, parent_units_system=st.UnitsSystem(**si.sys_dict(usys)))
    if form.endswith("+file"):
        # the same description after a save / load cycle is still the same physical system
        import os, tempfile
        from vf.common import SCRATCH
        os.makedirs(SCRATCH, exist_ok=True)
        fd, path = tempfile.mkstemp(prefix="c04-", suffix=".json", dir=SCRATCH)
        os.close(fd)
        try:
            st.save_rdsystem(system, path)
            system = st.load_rdsystem(path)
        finally:
            os.remove(path)

    def tq(x):
        f = r.choice(["bare", "str", "uv"])
        if f == "bare":
            return gen.q_bare(x, usys, gen.TIME_DIM)
        own = r.choice(list(si.TIME))
        num = float(x / float(si.TIME[own]))
        return "%r %s" % (num, own) if f == "str" else st.UnitValue(num, own)
    f = r.choice(["bare", "ua"])
    if f == "bare":
        ts = [gen.q_bare(x, usys, gen.TIME_DIM) for x in req]
    else:
        own = r.choice(list(si.TIME))
        ts = st.UnitArray([float(x / float(si.TIME[own])) for x in req], own)
    script = st.RDScript(system=system, t_sample=ts, time_step=tq(dt), t_max=tq(tmax), sampling_policy=policy,
                         sampling_interval=tq(interval), rng_seed=1, units_system=st.UnitsSystem(**si.sys_dict(usys)))
    rewrite = None
    if r.random() < 0.4 and "system" in rd.log:
        # the state written again as bare numbers on the script's own system (a copy of the one built): bare numbers are read
        # in the units system declared at system level, which every copy of the system carries with it
        sysu = rd.log["system"]
        stt = gen.state_of(desc)
        if r.random() < 0.5:
            script.system.state = [gen.q_bare(x, sysu, gen.Q_DIM) for x in stt]
            rewrite = "state = [bare numbers]"
        else:
            S_, n_ = len(desc["species"]), gen.ncells(desc["space"])
            for s_ in range(S_):
                for i_ in range(n_):
                    script.system.set_state(s_, i_, gen.q_bare(stt[s_ * n_ + i_], sysu, gen.Q_DIM))
            rewrite = "set_state(bare number) on every entry"
    return script, {"form": form, "script_units": usys, "levels": {k_: v for k_, v in list(rd.log.items())[:5]}, "all_systems": all_systems,
                    "state_rewritten": rewrite}


def to_si_state(ua):
    sc = float(si.scale(si.sys_of(ua.units.sys), si.dim_of(ua.units.dim)))
    return np.array(ua.value, dtype=float) * sc, si.dim_of(ua.units.dim)


def run_case(case):
    use_repo()
    engines.install()
    contracts.install(which=("ccf", "convert"))
    import strengths as st
    from strengths import kinetics
    sd, idx, with_python, nrend = case["seed"], case["idx"], case["python"], case["renderings"]
    desc = gen_desc(sd, idx, with_python)
    r0 = gen.rng_for(sd, "C04s", idx)
    ctx = {"case": {"seed": sd, "idx": idx, "python": with_python, "renderings": nrend}}
    bad, counts = [], {}

    def cnt(k, n_=1):
        counts[k] = counts.get(k, 0) + n_
    S, n = len(desc["species"]), gen.ncells(desc["space"])
    state = np.array(gen.state_of(desc), dtype=float)
    chst = gen.chemostats_of(desc)
    f_free, mag = ref.rate_law(desc, state.tolist(), None)
    f_free = np.array(f_free)
    maxrate = ref.max_rate(desc, state)
    dt = 0.01 / maxrate
    req = [dt * (k + 0.5) for k in sorted(r0.sample(range(NSTEPS), r0.randint(1, 6)))]
    if r0.random() < 0.5:
        req = [0.0] + req
    tmax = dt * (NSTEPS + 0.5)
    interval = dt * (r0.randint(2, 5) + 0.37)
    policy = r0.choice(["on_t_sample", "on_t_sample", "on_interval", "on_iteration"])
    base = None
    infos = []
    for k in range(nrend):
        try:
            script, info = render(desc, sd, idx, k, dt, req, tmax, interval, policy)
        except OverflowError:
            cnt("renderings_skipped_float_range")
            continue
        except Exception as e:
            bad.append({"what": "a rendering of a valid description was rejected", "rendering": k,
                        "error": "%s: %s" % (type(e).__name__, e), **ctx})
            continue
        infos.append(info)
        system = script.system
        obs = {}
        # --- state / chemostats ---
        xs, dim = to_si_state(system.state)
        if dim != (0, 0, 1):
            bad.append({"what": "state is not an amount", "rendering": k, "dim": dim, **ctx})
            continue
        if any(extreme(v) for v in system.state.value):
            cnt("renderings_skipped_float_range")
            continue
        obs["state"] = xs
        obs["chemostats"] = np.array(system.chemostats, dtype=float)
        # a report of the state in some units (also the units it is stored in) is a value: it does not follow later edits of
        # the system, and editing it does not edit the system - whatever the units
        for tgt in (system.state.units.sys, st.UnitsSystem(**si.sys_dict(gen.rand_sys(gen.rng_for(sd, "C04rep", idx, k))))):
            rep = system.state.convert(tgt)
            rep_before = np.array(rep.value, dtype=float).copy()
            st_before = np.array(system.state.value, dtype=float).copy()
            old0 = system.get_state(0, 0)
            system.set_state(0, 0, old0 * 3 + st.UnitValue(1, old0.units))
            cnt("report_independence_checks")
            if np.array(rep.value, dtype=float).tobytes() != rep_before.tobytes():
                bad.append({"what": "a converted report of the state changed when the system was edited afterwards", "rendering": k,
                            "report_units": si.sys_of(rep.units.sys), "state_units": si.sys_of(system.state.units.sys), **ctx})
            system.set_state(0, 0, old0)
            rep.value[...] = -4321.5
            if np.array(system.state.value, dtype=float).tobytes() != st_before.tobytes():
                bad.append({"what": "editing a converted report of the state changed the system", "rendering": k,
                            "report_units": si.sys_of(rep.units.sys), "state_units": si.sys_of(system.state.units.sys), **ctx})
                system.state.value[...] = st_before
        # --- python rate of change ---
        if with_python:
            try:
                usys = gen.rand_sys(gen.rng_for(sd, "C04u", idx, k))
                dd = kinetics.compute_dstatedt(system, units_system=st.UnitsSystem(**si.sys_dict(usys)), apply_chemostats=False)
                dsi, ddim = to_si_state(dd)
                if ddim != (0, -1, 1):
                    bad.append({"what": "compute_dstatedt: dimension is not amount/time", "rendering": k, **ctx})
                else:
                    obs["dstatedt"] = dsi
            except OverflowError:
                cnt("kinetics_skipped_float_range")
            except Exception as e:
                bad.append({"what": "compute_dstatedt raised on a valid rendering", "rendering": k,
                            "error": "%s: %s" % (type(e).__name__, e), **ctx})
        # --- Euler trajectory ---
        try:
            e = engines.get("euler")
            e.setup(script)
            e.iterate_n(NSTEPS + 5)
            done = e.is_complete()
            out = e.get_output()
            e.finalize()
            tt = np.array(out.t.value, dtype=float) * float(si.TIME[si.sys_of(out.t.units.sys)[1]])
            dd_, ddim = to_si_state(out.data)
            if ddim != (0, 0, 1) or si.dim_of(out.t.units.dim) != (0, 1, 0):
                bad.append({"what": "trajectory units have the wrong dimension", "rendering": k, **ctx})
            elif si.sys_of(out.data.units.sys)[2] != info["script_units"][2] or si.sys_of(out.t.units.sys)[1] != info["script_units"][1]:
                bad.append({"what": "trajectory is not reported in the requested output units", "rendering": k,
                            "got": [si.sys_of(out.t.units.sys)[1], si.sys_of(out.data.units.sys)[2]], "expected": info["script_units"], **ctx})
            else:
                obs["traj_t"] = tt
                obs["traj_x"] = dd_
                obs["complete"] = done
                # every way of reading the output carries the requested units with its numbers: the per-cell and the merged
                # (summed over cells) trajectory of a species mean, in SI, what the data array means
                S_, n_ = len(desc["species"]), gen.ncells(desc["space"])
                s_pick = gen.rng_for(sd, "C04merge", idx, k).randrange(S_)
                mg = out.get_trajectory(s_pick, merge=True)
                mg_si, mg_dim = to_si_state(mg)
                want_mg = dd_.reshape(len(tt), S_, n_)[:, s_pick, :].sum(axis=1)
                cnt("merged_output_checks")
                if mg_dim != (0, 0, 1) or not np.all(np.abs(mg_si - want_mg) <= 1e-9 * (np.abs(dd_.reshape(len(tt), S_, n_)[:, s_pick, :]).sum(axis=1) + 1e-300)):
                    bad.append({"what": "the merged trajectory (units and numbers together) is not the sum over cells of the data array", "rendering": k,
                                "species": s_pick, "merged_units": [si.sys_of(mg.units.sys)[2]], "data_units": [si.sys_of(out.data.units.sys)[2]],
                                "got_SI_head": mg_si[:3].tolist(), "expected_SI_head": want_mg[:3].tolist(), **ctx})
        except Exception as e:
            bad.append({"what": "euler run raised on a valid rendering", "rendering": k, "error": "%s: %s" % (type(e).__name__, e), **ctx})
        # --- a stochastic engine works in molecules internally: its output must still come back in the requested units ---
        if k % 2 == 0 and float(state.sum()) < 1e7:
            try:
                sc2 = script            # the very same object is handed to the Euler engine below: an engine must not
                sc2.rng_seed = 11       # leave its own working units (molecules) behind in the caller's script
                g = engines.get("gillespie")
                g.setup(sc2)
                g.iterate_n(5)
                og = g.get_output()
                g.finalize()
                cnt("stochastic_output_unit_checks")
                if si.sys_of(script.units_system) != tuple(info["script_units"]):
                    bad.append({"what": "running a stochastic engine changed the units system of the caller's script object",
                                "rendering": k, "got": si.sys_of(script.units_system), "expected": info["script_units"], **ctx})
                if si.sys_of(og.data.units.sys)[2] != info["script_units"][2] or si.sys_of(og.t.units.sys)[1] != info["script_units"][1]:
                    bad.append({"what": "stochastic trajectory is not reported in the requested output units", "rendering": k,
                                "got": [si.sys_of(og.t.units.sys)[1], si.sys_of(og.data.units.sys)[2]], "expected": info["script_units"], **ctx})
                elif len(og.t.value) and og.t.value[0] == 0.0:
                    x0g, _ = to_si_state(og.data)
                    x0g = x0g[:S * n].reshape(S, n).sum(axis=1)
                    tot = state.reshape(S, n).sum(axis=1)
                    if not np.all(np.abs(x0g - np.floor(tot + 1e-9)) <= 1.0 + 1e-9 * tot):
                        bad.append({"what": "stochastic t=0 totals (converted back by the harness) are not floor(physical totals)",
                                    "rendering": k, "got": x0g.tolist(), "physical_totals": tot.tolist(), "info": info, **ctx})
            except Exception as e:
                bad.append({"what": "gillespie run raised on a valid rendering", "rendering": k, "error": "%s: %s" % (type(e).__name__, e), **ctx})
        cnt("renderings")
        cnt("form_" + info["form"].split("+")[0])
        if "+file" in info["form"]:
            cnt("renderings_through_save_load")
        # --- absolute oracle ---
        scale_x = float(np.abs(state).max()) + 1e-300
        if not np.all(np.abs(obs["state"] - state) <= REL * scale_x):
            j = int(np.argmax(np.abs(obs["state"] - state)))
            bad.append({"what": "initial state differs from the physical description", "rendering": k, "entry": j,
                        "got": float(obs["state"][j]), "expected": float(state[j]), "info": info, **ctx})
        # (a flag is "int or bool": any non-zero value flags the entry; the renderers write 1, 2, 3, 5 or 127)
        if not np.array_equal(np.array(obs["chemostats"]) != 0, np.array(chst) != 0):
            bad.append({"what": "chemostat map differs from the physical description", "rendering": k, "info": info, **ctx})
        if "dstatedt" in obs:
            cnt("dstatedt_checks")
            sc_f = float(np.abs(np.array(mag)).max()) + 1e-300
            if not np.all(np.abs(obs["dstatedt"] - f_free) <= REL * sc_f):
                j = int(np.argmax(np.abs(obs["dstatedt"] - f_free)))
                bad.append({"what": "rate of change differs from the physical description", "rendering": k, "entry": j,
                            "got": float(obs["dstatedt"][j]), "expected": float(f_free[j]), "info": info, **ctx})
        if "traj_t" in obs:
            cnt("trajectory_checks")
            if not obs["complete"]:
                bad.append({"what": "run not complete after the planned number of steps (t_max mis-scaled?)", "rendering": k,
                            "info": info, **ctx})
            # first step equals x0 + dt f(x0) (absolute anchor for the trajectory)
        # --- metamorphic oracle ---
        if base is None:
            base = (k, obs, info)
        else:
            k0, o0, i0 = base
            for name in ("state", "dstatedt", "traj_t", "traj_x"):
                if name in obs and name in o0:
                    a, b = o0[name], obs[name]
                    cnt("metamorphic_comparisons")
                    if a.shape != b.shape:
                        bad.append({"what": "two renderings of one description give a different number of %s values" % name,
                                    "renderings": [k0, k], "shapes": [list(a.shape), list(b.shape)], "infos": [i0, info],
                                    "policy": policy, **ctx})
                        continue
                    # scale: the magnitudes that entered the computation (a derivative that is the difference of large
                    # cancelling terms is only defined to rounding of those terms)
                    floor_ = {"state": float(np.abs(state).max()), "dstatedt": float(np.abs(np.array(mag)).max()),
                              "traj_t": tmax, "traj_x": float(np.abs(state).max())}[name]
                    scl = max(float(max(np.abs(a).max() if a.size else 0, np.abs(b).max() if b.size else 0)), floor_) + 1e-300
                    if a.size and not np.all(np.abs(a - b) <= REL * scl):
                        j = int(np.argmax(np.abs(a - b)))
                        bad.append({"what": "two renderings of one description differ in " + name, "renderings": [k0, k],
                                    "entry": j, "values": [float(a[j]), float(b[j])], "infos": [i0, info], "policy": policy, **ctx})
        if len(bad) > 6:
            break
    # absolute anchor for the trajectory: the requested times that were recorded
    if base is not None and "traj_t" in base[1]:
        tt = base[1]["traj_t"]
        if policy == "on_t_sample":
            want = sorted({(0.0 if x == 0 else dt * math.ceil(x / dt - 1e-9)) for x in req})
            cnt("trajectory_time_checks")
            if len(tt) != len(want) or not np.all(np.abs(tt - np.array(want)) <= 1e-9 * tmax):
                bad.append({"what": "recorded times are not the steps covering the requested physical times",
                            "got": tt.tolist()[:8], "expected": want[:8], "info": base[2], **ctx})
    log, cc = contracts.drain()
    for name, w in log[:3]:
        bad.append({"what": "contract:" + name, **w, **ctx})
    for k_, n_ in cc.items():
        cnt("contract:" + k_, n_)
    levels = set()
    for i in infos:
        levels |= {tuple(v) for v in i["levels"].values()}
    return {"key": chash(desc), "nontrivial": len(levels) >= 2 and len(infos) >= 2, "counts": counts, "bad": bad[:6],
            "sample": {"seed": sd, "idx": idx, "space": desc["space"]["type"], "cells": n, "species": S, "policy": policy,
                       "renderings": [{"form": i["form"], "script_units": i["script_units"], "system_units": i["levels"].get("system"),
                                       "network_units": i["levels"].get("network")} for i in infos[:3]]}}


def main():
    if len(sys.argv) > 2 and sys.argv[1] == "--replay":
        import json
        c = json.load(open(sys.argv[2]))["witness"]["case"]
        res = run_case(c)
        print(json.dumps(res, indent=1, default=str))
        return 1 if res["bad"] else 0
    run = Run("C04",
              rule="random physical descriptions (grids / simple graphs, 1-3 species, orders 0..3, per-environment constants, default or "
                   "explicit state) x 4-8 renderings each: constructor or dictionary form; a units system per nesting level drawn from "
                   "all 1100 systems (60%) or a milder subset, declared or inherited ('units' omitted / 'inherit' / 'default' / dict, all "
                   "key aliases); every dimensioned field bare (re-scaled) or explicit (string / UnitValue / unit-array dict) in another "
                   "system; time quantities likewise; random output units system. Non-trivial: >= 2 renderings whose levels use >= 2 "
                   "different unit systems.",
              assumptions=["comparison tolerance 1e-9 relative to the largest magnitude of the compared vector",
                           "renderings whose bare numbers leave 1e+-250 are skipped and counted (floating range, not units)"])
    run.require("renderings", "stochastic_output_unit_checks", "metamorphic_comparisons", "dstatedt_checks", "trajectory_checks", "form_dict", "form_ctor",
                "contract:compute_conversion_factor")
    thorough = tier() == "thorough"
    n_total = 6000 if thorough else 720
    n_py = 1500 if thorough else 180
    cases = [{"seed": seed(), "idx": i, "python": i < n_py, "renderings": 4 + (i % 5)} for i in range(n_total)]
    res = pmap("vf.checks.c04:run_case", cases, cpu_budget=240)
    for c, r_ in zip(cases, res):
        if r_["status"] != "ok":
            if r_["status"] in ("crash", "hang"):
                run.violation("engine " + r_["status"], {"case": c, "result": {k: r_[k] for k in r_ if k != "i"}})
            elif r_["status"] == "exception":
                run.violation("harness exception", {"case": c, "error": r_.get("error"), "tb": r_.get("tb")})
            else:
                run.inconclusive_because("case %s: %s" % (c, r_["status"]))
            continue
        v = r_["value"]
        run.case(v["key"], nontrivial=v["nontrivial"], sample=v.get("sample"))
        for k, n_ in v["counts"].items():
            run.count(k, n_)
        for b in v["bad"]:
            run.violation(b["what"][:80], b, mech={"what": b["what"]})
    # the initial state of systems with more than 4096 cells, every level in its own units (workload shared with C13)
    from vf.sandbox import run_extra as _rx0
    from vf.common import seed as _sd1, tier as _tr1
    _rx0(run, "vf.checks.c13:run_large_default", [{"seed": _sd1(), "idx": 500 + _i} for _i in range(40 if _tr1() == "thorough" else 5)], cpu_budget=300)
    # objects built with default arguments do not share them (vf/history.py: h_default_isolation)
    from vf.sandbox import run_extra as _rx
    from vf.common import seed as _sd0, tier as _tr0
    _w = ['reaction', 'species', 'network', 'grid', 'graphnode', 'system', 'script']
    _rx(run, "vf.history:h_default_isolation", [{"seed": _sd0(), "idx": _i, "which": _w[_i % len(_w)]} for _i in range(1400 if _tr0() == "thorough" else 140)],
        cpu_budget=60, kind_prefix="history: ")
    # a key left out of a dictionary means the constructor's documented default, in the object's own units (vf/history.py)
    from vf.sandbox import run_extra as _rxd
    from vf.common import seed as _sdd, tier as _trd
    _wd = ['node', 'edge', 'grid', 'species', 'reaction', 'script']
    _rxd(run, "vf.history:h_dict_defaults", [{"seed": _sdd(), "idx": _i, "which": _wd[_i % len(_wd)]} for _i in range(1200 if _trd() == "thorough" else 120)],
         cpu_budget=60, kind_prefix="history: ")
    return run.finish()


if __name__ == "__main__":
    sys.exit(main())
