"""C12 - Dictionary, JSON and file round-trips preserve the model.

Workload: generated systems (vf.gen, every nesting level in its own unit system); from each one a network,
a space (grid or graph, nodes / edges with their own unit systems), the system, a script, a hand-built
trajectory and (every 4th case) a trajectory produced by a short Euler run.

Oracle: `content_*` below - my own field-by-field extraction of the physical content of the objects
(attribute access only; every quantity turned into SI with vf.si, never with the library) - compared
between the object and what comes back from
  dict      from_dict(to_dict(x))
  json      from_dict(json.loads(json.dumps(to_dict(x))))
  file      load_*(save_*(x)) in a scratch directory, loaded from another working directory
  hand      from_dict of a dictionary written by this file from the content alone (bare numbers in the level's
            units / unit strings in other units, random aliases, optional keys left out when they hold the
            documented default, "units" omitted / "inherit" / "default" where equivalent)
  multifile the same hand-written form spread over files (system JSON -> network / space JSON by relative
            path, state in .npy, chemostats and cell_env in .npy / .txt), loaded from another directory
plus: to_dict(result) == to_dict(x); every alias of every alias group reads like the canonical key; omitted
optional keys give the documented defaults; partial "units" dictionaries take per-key defaults.

Environment: VERIF_C12_SKIP_EXPECTED=1 skips the defect families listed in EXPECTED (and nothing else);
VERIF_C12_SKIP=<what,what,...> skips further families by their mech "what".
"""
import contextlib
import copy
import itertools
import json
import os
import re
import shutil
import sys
import tempfile

from vf import gen, si
from vf.common import Run, seed, tier, use_repo, chash, SCRATCH, VERIF
from vf.sandbox import pmap

REL = 1e-12
DEFAULT = list(si.DEFAULT_SYS)
EXPECTED = ("script-init-state-processing-lost", "graph-edge-own-units-to_dict-raises", "save_rdscript-raises",
            "partial-units-dict-raises", "network-without-reactions-raises")


def skip_set():
    s = set(EXPECTED) if os.environ.get("VERIF_C12_SKIP_EXPECTED", "0") == "1" else set()
    s |= {x.strip() for x in os.environ.get("VERIF_C12_SKIP", "").split(",") if x.strip()}
    return s


# ---------------------------------------------------------------------------
# the oracle: physical content of objects (attribute access + vf.si only)

def _sys(us):
    return [us["space"], us["time"], us["quantity"]]


def _scale(units):
    s3 = (units.sys["space"], units.sys["time"], units.sys["quantity"])
    d3 = (units.dim["space"], units.dim["time"], units.dim["quantity"])
    return float(si.scale(s3, d3)), list(d3)


def _uv(v, dim):
    f, d3 = _scale(v.units)
    x = float(v.value) * f
    return x if d3 == list(dim) else {"bad_dimension": d3, "si": x}


def _ua(a, dim):
    f, d3 = _scale(a.units)
    vals = [float(x) * f for x in list(a.value.reshape(-1).tolist())]
    return vals if d3 == list(dim) else {"bad_dimension": d3, "si": vals}


def _lookup(v, env):
    if isinstance(v, dict):
        if env in v:
            return v[env]
        if "default" in v:
            return v["default"]
        return None
    return v


def _perenv(v, envs, dim):
    out = {}
    for e in envs:
        x = _lookup(v, e)
        out[e] = 0.0 if x is None else _uv(x, dim)
    return out


def content_network(net):
    envs = list(net.environments)
    species = []
    for s in net.species:
        species.append({"label": s.label, "units": _sys(s.units_system), "D": _perenv(s.D, envs, gen.D_DIM),
                        "density": _perenv(s.density, envs, gen.DENS_DIM),
                        "chstt": {e: bool(_lookup(s.chstt, e) or False) for e in envs}})
    reactions = []
    for x in net.reactions:
        sub = {k: int(v) for k, v in x.substrates.items() if v}
        prod = {k: int(v) for k, v in x.products.items() if v}
        reactions.append({"label": x.label, "units": _sys(x.units_system), "sub": sub, "prod": prod,
                          "kf": _perenv(x.kf, envs, gen.K_DIM(sum(sub.values()))),
                          "kr": _perenv(x.kr, envs, gen.K_DIM(sum(prod.values())))})
    return {"units": _sys(net.units_system), "envs": envs, "species": species, "reactions": reactions}


def content_space(sp):
    if type(sp).__name__ == "RDGridSpace":
        return {"type": "grid", "units": _sys(sp.units_system), "w": int(sp.w), "h": int(sp.h), "d": int(sp.d),
                "cell_env": [int(x) for x in list(sp.cell_env)], "cell_vol": _uv(sp.cell_vol, gen.VOL_DIM),
                "bc": {k: str(v) for k, v in sp.get_boundary_conditions().items()}}
    nodes = [{"units": _sys(n.units_system), "vol": _uv(n.volume, gen.VOL_DIM), "env": int(n.environment)} for n in sp.nodes]
    edges = [{"units": _sys(e.units_system), "i": int(e.i), "j": int(e.j), "sfc": _uv(e.surface, gen.SFC_DIM),
              "dst": _uv(e.distance, gen.LEN_DIM)} for e in sp.edges]
    return {"type": "graph", "units": _sys(sp.units_system), "nodes": nodes, "edges": edges}


def content_system(x):
    import numpy as np
    return {"units": _sys(x.units_system), "network": content_network(x.network), "space": content_space(x.space),
            "state": _ua(x.state, gen.Q_DIM), "chemostats": [int(v) for v in np.asarray(x.chemostats).reshape(-1).tolist()]}


def content_script(sc):
    return {"units": _sys(sc.units_system), "system": content_system(sc.system), "t_sample": _ua(sc.t_sample, gen.TIME_DIM),
            "time_step": _uv(sc.time_step, gen.TIME_DIM), "t_max": _uv(sc.t_max, gen.TIME_DIM),
            "policy": sc.sampling_policy, "interval": _uv(sc.sampling_interval, gen.TIME_DIM),
            "seed": int(sc.rng_seed), "isp": sc.init_state_processing}


def content_trajectory(tr):
    return {"system": content_system(tr.system), "script": None if tr.script is None else content_script(tr.script),
            "t": _ua(tr.t, gen.TIME_DIM), "data": _ua(tr.data, gen.Q_DIM),
            "engine_description": tr.engine_description, "engine_option": tr.engine_option,
            "cgmap": None if tr.cgmap is None else [int(v) for v in tr.cgmap]}


def unit_levels(c, acc=None):
    """set of unit systems found at the levels of a content tree"""
    acc = set() if acc is None else acc
    if isinstance(c, dict):
        for k, v in c.items():
            if k == "units" and isinstance(v, list):
                acc.add(tuple(v))
            else:
                unit_levels(v, acc)
    elif isinstance(c, list):
        for v in c:
            unit_levels(v, acc)
    return acc


def diff(a, b, path, out, rel=REL, limit=6):
    """differences between two plain trees: floats within `rel`, everything else exact"""
    if len(out) >= limit:
        return out
    if isinstance(a, dict) and isinstance(b, dict):
        for k in sorted(set(a) | set(b), key=str):
            if k not in a or k not in b:
                out.append({"at": "%s.%s" % (path, k), "a": a.get(k, "<absent>"), "b": b.get(k, "<absent>")})
            else:
                diff(a[k], b[k], "%s.%s" % (path, k), out, rel, limit)
    elif isinstance(a, (list, tuple)) and isinstance(b, (list, tuple)):
        if len(a) != len(b):
            out.append({"at": path + ".len", "a": len(a), "b": len(b)})
        else:
            for i, (x, y) in enumerate(zip(a, b)):
                diff(x, y, "%s.%d" % (path, i), out, rel, limit)
    elif isinstance(a, bool) or isinstance(b, bool) or a is None or b is None or isinstance(a, str) or isinstance(b, str):
        if type(a) is not type(b) or a != b:
            out.append({"at": path, "a": a, "b": b})
    elif isinstance(a, (int, float)) and isinstance(b, (int, float)):
        if isinstance(a, int) and isinstance(b, int):
            ok = a == b
        else:
            ok = (a == b) or abs(a - b) <= rel * max(abs(a), abs(b))
        if not ok:
            out.append({"at": path, "a": a, "b": b})
    elif a != b:
        out.append({"at": path, "a": repr(a), "b": repr(b)})
    return out


def close_lists(a, b, rel=REL):
    return len(a) == len(b) and not diff(list(a), list(b), "", [], rel)


# documented defaults computed from content (density x volume; chemostat flag of the cell's environment)

def cell_table(cs):
    if cs["type"] == "grid":
        n = cs["w"] * cs["h"] * cs["d"]
        return list(cs["cell_env"]), [cs["cell_vol"]] * n
    return [n["env"] for n in cs["nodes"]], [n["vol"] for n in cs["nodes"]]


def default_state(cn, cs):
    ce, cv = cell_table(cs)
    return [s["density"][cn["envs"][ce[i]]] * cv[i] for s in cn["species"] for i in range(len(ce))]


def default_chemostats(cn, cs):
    ce, _ = cell_table(cs)
    return [int(s["chstt"][cn["envs"][ce[i]]]) for s in cn["species"] for i in range(len(ce))]


def default_grid(units):
    return {"type": "grid", "units": list(units), "w": 1, "h": 1, "d": 1, "cell_env": [0],
            "cell_vol": float(si.scale(tuple(units), gen.VOL_DIM)), "bc": {"x": "reflecting", "y": "reflecting", "z": "reflecting"}}


# ---------------------------------------------------------------------------
# alias groups of the readers (my own copy of the synonym lists), optional keys

UAL = ["units", "units_system", "units system", "u"]
ALIASES = {
    "species": {"label": ["label", "l"],
                "D": ["D", "diff_coef", "diffusion_coefficient", "diff coef", "diffusion coefficient"],
                "density": ["density", "concentration", "dens", "conc", "C"], "chstt": ["chstt", "chemostat"], "units": UAL},
    "reaction": {"stoichiometry": ["stoichiometry", "eq", "sto", "equation"], "label": ["label", "l"], "k+": ["k+", "kf"],
                 "k-": ["k-", "kr"], "units": UAL},
    "network": {"species": ["species"], "reactions": ["reactions"], "environments": ["environments", "env"], "units": UAL},
    "grid": {"type": ["type"], "w": ["w", "width"], "h": ["h", "height"], "d": ["d", "depth"],
             "cell_env": ["cell_env", "cell_environments", "cell environments", "environments", "env"],
             "cell_volume": ["cell_volume", "cell_vol"], "boundary_conditions": ["boundary_conditions"], "units": UAL},
    "graph": {"type": ["type"], "nodes": ["nodes"], "edges": ["edges"], "units": UAL},
    "node": {"volume": ["volume", "vol"], "environment": ["environment", "env"], "units": UAL},
    "edge": {"nodes": ["nodes"], "surface": ["surface"], "distance": ["distance"], "units": UAL},
    "system": {"network": ["network", "rdnetwork"], "space": ["space", "rdspace"], "state": ["state"],
               "chemostats": ["chemostats"], "units": UAL},
    "script": {"system": ["system"], "t_sample": ["t_sample"], "time_step": ["time_step", "time step", "dt"],
               "t_max": ["t_max", "tmax"], "sampling_policy": ["sampling_policy", "sampling policy"],
               "sampling_interval": ["sampling_interval", "sampling interval"], "rng_seed": ["rng_seed", "rng seed", "seed"],
               "units": UAL},
}
OPTIONAL = {
    "species": ["D", "density", "chstt", "units"],
    "reaction": ["label", "k+", "k-", "units"],
    "network": ["reactions", "units"],
    "grid": ["type", "w", "h", "d", "cell_env", "cell_volume", "boundary_conditions", "units"],
    "graph": ["type", "units"],
    "node": ["volume", "environment", "units"],
    "edge": ["surface", "distance", "units"],
    "system": ["space", "state", "chemostats", "units"],
    "script": ["time_step", "t_max", "sampling_policy", "sampling_interval", "rng_seed", "units"],
}
OWNED = {"network": ["network", "species", "reaction"], "grid": ["grid"], "graph": ["graph", "node", "edge"],
         "system": ["system"], "script": ["script"]}


def positions(kind, d):
    """(level kind, dictionary) for every dictionary nested in the canonical dictionary `d` of an object"""
    out = []
    if kind == "network":
        out.append(("network", d))
        out += [("species", s) for s in d.get("species", [])]
        out += [("reaction", x) for x in d.get("reactions", [])]
    elif kind == "grid":
        out.append(("grid", d))
    elif kind == "graph":
        out.append(("graph", d))
        out += [("node", n) for n in d.get("nodes", [])]
        out += [("edge", e) for e in d.get("edges", [])]
    elif kind == "system":
        out.append(("system", d))
        if isinstance(d.get("network"), dict):
            out += positions("network", d["network"])
        if isinstance(d.get("space"), dict):
            out += positions(d["space"].get("type", "grid"), d["space"])
    elif kind == "script":
        out.append(("script", d))
        if isinstance(d.get("system"), dict):
            out += positions("system", d["system"])
    return out


def subsets_of(keys, r, thorough):
    allsub = [list(c) for n in range(1, len(keys) + 1) for c in itertools.combinations(keys, n)]
    singles = [s for s in allsub if len(s) == 1]
    rest = [s for s in allsub if len(s) > 1]
    k = min(len(rest), 10 if thorough else 3)
    return singles + r.sample(rest, k)


# ---------------------------------------------------------------------------
# the hand-written form: dictionaries (and files) written from content alone

def bare(v, sys3, dim):
    return gen.q_bare(v, tuple(sys3), dim)


class Hand:
    def __init__(self, r, skip, files=None):
        self.r = r
        self.skip = skip
        self.files = files            # None: everything inline; else {"relative path": ("json"|"npy"|"txt"|"npyint", payload)}
        self.abs_root = None          # when set, some references are written as absolute paths under this root

    def key(self, level, canon):
        return self.r.choice(ALIASES[level][canon])

    def shuffled(self, d):
        ks = list(d)
        self.r.shuffle(ks)
        return {k: d[k] for k in ks}

    def units(self, d, level_units, parent, default_mode="inherit"):
        r = self.r
        opts = ["dict"]
        if list(level_units) == list(parent) and default_mode == "inherit":
            opts += ["omit", "inherit"]
        if list(level_units) == DEFAULT:
            opts += ["default"]
            if default_mode == "default":
                opts += ["omit", "inherit"]
        ch = r.choice(opts)
        if ch == "omit":
            return
        d[r.choice(UAL)] = si.sys_dict(tuple(level_units)) if ch == "dict" else ch

    def q(self, v, dim, level):
        r = self.r
        form = r.choice(["bare", "str", "str"])
        if form == "bare":
            x = bare(v, level, dim)
            return 0 if (x == 0 and r.random() < 0.5) else x
        if tuple(dim) == gen.DENS_DIM and r.random() < 0.25:
            sym = r.choice(["M", "mM", "µM", "nM", "pM"])
            return "%r %s" % (float(v / float(si.DENSITY[sym])), sym)
        if tuple(dim) == gen.VOL_DIM and r.random() < 0.25:
            sym = r.choice(["L", "mL", "µL", "nL", "pL", "fL"])
            return "%r %s" % (float(v / float(si.VOLUME[sym])), sym)
        own = gen.mild_sys(r)
        return "%r %s" % (bare(v, own, dim), si.unit_string(own, dim, style=r.choice([0, 1, 2, 3, 0, 1, 2, 3, 4, 5])))

    def perenv(self, eff, wr, zero):
        """eff: {env: value}; wr(value) writes one; None means 'leave the key out'"""
        r = self.r
        envs = list(eff)
        vals = [eff[e] for e in envs]
        if all(v == vals[0] for v in vals) and r.random() < 0.6:
            if vals[0] == zero and r.random() < 0.5:
                return None
            return wr(vals[0])
        d = {}
        if r.random() < 0.7:
            dflt = r.choice(vals)
            for e in envs:
                if eff[e] == dflt and r.random() < 0.7:
                    continue
                d[e] = wr(eff[e])
            if not (dflt == zero and r.random() < 0.3):
                d["default"] = wr(dflt)
        else:
            for e in envs:
                if eff[e] == zero and r.random() < 0.5:
                    continue
                d[e] = wr(eff[e])
        if not d:
            return wr(zero)
        return self.shuffled(d)

    def network(self, cn, parent):
        r = self.r
        lv = cn["units"]
        species = []
        for s in cn["species"]:
            su = s["units"]
            d = {self.key("species", "label"): s["label"]}
            for canon, field, dim in (("D", "D", gen.D_DIM), ("density", "density", gen.DENS_DIM)):
                v = self.perenv(s[field], lambda x, dim=dim: self.q(x, dim, su), 0.0)
                if v is not None:
                    d[self.key("species", canon)] = v
            v = self.perenv(s["chstt"], lambda x: (bool(x) if r.random() < 0.6 else int(x)), False)
            if v is not None:
                d[self.key("species", "chstt")] = v
            self.units(d, su, lv)
            species.append(self.shuffled(d))
        reactions = []
        for x in cn["reactions"]:
            ru = x["units"]
            d = {self.key("reaction", "stoichiometry"): gen.eq_string(x["sub"], x["prod"], r)}
            if x["label"] is not None or r.random() < 0.5:
                d[self.key("reaction", "label")] = x["label"]
            for canon, field, order in (("k+", "kf", sum(x["sub"].values())), ("k-", "kr", sum(x["prod"].values()))):
                v = self.perenv(x[field], lambda y, order=order: self.q(y, gen.K_DIM(order), ru), 0.0)
                if v is not None:
                    d[self.key("reaction", canon)] = v
            self.units(d, ru, lv)
            reactions.append(self.shuffled(d))
        d = {"species": species, self.key("network", "environments"): list(cn["envs"])}
        if reactions or "network-without-reactions-raises" in self.skip or r.random() < 0.5:
            d["reactions"] = reactions
        self.units(d, lv, parent)
        return self.shuffled(d)

    def int_array(self, vals, stem, base):
        """inline list, or a reference to a .npy / .txt side file (relative to `base`, the directory of the JSON file)"""
        r = self.r
        if self.files is None or r.random() < 0.25:
            return list(vals)
        if r.random() < 0.5:
            rel = stem + ".npy"
            self.files[os.path.join(base, rel)] = ("npyint", list(vals))
        else:
            rel = stem + ".txt"
            sep = r.choice([" ", ",", ", ", "\n", "  "])
            self.files[os.path.join(base, rel)] = ("txt", sep.join(str(int(v)) for v in vals) + r.choice(["", "\n"]))
        return self.ref(rel, base)

    def ref(self, rel, base):
        if self.abs_root and self.r.random() < 0.25:
            return os.path.normpath(os.path.join(self.abs_root, base, rel))
        return rel

    def space(self, cs, parent, base=""):
        r = self.r
        lv = cs["units"]
        if cs["type"] == "grid":
            d = {}
            if r.random() < 0.6:
                d["type"] = "grid"
            for k in ("w", "h", "d"):
                if cs[k] != 1 or r.random() < 0.5:
                    d[self.key("grid", k)] = cs[k]
            ce = cs["cell_env"]
            if all(v == ce[0] for v in ce) and r.random() < 0.5:
                if ce[0] != 0 or r.random() < 0.5:
                    d[self.key("grid", "cell_env")] = ce[0]
            else:
                d[self.key("grid", "cell_env")] = self.int_array(ce, r.choice(["env", "sub/cell_env"]), base)
            d[self.key("grid", "cell_volume")] = self.q(cs["cell_vol"], gen.VOL_DIM, lv)
            bc = {a: v for a, v in cs["bc"].items() if v != "reflecting" or r.random() < 0.5}
            if bc or r.random() < 0.5:
                d["boundary_conditions"] = bc
            self.units(d, lv, parent)
            return self.shuffled(d)
        nodes, edges = [], []
        for n in cs["nodes"]:
            d = {self.key("node", "volume"): self.q(n["vol"], gen.VOL_DIM, n["units"])}
            if n["env"] != 0 or r.random() < 0.5:
                d[self.key("node", "environment")] = n["env"]
            self.units(d, n["units"], lv)
            nodes.append(self.shuffled(d))
        for e in cs["edges"]:
            d = {"nodes": [e["i"], e["j"]], "surface": self.q(e["sfc"], gen.SFC_DIM, e["units"]),
                 "distance": self.q(e["dst"], gen.LEN_DIM, e["units"])}
            self.units(d, e["units"], lv)
            edges.append(self.shuffled(d))
        d = {"type": "graph", "nodes": nodes, "edges": edges}
        self.units(d, lv, parent)
        return self.shuffled(d)

    def unit_array(self, vals_si, dim, level, stem, base, allow_bare=True):
        """bare list in the level's units, or a unit-array dictionary (inline or .npy)"""
        r = self.r
        if allow_bare and r.random() < 0.3:
            return [bare(v, level, dim) for v in vals_si]
        own = gen.mild_sys(r)
        ustr = si.unit_string(own, dim)
        vals = [bare(v, own, dim) for v in vals_si]
        if self.files is not None and r.random() < 0.75:
            rel = stem + ".npy"
            self.files[os.path.join(base, rel)] = ("npy", vals)
            return {"value": self.ref(rel, base), "units": ustr}
        return {"value": vals, "units": ustr}

    def system(self, c, parent, base=""):
        r = self.r
        lv = c["units"]
        d = {}
        if self.files is not None and r.random() < 0.85:
            rel = r.choice(["network.json", "net/network.json"])
            self.files[os.path.join(base, rel)] = ("json", self.network(c["network"], lv))
            d[self.key("system", "network")] = self.ref(rel, base)
        else:
            d[self.key("system", "network")] = self.network(c["network"], lv)
        if self.files is not None and r.random() < 0.85:
            rel = r.choice(["space.json", "sp/space.json"])
            sbase = os.path.dirname(os.path.join(base, rel))
            self.files[os.path.join(base, rel)] = ("json", self.space(c["space"], lv, sbase))
            d[self.key("system", "space")] = self.ref(rel, base)
        else:
            d[self.key("system", "space")] = self.space(c["space"], lv, base)
        if not (close_lists(c["state"], default_state(c["network"], c["space"])) and r.random() < 0.5):
            d["state"] = self.unit_array(c["state"], gen.Q_DIM, lv, r.choice(["state", "data/state"]), base)
        if not (c["chemostats"] == default_chemostats(c["network"], c["space"]) and r.random() < 0.5):
            d["chemostats"] = self.int_array(c["chemostats"], r.choice(["chst", "data/chemostats"]), base)
        self.units(d, lv, parent)
        return self.shuffled(d)

    def script(self, c, base=""):
        r = self.r
        lv = c["units"]
        d = {}
        if self.files is not None and r.random() < 0.8:
            rel = r.choice(["system.json", "model/system.json", "../model/system.json"])
            sbase = os.path.normpath(os.path.dirname(os.path.join(base, rel)))
            self.files[os.path.normpath(os.path.join(base, rel))] = ("json", self.system(c["system"], lv, sbase))
            d["system"] = self.ref(rel, base)
        else:
            d["system"] = self.system(c["system"], lv, base)
        d["t_sample"] = self.unit_array(c["t_sample"], gen.TIME_DIM, lv, "t_sample", base)
        tq = lambda v: self.q(v, gen.TIME_DIM, lv)
        d[self.key("script", "time_step")] = tq(c["time_step"])
        last = c["t_sample"][-1]
        if c["t_max"] == last or abs(c["t_max"] - last) <= 1e-14 * abs(last):
            ch = r.choice(["default", "omit", "value"])
            if ch == "default":
                d[self.key("script", "t_max")] = "default"
            elif ch == "value":
                d[self.key("script", "t_max")] = tq(c["t_max"])
        else:
            d[self.key("script", "t_max")] = tq(c["t_max"])
        if c["policy"] != "on_t_sample" or r.random() < 0.5:
            d[self.key("script", "sampling_policy")] = c["policy"]
        d[self.key("script", "sampling_interval")] = tq(c["interval"])
        d[self.key("script", "rng_seed")] = c["seed"]
        if c["isp"] != "auto" and "script-init-state-processing-lost" not in self.skip:
            d["init_state_processing"] = c["isp"]
        self.units(d, lv, DEFAULT, default_mode="default")
        return self.shuffled(d)


def write_files(root, files):
    import numpy as np
    for rel, (kind, payload) in files.items():
        p = os.path.normpath(os.path.join(root, rel))
        os.makedirs(os.path.dirname(p), exist_ok=True)
        if kind == "json":
            with open(p, "w", encoding="utf-8") as f:
                json.dump(payload, f, ensure_ascii=False, indent=1)
        elif kind == "npy":
            np.save(p, np.array(payload, dtype=float))
        elif kind == "npyint":
            np.save(p, np.array(payload, dtype=int))
        else:
            with open(p, "w", encoding="utf-8") as f:
                f.write(payload)


@contextlib.contextmanager
def cwd(path):
    old = os.getcwd()
    os.chdir(path)
    try:
        yield
    finally:
        os.chdir(old)


# ---------------------------------------------------------------------------
# case execution

class Rd(gen.Rendering):
    """gen.Rendering; with edges_own=False graph edges take the graph's unit system"""
    def __init__(self, r, edges_own=True):
        gen.Rendering.__init__(self, r)
        self.edges_own = edges_own

    def level(self, name, parent):
        if name.startswith("edge") and not self.edges_own:
            self.log[name] = parent
            return parent
        return gen.Rendering.level(self, name, parent)


TIME_UNITS = ["h", "min", "s", "ds", "cs", "ms", "µs"]
Q_UNITS = ["mol", "mmol", "µmol", "nmol", "pmol", "fmol", "molecule", "cmol"]


def build_script(st, system, r, dt_si=None, t_si=None, policy=None, isp=None):
    usys = gen.mild_sys(r)
    tu = float(si.TIME[usys[1]])

    def tq(x):
        form = r.choice(["bare", "str", "uv"])
        if form == "bare":
            return x / tu
        own = r.choice(TIME_UNITS)
        num = x / float(si.TIME[own])
        return "%r %s" % (num, own) if form == "str" else st.UnitValue(num, own)
    if t_si is None:
        mag = 10.0 ** r.randint(-3, 2)
        t_si = sorted(r.uniform(0, 10) * mag for _ in range(r.randint(1, 5)))
        if r.random() < 0.5:
            t_si[0] = 0.0
    if dt_si is None:
        dt_si = r.uniform(0.01, 1.0) * 10.0 ** r.randint(-4, 0)
    if r.random() < 0.5:
        t_sample = [x / tu for x in t_si]
    else:
        own = r.choice(TIME_UNITS)
        t_sample = st.UnitArray([x / float(si.TIME[own]) for x in t_si], own)
    kw = dict(system=system, t_sample=t_sample, time_step=tq(dt_si),
              sampling_policy=policy or r.choice(["on_t_sample", "on_iteration", "on_interval", "no_sampling"]),
              sampling_interval=tq(dt_si * r.uniform(1.5, 20)), rng_seed=(r.choice([0, 0, 1, 2 ** 32 - 1]) if r.random() < 0.25 else r.randrange(2 ** 32)),
              init_state_processing=isp or r.choice(["auto", "none", "Poisson", "redist"]),
              units_system=st.UnitsSystem(**si.sys_dict(usys)))
    if r.random() < 0.6:
        kw["t_max"] = tq(t_si[-1] * r.uniform(0.3, 3.0) + dt_si)
    return st.RDScript(**kw)


def gen_desc(sd, idx, engine):
    r = gen.rng_for(sd, "C12", idx)
    kind = r.choice(["grid", "graph"])
    opts = {"space": kind, "net": {"chstt": 0.5, "nreactions": (0, 3)},
            "grid": {"dims": (1, 3), "max_cells": 18},
            "graph": {"nodes": (1, 6), "simple": True if engine else r.random() < 0.6}}
    return gen.rand_system(r, opts)


class Ctx:
    def __init__(self, case, skip):
        self.case = {"seed": case["seed"], "idx": case["idx"]}
        self.skip = skip
        self.bad = []
        self.counts = {}
        self.kind = None
        self.notes = {}

    def count(self, name, n=1):
        self.counts[name] = self.counts.get(name, 0) + n

    def add(self, what, **w):
        if what in self.skip:
            self.count("skipped:" + what)
            return
        if len(self.bad) < 12 and sum(1 for b in self.bad if b["what"] == what) < 2:
            self.bad.append({"what": what, "object": self.kind, "case": self.case, **w})

    def exc(self, stage, e, what=None, **w):
        self.add(what or ("exception:" + stage), stage=stage, error="%s: %s" % (type(e).__name__, str(e)[:300]), **w)

    def compare(self, path, expected, got, family=None, **w):
        """content comparison on one round-trip path; init-state-processing losses are their own family"""
        self.count("path:" + path)
        ds = diff(expected, got, "", [])
        isp = [d for d in ds if d["at"].endswith(".isp")]
        other = [d for d in ds if not d["at"].endswith(".isp")]
        if isp:
            self.add("script-init-state-processing-lost", path=path, differences=isp[:2], **w)
        if other:
            field = re.sub(r"\.\d+", ".#", other[0]["at"])
            self.add(family or "content-differs", path=path, field=field, differences=other[:4], **w)
        return not ds

    def idem(self, path, d0n, d1):
        self.count("idempotence")
        try:
            d1n = json.loads(json.dumps(d1))
        except Exception as e:
            self.exc("json.dumps(to_dict(result))", e, path=path)
            return
        ds = diff(d0n, d1n, "", [], rel=0.0)
        if ds:
            loose = diff(d0n, d1n, "", [], rel=1e-15)
            self.add("to_dict-not-idempotent", path=path, field=re.sub(r"\.\d+", ".#", ds[0]["at"]), differences=ds[:4],
                     within_1e15=not loose)


def api(st):
    return {
        "network": dict(to_dict=st.rdnetwork_to_dict, from_dict=st.rdnetwork_from_dict, save=st.save_rdnetwork,
                        load=st.load_rdnetwork, content=content_network),
        "grid": dict(to_dict=st.rdgridspace_to_dict, from_dict=st.rdgridspace_from_dict, save=st.save_rdspace,
                     load=st.load_rdspace, content=content_space, to_dict2=st.rdspace_to_dict, from_dict2=st.rdspace_from_dict),
        "graph": dict(to_dict=st.rdgraphspace_to_dict, from_dict=st.rdgraphspace_from_dict, save=st.save_rdspace,
                      load=st.load_rdspace, content=content_space, to_dict2=st.rdspace_to_dict, from_dict2=st.rdspace_from_dict),
        "system": dict(to_dict=st.rdsystem_to_dict, from_dict=st.rdsystem_from_dict, save=st.save_rdsystem,
                       load=st.load_rdsystem, content=content_system),
        "script": dict(to_dict=st.rdscript_to_dict, from_dict=st.rdscript_from_dict, save=st.save_rdscript,
                       load=st.load_rdscript, content=content_script),
    }


def load_elsewhere(load, path, elsewhere, r):
    """load with the current working directory set to `elsewhere`; path absolute or relative to it"""
    p = path if r.random() < 0.5 else os.path.relpath(path, elsewhere)
    with cwd(elsewhere):
        return load(p)


def roundtrips(cx, A, x, c0, wdir, r, thorough):
    """paths dict / json / file + idempotence for one object; returns the JSON-normalised canonical dictionary"""
    kind = cx.kind
    try:
        d0 = A["to_dict"](x)
        d0n = json.loads(json.dumps(d0, ensure_ascii=r.random() < 0.5))
    except Exception as e:
        cx.exc("to_dict", e)
        return None
    # (1) dictionary
    try:
        y = A["from_dict"](copy.deepcopy(d0))
        cx.compare("dict", c0, A["content"](y))
        cx.idem("dict", d0n, A["to_dict"](y))
    except Exception as e:
        cx.exc("from_dict(to_dict(x))", e)
    # (2) JSON text
    try:
        f2, t2 = A.get("from_dict2", A["from_dict"]), A.get("to_dict2", A["to_dict"])
        y = f2(copy.deepcopy(d0n))
        cx.compare("json", c0, A["content"](y))
        cx.idem("json", d0n, t2(y))
    except Exception as e:
        cx.exc("from_dict(json(to_dict(x)))", e)
    # (3) file
    fdir = os.path.join(wdir, kind + "_file")
    other = os.path.join(wdir, kind + "_elsewhere")
    os.makedirs(fdir, exist_ok=True)
    os.makedirs(other, exist_ok=True)
    path = os.path.join(fdir, r.choice(["obj.json", "model v2.json", "x"]))
    saved = False
    if kind == "script":
        if "save_rdscript-raises" not in cx.skip:
            try:
                A["save"](x, path)
                saved = os.path.exists(path)
                cx.count("save_rdscript_calls")
                if not saved:
                    cx.add("save_rdscript-raises", stage="save", error="returned without writing " + os.path.basename(path))
            except Exception as e:
                cx.count("save_rdscript_calls")
                cx.exc("save", e, what="save_rdscript-raises")
        if not saved:      # the documented writer is unusable: write the dictionary the way the other save_* do
            with open(path, "w", encoding="utf-8") as f:
                json.dump(d0, f, indent=4)
            saved = True
    else:
        try:
            A["save"](x, path)
            saved = True
        except Exception as e:
            cx.exc("save", e)
    if saved:
        try:
            y = load_elsewhere(A["load"], path, other, r)
            cx.compare("file", c0, A["content"](y))
            cx.idem("file", d0n, A.get("to_dict2", A["to_dict"])(y))
        except Exception as e:
            cx.exc("load", e)
    return d0n


def read(A, kind, d, use2=False):
    f = A.get("from_dict2") if (use2 and "from_dict2" in A) else A["from_dict"]
    return f(copy.deepcopy(d))


def alias_checks(cx, A, d0n, r):
    kind = cx.kind
    try:
        canon = A["content"](read(A, kind, d0n))
    except Exception as e:
        cx.exc("from_dict(canonical)", e)
        return None
    for level in OWNED[kind]:
        for key, names in ALIASES[level].items():
            for al in names[1:]:
                d = copy.deepcopy(d0n)
                hit = 0
                for lv, sub in positions(kind, d):
                    if lv == level and key in sub:
                        sub[al] = sub.pop(key)
                        hit += 1
                if not hit:
                    continue
                cx.count("alias_checks")
                try:
                    # the dictionary is handed over as it is (no copy): reading it leaves it the caller's own, so that it can
                    # be read again (one network dictionary shared by two system dictionaries) or written to a file afterwards
                    before = json.dumps(d, sort_keys=True)
                    f_ = A["from_dict"]
                    got = A["content"](f_(d))
                    ds = diff(canon, got, "", [])
                    if ds:
                        cx.add("alias-reads-differently", level=level, key=key, alias=al, differences=ds[:3])
                    cx.count("dictionaries_read_twice")
                    if json.dumps(d, sort_keys=True) != before:
                        cx.add("reading-modified-the-dictionary", level=level, key=key, alias=al, before=before[:300],
                               after=json.dumps(d, sort_keys=True)[:300])
                    else:
                        ds = diff(canon, A["content"](f_(d)), "", [])
                        if ds:
                            cx.add("alias-reads-differently", level=level, key=key, alias=al, second_reading=True, differences=ds[:3])
                except Exception as e:
                    cx.exc("from_dict(alias)", e, what="alias-rejected", level=level, key=key, alias=al)
    return canon


def with_units(c, new):
    c = copy.deepcopy(c)
    c["units"] = list(new)
    return c


def expect_omitted(kind, level, keys, canon, d):
    """(dictionary with `keys` left out at every position of `level`, expected content, reader variant)"""
    d = copy.deepcopy(d)
    c = copy.deepcopy(canon)
    keys = set(keys)
    use2 = False
    if level == "species":
        for sub, cs in zip(d["species"], c["species"]):
            for k in keys:
                sub.pop(k, None)
            zero = {e: 0.0 for e in c["envs"]}
            if "D" in keys:
                cs["D"] = dict(zero)
            if "density" in keys:
                cs["density"] = dict(zero)
            if "chstt" in keys:
                cs["chstt"] = {e: False for e in c["envs"]}
            if "units" in keys:
                cs["units"] = list(c["units"])
    elif level == "reaction":
        for sub, cr in zip(d["reactions"], c["reactions"]):
            for k in keys:
                sub.pop(k, None)
            zero = {e: 0.0 for e in c["envs"]}
            if "label" in keys:
                cr["label"] = None
            if "k+" in keys:
                cr["kf"] = dict(zero)
            if "k-" in keys:
                cr["kr"] = dict(zero)
            if "units" in keys:
                cr["units"] = list(c["units"])
    elif level == "network":
        for k in keys:
            d.pop(k, None)
        if "reactions" in keys:
            c["reactions"] = []
        if "units" in keys:
            c["units"] = list(DEFAULT)
    elif level == "grid":
        for k in keys:
            d.pop(k, None)
        for k in ("w", "h", "d"):
            if k in keys:
                c[k] = 1
        n = c["w"] * c["h"] * c["d"]
        if "cell_env" in keys:
            c["cell_env"] = [0] * n
        elif len(c["cell_env"]) != n:
            c["cell_env"] = c["cell_env"][:n]
            d["cell_env"] = list(c["cell_env"])
        if "units" in keys:
            c["units"] = list(DEFAULT)
        if "cell_volume" in keys:
            c["cell_vol"] = float(si.scale(tuple(c["units"]), gen.VOL_DIM))
        if "boundary_conditions" in keys:
            c["bc"] = {"x": "reflecting", "y": "reflecting", "z": "reflecting"}
        use2 = "type" in keys     # the dispatcher documents 'grid' as the default type
    elif level == "graph":
        for k in keys:
            d.pop(k, None)
        if "units" in keys:
            c["units"] = list(DEFAULT)
            for sub, cn in zip(d["nodes"], c["nodes"]):
                if "units" not in sub:
                    cn["units"] = list(DEFAULT)
            for sub, ce in zip(d["edges"], c["edges"]):
                if "units" not in sub:
                    ce["units"] = list(DEFAULT)
    elif level == "node":
        for sub, cn in zip(d["nodes"], c["nodes"]):
            for k in keys:
                sub.pop(k, None)
            if "units" in keys:
                cn["units"] = list(c["units"])
            if "volume" in keys:
                cn["vol"] = float(si.scale(tuple(cn["units"]), gen.VOL_DIM))
            if "environment" in keys:
                cn["env"] = 0
    elif level == "edge":
        for sub, ce in zip(d["edges"], c["edges"]):
            for k in keys:
                sub.pop(k, None)
            if "units" in keys:
                ce["units"] = list(c["units"])
            if "surface" in keys:
                ce["sfc"] = float(si.scale(tuple(ce["units"]), gen.SFC_DIM))
            if "distance" in keys:
                ce["dst"] = float(si.scale(tuple(ce["units"]), gen.LEN_DIM))
    elif level == "system":
        if "space" in keys:
            keys |= {"state", "chemostats"}
        for k in keys:
            d.pop(k, None)
        if "units" in keys:
            c["units"] = list(DEFAULT)
        if "space" in keys:
            c["space"] = default_grid(c["units"])
        if "state" in keys:
            c["state"] = default_state(c["network"], c["space"])
        if "chemostats" in keys:
            c["chemostats"] = default_chemostats(c["network"], c["space"])
    elif level == "script":
        for k in keys:
            d.pop(k, None)
        if "units" in keys:
            c["units"] = list(DEFAULT)
        tu = float(si.TIME[c["units"][1]])
        if "time_step" in keys:
            c["time_step"] = 1e-3 * tu
        if "sampling_interval" in keys:
            c["interval"] = 1.0 * tu
        if "t_max" in keys:
            c["t_max"] = c["t_sample"][-1]
        if "sampling_policy" in keys:
            c["policy"] = "on_t_sample"
        if "rng_seed" in keys:
            c["seed"] = "<any 32-bit>"
    return d, c, use2


def default_checks(cx, A, d0n, canon, r, thorough):
    kind = cx.kind
    for level in OWNED[kind]:
        present = [k for k in OPTIONAL[level] if any(lv == level and k in sub for lv, sub in positions(kind, d0n))]
        if not present:
            continue
        for keys in subsets_of(present, r, thorough):
            if level == "network" and "reactions" in keys and "network-without-reactions-raises" in cx.skip:
                continue
            d, exp, use2 = expect_omitted(kind, level, keys, canon, d0n)
            cx.count("default_checks")
            try:
                got = A["content"](read(A, kind, d, use2))
            except Exception as e:
                fam = None
                if level == "network" and "reactions" in keys and isinstance(e, KeyError) and "reactions" in str(e):
                    fam = "network-without-reactions-raises"
                cx.exc("from_dict(optional keys omitted)", e, what=fam or "omitted-key-rejected", level=level, omitted=sorted(keys))
                continue
            if level == "script" and "rng_seed" in keys:
                s = got.get("seed")
                if isinstance(s, int) and 0 <= s < 2 ** 32:
                    got["seed"] = "<any 32-bit>"
            if level == "system" and "space" in keys:
                # the documented default space lives in the system's units: its own family
                ge, gg = dict(exp), dict(got)
                part_e = {"space": ge.pop("space"), "state": ge.pop("state")}
                part_g = {"space": gg.pop("space", None), "state": gg.pop("state", None)}
                ds = diff(part_e, part_g, "", [])
                if ds:
                    cx.add("system-default-space-not-in-system-units", level=level, omitted=sorted(keys),
                           system_units=exp["units"], differences=ds[:3])
                exp, got = ge, gg
            ds = diff(exp, got, "", [])
            if ds:
                cx.add("omitted-key-default-wrong", level=level, omitted=sorted(keys),
                       field=re.sub(r"\.\d+", ".#", ds[0]["at"]), differences=ds[:3])


UNIT_KEYS = ("space", "time", "quantity")


def partial_units_checks(cx, A, d0n, canon, r, thorough):
    if "partial-units-dict-raises" in cx.skip:
        return
    kind = cx.kind
    subsets = [list(c) for n in range(0, 3) for c in itertools.combinations(UNIT_KEYS, n)]
    if not thorough:
        subsets = r.sample(subsets, 3)
    for level in OWNED[kind]:
        for keep in subsets:
            d = copy.deepcopy(d0n)
            hit = 0
            for lv, sub in positions(kind, d):
                if lv == level and isinstance(sub.get("units"), dict):
                    sub["units"] = {k: v for k, v in sub["units"].items() if k in keep}
                    hit += 1
            if not hit:
                continue
            exp = copy.deepcopy(canon)

            def cut(u):
                return [u[i] if k in keep else DEFAULT[i] for i, k in enumerate(UNIT_KEYS)]
            # expected: only the unit system of that level changes (every value carries its own units),
            # plus nested levels that inherit because their dictionary has no "units"
            if level == kind:
                exp["units"] = cut(exp["units"])
                if kind == "graph":
                    for sub, cn in zip(d0n["nodes"], exp["nodes"]):
                        if "units" not in sub:
                            cn["units"] = list(exp["units"])
                    for sub, ce in zip(d0n["edges"], exp["edges"]):
                        if "units" not in sub:
                            ce["units"] = list(exp["units"])
            elif level == "species":
                for cs in exp["species"]:
                    cs["units"] = cut(cs["units"])
            elif level == "reaction":
                for cr in exp["reactions"]:
                    cr["units"] = cut(cr["units"])
            elif level == "node":
                for sub, cn in zip(d0n["nodes"], exp["nodes"]):
                    if "units" in sub:
                        cn["units"] = cut(cn["units"])
            elif level == "edge":
                for sub, ce in zip(d0n["edges"], exp["edges"]):
                    if "units" in sub:
                        ce["units"] = cut(ce["units"])
            cx.count("partial_units_checks")
            try:
                got = A["content"](read(A, kind, d))
            except Exception as e:
                cx.exc("from_dict(partial units)", e, what="partial-units-dict-raises" if isinstance(e, KeyError) else None,
                       level=level, units_keys_given=keep)
                continue
            ds = diff(exp, got, "", [])
            if ds:
                cx.add("partial-units-default-wrong", level=level, units_keys_given=keep, differences=ds[:3])


RETRY_FAMILIES = {"script-init-state-processing-lost", "network-without-reactions-raises"}


def hand_checks(cx, A, st, c0, wdir, r):
    """hand-written dictionary (inline) and hand-written multi-file layout; when a reader refuses the form because of
    one of the expected defect families, that is recorded and the form is written once more without the offending key,
    so that everything else stays watched"""
    for part in ("dict", "files"):
        fam = _hand_once(cx, A, st, c0, wdir, r, cx.skip, part, 0)
        if fam in RETRY_FAMILIES:
            _hand_once(cx, A, st, c0, wdir, r, cx.skip | RETRY_FAMILIES, part, 1)


def _hand_family(e):
    if "init_state_processing" in str(e):
        return "script-init-state-processing-lost"
    if isinstance(e, KeyError) and "reactions" in str(e):
        return "network-without-reactions-raises"
    return None


def _hand_once(cx, A, st, c0, wdir, r, skip, part, attempt):
    kind = cx.kind
    if part == "files":
        return _hand_files(cx, A, st, c0, wdir, r, skip, attempt)
    parent = list(gen.mild_sys(r)) if r.random() < 0.6 else list(c0["units"])
    pus = st.UnitsSystem(**si.sys_dict(tuple(parent)))
    h = Hand(r, skip)
    try:
        if kind == "network":
            d = h.network(c0, parent)
            y = st.rdnetwork_from_dict(d, pus) if r.random() < 0.5 else st.rdnetwork_from_dict(d, parent_units_system=pus)
        elif kind in ("grid", "graph"):
            d = h.space(c0, parent)
            if kind == "grid" and r.random() < 0.5:
                y = st.rdgridspace_from_dict(d, parent_units_system=pus)
            elif kind == "graph" and r.random() < 0.5:
                y = st.rdgraphspace_from_dict(d, parent_units_system=pus)
            else:
                y = st.rdspace_from_dict(d, pus)
        elif kind == "system":
            d = h.system(c0, parent)
            y = st.rdsystem_from_dict(d, parent_units_system=pus)
        else:
            d = h.script(c0)
            y = st.rdscript_from_dict(d)
        json.dumps(d)
        cx.compare("hand_dict", c0, A["content"](y), written=_clip(d))
    except Exception as e:
        fam = _hand_family(e)
        cx.count("path:hand_dict")
        cx.exc("from_dict(hand-written dictionary)", e, what=fam)
        return fam
    return None


def _hand_files(cx, A, st, c0, wdir, r, skip, attempt):
    kind = cx.kind
    root = os.path.join(wdir, "%s_layout%d" % (kind, attempt))
    other = os.path.join(wdir, "%s_cwd%d" % (kind, attempt))
    os.makedirs(root, exist_ok=True)
    os.makedirs(other, exist_ok=True)
    files = {}
    h = Hand(r, skip, files)
    if r.random() < 0.4:
        h.abs_root = root
    try:
        if kind == "system":
            top = "model/system.json"
            files[top] = ("json", h.system(c0, DEFAULT, "model"))
            load = st.load_rdsystem
        elif kind == "script":
            top = "run/script.json"
            files[top] = ("json", h.script(c0, "run"))
            load = st.load_rdscript
        elif kind == "network":
            top = "network.json"
            files[top] = ("json", h.network(c0, DEFAULT))
            load = st.load_rdnetwork
        else:
            top = "space/space.json"
            files[top] = ("json", h.space(c0, DEFAULT, "space"))
            load = st.load_rdspace
        write_files(root, files)
        y = load_elsewhere(load, os.path.join(root, top), other, r)
        side = sorted(k for k in files if k != top)
        cx.compare("multifile", c0, A["content"](y), files=side[:8])
        if side:
            cx.count("multifile_with_side_files")
        if any(k.endswith((".npy", ".txt")) for k in side):
            cx.count("multifile_with_array_files")
    except Exception as e:
        fam = _hand_family(e)
        cx.count("path:multifile")
        cx.exc("load(hand-written files)", e, what=fam, files=sorted(files)[:8])
        return fam
    return None


def _clip(d, n=900):
    t = json.dumps(d, ensure_ascii=False, default=str)
    return t if len(t) <= n else t[:n] + "..."


def trajectory_checks(cx, st, tr, wdir, r, tag):
    c0 = content_trajectory(tr)
    fdir = os.path.join(wdir, tag)
    other = os.path.join(wdir, tag + "_cwd")
    os.makedirs(fdir, exist_ok=True)
    os.makedirs(other, exist_ok=True)
    for separate in (True, False):
        name = r.choice(["traj", "traj.json", "out 2"]) + ("_s" if separate else "_i")
        path = os.path.join(fdir, name)
        jpath = path if path.endswith(".json") else path + ".json"
        try:
            if r.random() < 0.5:
                st.save_rdtrajectory(tr, path, separate_data=separate)
            else:
                with cwd(fdir):
                    st.save_rdtrajectory(tr, name, separate)
        except Exception as e:
            fam = "trajectory-without-script-save-raises" if tr.script is None else None
            cx.count("path:trajectory_" + ("npy" if separate else "inline"))
            cx.exc("save_rdtrajectory", e, what=fam, separate_data=separate)
            continue
        try:
            if not os.path.exists(jpath):
                cx.add("trajectory-file-missing", expected=os.path.basename(jpath), present=sorted(os.listdir(fdir)))
                continue
            with open(jpath, encoding="utf-8") as f:
                j1 = json.load(f)
            npy = [p for p in os.listdir(fdir) if p.endswith(".npy") and p.startswith(os.path.basename(jpath)[:-5])]
            if separate != bool(npy) or isinstance(j1["data"]["value"], str) != separate:
                cx.add("trajectory-storage-mode-ignored", separate_data=separate, npy_files=npy,
                       data_value_type=type(j1["data"]["value"]).__name__)
            y = load_elsewhere(st.load_rdtrajectory, jpath, other, r)
            cx.compare("trajectory_" + ("npy" if separate else "inline"), c0, content_trajectory(y))
            # idempotence: saving the result again writes the same JSON
            p2 = os.path.join(other, os.path.basename(jpath))
            st.save_rdtrajectory(y, p2, separate_data=separate)
            with open(p2, encoding="utf-8") as f:
                j2 = json.load(f)
            cx.count("idempotence")
            ds = diff(j1, j2, "", [], rel=0.0)
            if ds:
                cx.add("to_dict-not-idempotent", path="trajectory", field=re.sub(r"\.\d+", ".#", ds[0]["at"]), differences=ds[:4],
                       within_1e15=not diff(j1, j2, "", [], rel=1e-15))
        except Exception as e:
            fam = "script-init-state-processing-lost" if "init_state_processing" in str(e) else None
            cx.exc("load_rdtrajectory", e, what=fam, separate_data=separate)
    return c0


def summary(kind, c0, desc):
    lv = sorted(unit_levels(c0))
    return {"kind": kind, "distinct_unit_systems": len(lv), "unit_systems": [".".join(u) for u in lv[:4]],
            "nspecies": len(desc["species"]), "nreactions": len(desc["reactions"]), "envs": desc["envs"],
            "space": desc["space"]["type"], "ncells": gen.ncells(desc["space"])}


def run_case(case):
    use_repo()
    import strengths as st
    sd, idx = case["seed"], case["idx"]
    thorough = case.get("tier") == "thorough"
    engine = bool(case.get("engine"))
    skip = skip_set()
    cx = Ctx(case, skip)
    objects = []
    wdir = tempfile.mkdtemp(prefix="case%d-" % idx, dir=case["scratch"])
    home = os.getcwd()
    try:
        desc = gen_desc(sd, idx, engine)
        r = gen.rng_for(sd, "C12r", idx)
        edges_own = "graph-edge-own-units-to_dict-raises" not in skip
        x = gen.render_system(desc, Rd(r, edges_own))
        A = api(st)
        cx.kind = "graph"
        if desc["space"]["type"] == "graph":
            cs = content_space(x.space)
            own = [i for i, e in enumerate(cs["edges"]) if e["units"] != cs["units"]]
            if own:
                cx.count("graphs_with_edges_in_own_units")
                try:
                    st.rdgraphspace_to_dict(x.space)
                except Exception as e:
                    cx.exc("rdgraphspace_to_dict", e, edges_with_own_units=own[:4], graph_units=cs["units"],
                           what="graph-edge-own-units-to_dict-raises" if isinstance(e, NameError) else None)
                    # carry on with the same model, edges in the graph's units, so that the rest is still watched
                    r = gen.rng_for(sd, "C12r'", idx)
                    x = gen.render_system(desc, Rd(r, False))
                    cx.notes["edges_degraded"] = True
        script = build_script(st, x, r)
        todo = [("network", x.network), (desc["space"]["type"], x.space), ("system", x), ("script", script)]
        canon_contents = {}
        for kind, obj in todo:
            cx.kind = kind
            try:
                c0 = A[kind]["content"](obj)
            except Exception as e:
                cx.exc("content extraction (harness)", e)
                continue
            canon_contents[kind] = c0
            objects.append({"key": chash([kind, c0]), "kind": kind, "nontrivial": len(unit_levels(c0)) >= 2,
                            "sample": summary(kind, c0, desc)})
            cx.count("kind:" + kind)
            d0n = roundtrips(cx, A[kind], obj, c0, wdir, r, thorough)
            if d0n is not None:
                canon = alias_checks(cx, A[kind], d0n, r)
                if canon is not None:
                    default_checks(cx, A[kind], d0n, canon, r, thorough)
                    partial_units_checks(cx, A[kind], d0n, canon, r, thorough)
            hand_checks(cx, A[kind], st, c0, wdir, r)
        # trajectories built directly
        cx.kind = "trajectory"
        S, n = len(desc["species"]), gen.ncells(desc["space"])
        ns = r.randint(1, 4)
        vals = [0.0 if r.random() < 0.2 else r.uniform(0, 500) * 10.0 ** r.randint(-2, 2) for _ in range(ns * S * n)]
        tu, qu = r.choice(TIME_UNITS), r.choice(Q_UNITS)
        ts = sorted(r.uniform(0, 100) for _ in range(ns))
        no_script = r.random() < 0.12 and "trajectory-without-script-save-raises" not in skip
        tr = st.RDTrajectory(data=st.UnitArray(vals, qu), t_sample=st.UnitArray(ts, tu), system=x,
                             script=None if no_script else build_script(st, x, r),
                             engine_description=r.choice([None, "hand made", "moteur µ"]),
                             engine_option=r.choice([None, "opt=1", ""]),
                             cgmap=None if r.random() < 0.7 else [r.randrange(max(1, n)) for _ in range(n)])
        c0 = trajectory_checks(cx, st, tr, wdir, r, "traj_direct")
        objects.append({"key": chash(["trajectory", c0]), "kind": "trajectory", "nontrivial": len(unit_levels(c0)) >= 2,
                        "sample": dict(summary("trajectory", c0, desc), nsamples=ns, built="directly", script=not no_script)})
        cx.count("kind:trajectory")
        cx.count("trajectory_built_directly")
        if engine:
            from vf import engines, ref
            try:
                engines.install()
                state = gen.state_of(desc)
                _, mag = ref.rate_law(desc, state, None)
                maxrate = ref.max_rate(desc, state)
                dt = 0.02 / maxrate
                k = r.randint(2, 4)
                sc = build_script(st, x, r, dt_si=dt, t_si=[0.0] + [dt * 2 * i for i in range(1, k)],
                                  policy=r.choice(["on_t_sample", "on_iteration"]), isp=r.choice(["auto", "none"]))
                eng = engines.get("euler")
                eng.setup(sc)
                eng.iterate_n(2 * k + 2)
                out = eng.get_output()
                eng.finalize()
            except Exception as e:
                cx.notes["engine_error"] = "%s: %s" % (type(e).__name__, str(e)[:200])
                out = None
            if out is not None:
                c0 = trajectory_checks(cx, st, out, wdir, r, "traj_run")
                objects.append({"key": chash(["trajectory", c0]), "kind": "trajectory",
                                "nontrivial": len(unit_levels(c0)) >= 2 and len(c0["t"]) >= 2,
                                "sample": dict(summary("trajectory", c0, desc), nsamples=len(c0["t"]), built="euler run")})
                cx.count("kind:trajectory")
                cx.count("trajectory_from_euler_run")
    finally:
        os.chdir(home)
        shutil.rmtree(wdir, ignore_errors=True)
    return {"objects": objects, "counts": cx.counts, "bad": cx.bad, "notes": cx.notes}


def units_dict_case(case):
    """unitssystem_from_dict on every subset of its three keys (documented per-key defaults)"""
    use_repo()
    import strengths as st
    bad, n = [], 0
    r = gen.rng_for(case["seed"], "C12u", 0)
    for _ in range(case["n"]):
        s3 = gen.rand_sys(r)
        full = si.sys_dict(s3)
        for k in range(0, 4):
            for keep in itertools.combinations(UNIT_KEYS, k):
                d = {q: full[q] for q in keep}
                want = [full[q] if q in keep else DEFAULT[i] for i, q in enumerate(UNIT_KEYS)]
                n += 1
                try:
                    got = _sys(st.unitssystem_from_dict(dict(d)))
                    if got != want:
                        bad.append({"what": "partial-units-default-wrong", "given": d, "got": got, "expected": want})
                except Exception as e:
                    if len(keep) == 3 or not isinstance(e, KeyError):
                        bad.append({"what": "exception:unitssystem_from_dict", "given": d, "error": "%s: %s" % (type(e).__name__, e)})
                    else:
                        bad.append({"what": "partial-units-dict-raises", "given": d, "stage": "unitssystem_from_dict",
                                    "error": "%s: %s" % (type(e).__name__, e)})
    seen, out = set(), []
    for b in bad:
        k = (b["what"], tuple(sorted(b["given"])))
        if k not in seen:
            seen.add(k)
            out.append(b)
    return {"n": n, "bad": out[:10]}


def replay(path):
    w = json.load(open(path))["witness"]
    c = w["case"]
    scratch = tempfile.mkdtemp(prefix="c12-replay-", dir=_scratch_root())
    try:
        res = run_case({"seed": c["seed"], "idx": c["idx"], "engine": c["idx"] % 4 == 0, "tier": json.load(open(path)).get("tier"),
                        "scratch": scratch})
    finally:
        shutil.rmtree(scratch, ignore_errors=True)
    print(json.dumps({"bad": res["bad"], "counts": res["counts"], "notes": res["notes"]}, indent=1, default=str, ensure_ascii=False))
    return 1 if res["bad"] else 0


def _scratch_root():
    os.makedirs(SCRATCH, exist_ok=True)
    return SCRATCH


def run_large_sidefiles(case):
    """A multi-file system whose integer arrays (environment map, chemostat map) sit in text side files of 30-140 kB, one value
    per line or several per line: the loaded system must hold every entry, the last ones included."""
    use_repo()
    import json as _json
    import numpy as np
    import strengths as st
    from vf.common import SCRATCH
    sd, idx = case["seed"], case["idx"]
    r = gen.rng_for(sd, "C12large", idx)
    w, h = r.choice([(130, 130), (200, 90), (17000, 1), (150, 151)])
    n = w * h
    S = r.randint(2, 3)
    labels = ["A", "B", "C"][:S]
    envs = ["e0", "e1", "e2"]
    cell_env = [r.randrange(3) for _ in range(n)]
    chst = [int(r.random() < 0.3) for _ in range(S * n)]
    chst[-1], chst[-2], cell_env[-1] = 1, 0, 2
    os.makedirs(SCRATCH, exist_ok=True)
    root = tempfile.mkdtemp(prefix="c12large-", dir=SCRATCH)
    bad, counts = [], {"large_sidefile_systems": 1}
    try:
        sub = os.path.join(root, "model")
        os.makedirs(os.path.join(sub, "arrays"))
        seps = {"env": r.choice(["\n", "\n", " \n", ",\n"]), "ch": r.choice(["\n", "\n", " ", ", "])}
        per_line = r.choice([1, 1, 8, 100])

        def text(vals, sep):
            if per_line == 1:
                return sep.join(str(v) for v in vals) + r.choice(["", "\n"])
            rows = [" ".join(str(v) for v in vals[k:k + per_line]) for k in range(0, len(vals), per_line)]
            return "\n".join(rows) + "\n"
        for name, vals, key in (("arrays/env.txt", cell_env, "env"), ("arrays/chst.txt", chst, "ch")):
            with open(os.path.join(sub, name), "w") as f:
                f.write(text(vals, seps[key]))
        counts["large_sidefile_bytes"] = os.path.getsize(os.path.join(sub, "arrays/chst.txt"))
        d = {"network": {"species": [{"label": l, "density": 1.0} for l in labels], "environments": envs},
             "space": {"type": "grid", "w": w, "h": h, "d": 1, "cell_env": "arrays/env.txt"},
             "chemostats": "arrays/chst.txt"}
        jpath = os.path.join(sub, "system.json")
        with open(jpath, "w", encoding="utf-8") as f:
            _json.dump(d, f)
        cwd = os.getcwd()
        os.chdir(root)
        try:
            system = st.load_rdsystem(os.path.join("model", "system.json") if r.random() < 0.5 else jpath)
        finally:
            os.chdir(cwd)
        # the reader of such side files on its own, on a file of 250 000 - 400 000 entries: same values, and it returns within
        # this workload's CPU budget (it needs well under a second; a reader that is quadratic in the file length does not)
        from strengths import text_array_rw
        nbig = r.choice([250000, 400000])
        bigvals = [r.randrange(3) for _ in range(1000)] * (nbig // 1000)
        with open(os.path.join(sub, "arrays/big.txt"), "w") as f:
            f.write(("\n" if r.random() < 0.6 else " ").join(str(v) for v in bigvals))
        import time as _time
        t0_ = _time.process_time()
        gotbig = [int(x) for x in text_array_rw.load_1D_array_txt(os.path.join(sub, "arrays/big.txt"), int)]
        t_big = _time.process_time() - t0_
        counts["large_sidefile_entries"] = counts.get("large_sidefile_entries", 0) + nbig
        if gotbig != bigvals:
            bad.append({"what": "large side file: the text reader does not return the values in the file", "entries_in_file": nbig, "entries_read": len(gotbig), "case": case})
        # growth of the reading time with the file length, measured in CPU time on the same reader: a quarter of the file must
        # not be more than ~9 times cheaper (linear: 4 times; quadratic: 16 times) once the times are measurable at all
        with open(os.path.join(sub, "arrays/quarter.txt"), "w") as f:
            f.write("\n".join(str(v) for v in bigvals[:nbig // 4]))
        t0_ = _time.process_time()
        text_array_rw.load_1D_array_txt(os.path.join(sub, "arrays/quarter.txt"), int)
        t_quarter = _time.process_time() - t0_
        counts["reader_scaling_checks"] = 1
        if t_big > 2.0 and t_big > 9.0 * max(t_quarter, 1e-3):
            bad.append({"what": "large side file: the reading time grows faster than linearly with the file length", "entries": nbig, "cpu_s": round(t_big, 2),
                        "entries_quarter": nbig // 4, "cpu_s_quarter": round(t_quarter, 3), "case": case})
        got_env = [int(x) for x in system.space.get_cell_env_array()]
        got_ch = [int(bool(x)) for x in system.chemostats]
        for name, got, want in (("cell_env", got_env, cell_env), ("chemostats", got_ch, chst)):
            counts["large_sidefile_entries"] = counts.get("large_sidefile_entries", 0) + len(want)
            if got != want:
                k = next((k for k, (a, b) in enumerate(zip(got, want)) if a != b), min(len(got), len(want)))
                bad.append({"what": "large side file: the loaded %s is not the array in the file" % name, "entries_in_file": len(want), "entries_loaded": len(got),
                            "first_difference": k, "values_per_line": per_line, "case": case})
    except Exception as e:
        bad.append({"what": "large side file: exception while loading a valid multi-file system", "error": "%s: %s" % (type(e).__name__, e), "case": case})
    finally:
        shutil.rmtree(root, ignore_errors=True)
    return {"bad": bad[:2], "counts": counts, "key": chash(["large-sidefiles", sd, idx]), "nontrivial": True,
            "sample": {"seed": sd, "idx": idx, "cells": n, "species": S, "values_per_line": per_line}}


def run_resave(case):
    """the same path written twice: first a large object, then a small one.  What is loaded afterwards is the small one (nothing
    of the longer first file survives), exactly as when the small one is saved to a fresh path."""
    use_repo()
    import strengths as st
    from vf.common import SCRATCH
    sd, idx = case["seed"], case["idx"]
    r = gen.rng_for(sd, "C12resave", idx)
    os.makedirs(SCRATCH, exist_ok=True)
    root = tempfile.mkdtemp(prefix="c12resave-", dir=SCRATCH)
    bad, counts = [], {}
    try:
        big_net = st.RDNetwork([st.Species("S%d" % i, D=1.0 + i, density=i) for i in range(12)], [st.Reaction("S0 -> S1", kf=1.0, label="a_long_label_" * 5)])
        small_net = st.RDNetwork([st.Species("A")], [])
        big_grid = st.RDGridSpace(w=6, h=5, d=2, cell_env=[0] * 60, cell_vol="3.5 µm3", boundary_conditions={"x": "periodical", "y": "periodical", "z": "periodical"})
        small_grid = st.RDGridSpace(w=2, h=1, d=1)
        big_graph = st.RDGraphSpace([st.RDGraphSpaceNode(volume=1.0 + i) for i in range(9)], [st.RDGraphSpaceEdge(i, i + 1, surface=2.0, distance=3.0) for i in range(8)])
        kinds = {
            "network": (st.save_rdnetwork, st.load_rdnetwork, st.rdnetwork_to_dict, big_net, small_net),
            "space": (st.save_rdspace, st.load_rdspace, st.rdspace_to_dict, r.choice([big_grid, big_graph]), small_grid),
            "system": (st.save_rdsystem, st.load_rdsystem, st.rdsystem_to_dict, st.RDSystem(big_net, big_grid), st.RDSystem(small_net, small_grid)),
        }
        for name, (save, load, to_dict, big, small) in kinds.items():
            counts["resave_checks"] = counts.get("resave_checks", 0) + 1
            p1, p2 = os.path.join(root, name + ".json"), os.path.join(root, name + "_fresh.json")
            try:
                save(big, p1)
                save(small, p1)
                save(small, p2)
                got, want = to_dict(load(p1)), to_dict(load(p2))
                if json.dumps(got, sort_keys=True, default=str) != json.dumps(want, sort_keys=True, default=str):
                    bad.append({"what": "a file written twice (large object, then small one) does not load as the small one", "kind": name, "case": case})
            except Exception as e:
                bad.append({"what": "a file written twice (large object, then small one) cannot be loaded", "kind": name, "error": "%s: %s" % (type(e).__name__, e), "case": case})
    finally:
        shutil.rmtree(root, ignore_errors=True)
    return {"bad": bad[:3], "counts": counts, "key": chash(["resave", sd, idx]), "nontrivial": True, "sample": {"seed": sd, "idx": idx}}


def main():
    if len(sys.argv) > 2 and sys.argv[1] == "--replay":
        return replay(sys.argv[2])
    skip = skip_set()
    run = Run("C12",
              rule="random systems (1-4 species with scalar / per-environment / 'default' D, density, chemostat flag; 0-3 labelled or "
                   "unlabelled reversible reactions incl. empty sides; 1-3 environments; grids up to 3x3x3 with all boundary mixes; graphs "
                   "of 1-6 nodes incl. self-loops and parallel edges; explicit or default state / chemostat map), every nesting level "
                   "(system, network, each species, each reaction, space, each node, each edge, script) rendered in its own random unit "
                   "system with bare / string / UnitValue quantities. From each: network, space, system, script (random policy, seed, "
                   "init_state_processing, t_sample with own units), a hand-built trajectory and (1 case in 4) the trajectory of a short "
                   "Euler run; both storage modes of save_rdtrajectory. An object is a case; it is non-trivial when its levels use >= 2 "
                   "different unit systems (trajectories from runs: and >= 2 samples); distinct by hash of its extracted content.",
              assumptions=["vf/si.py is the SI oracle; physical content = what content_* extracts (effective per-environment values, "
                           "effective t_max)",
                           "alias lists and documented defaults are my transcription of json_and_dict_doc.rst, the RDScript docstring and "
                           "the constructor signatures (graph nodes / edges), restricted to keys the readers accept",
                           "trajectories: no to_dict/from_dict exists, only save/load is exercised; cgmap given as a list of ints",
                           "skipped families this run: " + (", ".join(sorted(skip)) or "none")])
    run.max_samples = 10
    run.require("path:dict", "path:json", "path:file", "path:hand_dict", "path:multifile", "multifile_with_array_files",
                "path:trajectory_npy", "path:trajectory_inline", "idempotence", "alias_checks", "default_checks",
                "trajectory_from_euler_run", "kind:network", "kind:grid", "kind:graph", "kind:system", "kind:script", "kind:trajectory")
    if "partial-units-dict-raises" not in skip:
        run.require("partial_units_checks")
    thorough = tier() == "thorough"
    n_cases = 3400 if thorough else 400
    scratch = tempfile.mkdtemp(prefix="c12-", dir=_scratch_root())
    try:
        cases = [{"seed": seed(), "idx": i, "engine": i % 4 == 0, "tier": tier(), "scratch": scratch} for i in range(n_cases)]
        res = pmap("vf.checks.c12:run_case", cases, cpu_budget=300)
        ures = pmap("vf.checks.c12:units_dict_case", [{"seed": seed(), "n": 200 if thorough else 25}], cpu_budget=120)
    finally:
        shutil.rmtree(scratch, ignore_errors=True)
    per_kind_samples = {}
    engine_errors = []
    for c, r_ in zip(cases, res):
        if r_["status"] != "ok":
            cc = {"seed": c["seed"], "idx": c["idx"]}
            if r_["status"] in ("crash", "hang"):
                run.violation("engine " + r_["status"], {"case": cc, "result": {k: r_[k] for k in r_ if k != "i"}},
                              mech={"what": "engine-" + r_["status"]})
            elif r_["status"] == "exception":
                run.violation("harness exception", {"case": cc, "error": r_.get("error"), "tb": r_.get("tb")},
                              mech={"what": "harness-exception", "error": r_.get("error", "")})
            else:
                run.inconclusive_because("case %s: %s" % (cc, r_["status"]))
            continue
        v = r_["value"]
        for o in v["objects"]:
            sk = (o["kind"], o["sample"].get("built"))
            smp = o["sample"] if per_kind_samples.get(sk, 0) < 1 and o["nontrivial"] else None
            if run.case(o["key"], nontrivial=o["nontrivial"], sample=smp) and smp is not None:
                per_kind_samples[sk] = per_kind_samples.get(sk, 0) + 1
        for k, n in v["counts"].items():
            run.count(k, n)
        if v["notes"].get("engine_error"):
            engine_errors.append(v["notes"]["engine_error"])
        for b in v["bad"]:
            what = b["what"]
            run.violation(what, b, mech={"what": what, "object": b.get("object"), "path": b.get("path"), "stage": b.get("stage"),
                                         "field": b.get("field"), "level": b.get("level"), "error": (b.get("error") or "")[:120]})
    for r_ in ures:
        if r_["status"] != "ok":
            run.violation("harness exception", {"case": "units_dict_case", "error": r_.get("error"), "tb": r_.get("tb")},
                          mech={"what": "harness-exception"})
            continue
        run.count("unitssystem_from_dict_subsets", r_["value"]["n"])
        for b in r_["value"]["bad"]:
            if b["what"] in skip:
                run.count("skipped:" + b["what"])
                continue
            run.violation(b["what"], dict(b, case={"seed": seed(), "idx": 0}), mech={"what": b["what"], "stage": "unitssystem_from_dict"})
    if engine_errors:
        run.note("engine_errors", engine_errors[:3])
        run.inconclusive_because("%d Euler runs could not be made: %s" % (len(engine_errors), engine_errors[0]))
    run.note("skipped_families", sorted(skip))
    run.note("objects_per_kind", {k[5:]: n for k, n in run.monitors.items() if k.startswith("kind:")})
    run.note("roundtrip_paths", {k[5:]: n for k, n in run.monitors.items() if k.startswith("path:")})
    # ---- history workloads: objects used, modified through their setters / re-used, used again (vf/history.py) ----
    from vf.sandbox import run_extra as _run_extra
    from vf.common import seed as _seed, tier as _tier
    _run_extra(run, "vf.history:h_traj_system_vs_script", [{"seed": _seed(), "idx": _i} for _i in range(640 if _tier() == "thorough" else 64)], cpu_budget=60, kind_prefix="history: ")
    _run_extra(run, "vf.history:h_traj_names", [{"seed": _seed(), "idx": _i} for _i in range(480 if _tier() == "thorough" else 48)], cpu_budget=60, kind_prefix="history: ")
    from vf.sandbox import run_extra as _rx9
    _rx9(run, "vf.checks.c12:run_large_sidefiles", [{"seed": seed(), "idx": _i} for _i in range(40 if tier() == "thorough" else 6)], cpu_budget=90)
    run.require("large_sidefile_entries")
    _rx9(run, "vf.checks.c12:run_resave", [{"seed": seed(), "idx": _i} for _i in range(40 if tier() == "thorough" else 8)], cpu_budget=60)
    run.require("resave_checks")
    # a key left out of a dictionary means the constructor's documented default, in the object's own units (vf/history.py)
    from vf.sandbox import run_extra as _rxd
    from vf.common import seed as _sdd, tier as _trd
    _wd = ['node', 'edge', 'grid', 'species', 'reaction', 'script']
    _rxd(run, "vf.history:h_dict_defaults", [{"seed": _sdd(), "idx": _i, "which": _wd[_i % len(_wd)]} for _i in range(1200 if _trd() == "thorough" else 120)],
         cpu_budget=60, kind_prefix="history: ")
    return run.finish()


if __name__ == "__main__":
    sys.exit(main())
