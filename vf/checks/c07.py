"""C07 - Stochastic engines take only legal steps, at the rates of the master equation.

(a) Legality (Gillespie, on_iteration): every pair of consecutive records differs by the
    chemostat-masked effect of exactly one channel with positive *reference* propensity in the
    earlier state (vf.stoch.StepClassifier over vf.ref.channels); counts stay non-negative integers,
    time strictly increases.
(b) Rates: sequential Ville tests (vf.stats) pooled over all systems, and PIT+DKW shape tests:
      gillespie-wait        a0(x_n)*dt_n ~ Exp(1)                        (Ville both signs + PIT)
      gillespie-cat:<c>     1{event's effect belongs to category c} ~ Bernoulli(sum a / a0)
                            categories: order-0/1/2-distinct/2-repeated/3 reactions, diffusion
      tauleap-w:<f>         w.dx_n with log-MGF dt*sum_c a_c (exp(theta w.delta_c) - 1)
                            functionals: total of each species, species 0 in cell 0
      tauleap-tally         firings of one channel per step (non-diffusing tally product) ~ Poisson(a*dt) (PIT)
    Every statistic has false-alarm probability <= 1e-12 (martingale / DKW bounds, no normal approximation).
"""
import math
import sys

import numpy as np

from vf import gen, ref, si, engines, simhelp, stoch, stats
from vf.common import Run, seed, tier, use_repo, chash
from vf.sandbox import pmap

THETAS = stats.theta_grid()
NB = 400          # PIT histogram bins
CATS = ["R0", "R1", "R2d", "R2r", "R3", "D"]


def gen_case(sd, idx, engine_kind):
    r = gen.rng_for(sd, "C07", idx)
    kind = r.choice(["grid", "graph"])
    h = 10 ** r.uniform(-6.7, -5.0)          # cell edge 0.2 .. 10 um: volumes far from 1 um^3
    opts = {"space": kind, "explicit_chstt": 0.35, "integer_state": True, "state_counts": (2, 20), "p_zero": 0.1,
            "net": {"chstt": 0.15, "nreactions": (1, 3), "nspecies": (1, 3), "max_order": 3, "counts": (2, 20), "h": h,
                    "rate": (0.2, 3.0)},
            "grid": {"dims": (1, 3), "max_cells": 8}, "graph": {"nodes": (1, 6), "simple": False}}
    desc = gen.rand_system(r, opts)
    if idx % 25 == 9:
        # a hub with 255..300 neighbours (pure diffusion from a well-filled hub: every leaf must be reachable, the waiting
        # times are those of the sum over all its channels)
        nleaf = r.choice([255, 256, 257, 300])
        ne = len(desc["envs"])
        nodes = [{"vol": (h * 3.0) ** 3, "env": r.randrange(ne)}] + [{"vol": (h * r.uniform(0.6, 1.8)) ** 3, "env": r.randrange(ne)} for _ in range(nleaf)]
        edges = [{"i": 0 if r.random() < 0.5 else j, "j": None, "sfc": h * h * r.uniform(0.3, 2.0), "dst": h * r.uniform(0.5, 2.0)} for j in range(1, nleaf + 1)]
        for j, e_ in enumerate(edges, start=1):
            e_["j"] = j if e_["i"] == 0 else 0
        r.shuffle(edges)
        desc["space"] = {"type": "graph", "nodes": nodes, "edges": edges}
        desc["reactions"] = []
        for s_ in desc["species"]:
            s_["D"] = r.uniform(0.5, 2.0) * h * h
            s_["chstt"] = False
        S_ = len(desc["species"])
        desc["state"] = [(float(r.randint(2000, 6000)) if i_ == 0 else float(r.randint(0, 3))) for _ in range(S_) for i_ in range(nleaf + 1)]
        desc["chemostats"] = None
        return desc, None
    # make sure something of order >= 2 with a repeated reactant is often present (x(x-1) vs x^2 matters at small counts)
    labels = [s["label"] for s in desc["species"]]
    V = h ** 3
    if r.random() < 0.6:
        a = r.choice(labels)
        b = r.choice(labels)
        typ = 8.0
        k2 = r.uniform(0.3, 2.0) * typ ** (1 - 2) * V
        desc["reactions"].append({"sub": {a: 2}, "prod": {b: 1} if r.random() < 0.5 else {a: 1}, "kf": k2, "kr": 0.0, "label": None})
    if r.random() < 0.7:
        # zero-order source and first-order sink keep the system alive at small counts
        a = r.choice(labels)
        desc["reactions"].append({"sub": {}, "prod": {a: 1}, "kf": r.uniform(0.5, 3.0) * 6.0 / V, "kr": r.uniform(0.2, 1.0), "label": None})
    tally = None
    if engine_kind == "tauleap" and desc["reactions"]:
        # non-diffusing, non-reacting tally product on one channel: its per-cell increment is that channel's firing count
        j = r.randrange(len(desc["reactions"]))
        rx = desc["reactions"][j]
        if any(in_ != 0 for in_ in ([rx["kf"]] if not isinstance(rx["kf"], dict) else rx["kf"].values())):
            desc["species"].append({"label": "T", "D": 0.0, "density": 0.0, "chstt": False})
            rx["prod"] = dict(rx["prod"])
            rx["prod"]["T"] = 1
            if rx["kr"] != 0.0:
                rx["kr"] = 0.0
            n = gen.ncells(desc["space"])
            if desc["state"] is not None:
                desc["state"] = list(desc["state"]) + [0.0] * n
            if desc["chemostats"] is not None:
                desc["chemostats"] = list(desc["chemostats"]) + [0] * n
            tally = j
    return desc, tally


def gen_tally_case(sd, idx):
    """catalytic networks: reactants are not consumed, a non-diffusing tally product counts the firings of one channel per
    cell and step; large lambda (1..30) without any risk of negative counts, so the Poisson *shape* is testable"""
    r = gen.rng_for(sd, "C07tally", idx)
    h = 10 ** r.uniform(-6.7, -5.0)
    V = h ** 3
    kind = r.choice(["grid", "graph"])
    envs = r.sample(gen.ENVS, r.randint(1, 2))
    space = gen.rand_grid(r, len(envs), h, dims=(1, 2), max_cells=4) if kind == "grid" else gen.rand_graph(r, len(envs), h, nodes=(1, 4), simple=True)
    form = r.choice(["A+A", "A", "A+B", "0", "3A"])
    sub = {"A+A": {"A": 2}, "A": {"A": 1}, "A+B": {"A": 1, "B": 1}, "0": {}, "3A": {"A": 3}}[form]
    prod = dict(sub)
    prod["T"] = 1
    order = sum(sub.values())
    cnt_ = r.randint(4, 15)
    combos = {"A+A": cnt_ * (cnt_ - 1), "A": cnt_, "A+B": cnt_ * cnt_, "0": 1, "3A": cnt_ * (cnt_ - 1) * (cnt_ - 2)}[form]
    lam_target = r.choice([0.7, 2.0, 6.0, 20.0, 150.0, 400.0])     # also above 100, where samplers tend to switch algorithm
    dt = 1.0
    Vm = sum(gen.cell_vols(space)) / gen.ncells(space)
    k = lam_target / (combos * Vm ** (1 - order) * dt)
    species = [{"label": "A", "D": 0.0, "density": 0.0, "chstt": False}, {"label": "B", "D": 0.0, "density": 0.0, "chstt": False},
               {"label": "T", "D": 0.0, "density": 0.0, "chstt": False}]
    n = gen.ncells(space)
    state = [float(cnt_)] * n + [float(cnt_)] * n + [0.0] * n
    desc = {"envs": envs, "species": species, "reactions": [{"sub": sub, "prod": prod, "kf": k, "kr": 0.0, "label": None}],
            "space": space, "state": state, "chemostats": None, "h": h}
    return desc, 0, dt


def channel_category(desc, ch):
    if ch[0] == "D":
        return "D"
    need = ch[4]
    order = sum(m for _, m in need)
    if order == 0:
        return "R0"
    if order == 1:
        return "R1"
    if order == 2:
        return "R2r" if any(m == 2 for _, m in need) else "R2d"
    return "R3"


def new_acc():
    return {"inc": [0.0] * len(THETAS), "max": 0.0, "n": 0, "sy": 0.0, "sm": 0.0}


def acc_add(acc, y, psi_fn, mean):
    acc["n"] += 1
    acc["sy"] += y
    acc["sm"] += mean
    mx = acc["max"]
    inc = acc["inc"]
    for i, th in enumerate(THETAS):
        inc[i] += th * y - psi_fn(th)
        if inc[i] > mx:
            mx = inc[i]
    acc["max"] = mx


def coarse_tally_case(case):
    """One coarse leap out of a nearly empty cell: x = 1..5 molecules in one cell of a two-cell space, nothing in the other, a
    step so long that the expected number of jumps (lambda = 2 or 3) exceeds what the cell holds.  The number that arrives in the
    empty cell after ONE step is that channel's firing count: Poisson(lambda), untruncated (the source may go negative).  Repeated
    over seeds; Ville mean test and randomised PIT, pooled with the other monitors."""
    use_repo()
    engines.install()
    import strengths as st
    sd, idx = case["seed"], case["idx"]
    r = gen.rng_for(sd, "C07coarse", idx)
    accs, hists, bad, counts = {}, {}, [], {}
    x = r.choice([1, 1, 2, 3, 5])
    lam = r.choice([2.0, 3.0, 1.2])
    D = r.uniform(0.3, 2.0)
    if r.random() < 0.5:
        space = st.RDGridSpace(w=2, h=1, d=1, cell_vol=1.0)
        kd = D                      # one face of 1 um^2, centre distance 1 um, volume 1 um^3
    else:
        v0, sfc, dst = r.uniform(0.5, 2.0), r.uniform(0.5, 2.0), r.uniform(0.5, 2.0)
        space = st.RDGraphSpace([st.RDGraphSpaceNode(volume=v0), st.RDGraphSpaceNode(volume=r.uniform(0.5, 2.0))],
                                [st.RDGraphSpaceEdge(0, 1, surface=sfc, distance=dst)])
        kd = D * sfc / (dst * v0)
    net = st.RDNetwork([st.Species("A", D=D, density=0)], [])
    system = st.RDSystem(net, space, state=[float(x), 0.0])
    dt = lam / (kd * x)
    vr = gen.rng_for(sd, "C07coarse-pit", idx)
    for rep in range(case.get("reps", 120)):
        script = st.RDScript(system, t_sample=[0], t_max=10 * dt, time_step=dt, sampling_policy="on_iteration", rng_seed=r.randrange(2 ** 31),
                             init_state_processing="none")
        e = engines.get("tauleap")
        e.setup(script)
        e.iterate()
        out = e.get_output()
        e.finalize()
        dd = np.array(out.data.convert("molecule").value, dtype=float)
        if dd.size < 4:
            bad.append({"what": "coarse leap: no record after one step", "case": case})
            break
        y, src = dd[3], dd[2]
        counts["tauleap_coarse_leap_observations"] = counts.get("tauleap_coarse_leap_observations", 0) + 1
        if y < 0 or y != math.floor(y) or src + y != x:
            bad.append({"what": "coarse leap: arrivals are not a non-negative integer matched by the source's loss", "arrived": float(y), "source_after": float(src),
                        "source_before": x, "case": case})
            break
        lo, f = stats.poisson_pmf_cdf(int(y), lam)
        h_ = hists.setdefault("tauleap-coarse-leap", [0] * NB)
        h_[min(NB - 1, max(0, int((lo + vr.random() * f) * NB)))] += 1
        a_ = accs.setdefault("tauleap-coarse-leap-mean", new_acc())
        acc_add(a_, y, lambda th: lam * math.expm1(th), lam)
    return {"key": chash(["coarse", sd, idx]), "nontrivial": True, "counts": counts, "bad": bad[:2], "accs": accs, "hists": hists,
            "sample": {"seed": sd, "idx": idx, "molecules": x, "expected_jumps_per_step": lam}}


def run_case(case):
    use_repo()
    engines.install()
    if case.get("coarse_tally"):
        return coarse_tally_case(case)
    sd, idx, kind_ = case["seed"], case["idx"], case["engine"]
    fixed_dt = None
    if case.get("tally_only"):
        desc, tally, fixed_dt = gen_tally_case(sd, idx)
    else:
        desc, tally = gen_case(sd, idx, kind_)
    r = gen.rng_for(sd, "C07r", idx)
    ctx = {"case": {"seed": sd, "idx": idx, "engine": kind_}}
    bad, counts = [], {}
    accs, hists = {}, {}

    def cnt(k, n_=1):
        counts[k] = counts.get(k, 0) + n_

    def acc(name):
        if name not in accs:
            accs[name] = new_acc()
        return accs[name]

    def hist(name, u):
        h_ = hists.setdefault(name, [0] * NB)
        h_[min(NB - 1, max(0, int(u * NB)))] += 1
    S, n = len(desc["species"]), gen.ncells(desc["space"])
    chst = gen.chemostats_of(desc)
    state = gen.state_of(desc)
    rd = gen.Rendering(r, molecule_state=True)
    system = gen.render_system(desc, rd)
    ms = gen.mild_sys(r)
    usys = (ms[0], ms[1], "molecule")
    sc = stoch.StepClassifier(desc, chst)
    chs = sc.chs
    keys = [frozenset((i, d) for i, d in ch[5].items() if d != 0) for ch in chs]
    sseed = r.randrange(2 ** 31)
    if kind_ == "gillespie":
        nev = case["events"]
        script = simhelp.make_script(system, r, dt_si=1.0, t_sample_si=[0.0], policy="on_iteration", t_max_si=1e30, usys=usys,
                                     isp="none", seed=sseed)
        t, d, complete, out = simhelp.run_script("gillespie", script, nev)
        X = d.reshape(len(t), S * n)
        if X[0].tobytes() != np.array(state, dtype=float).tobytes():
            bad.append({"what": "gillespie: t=0 record is not the given state", **ctx})
        if np.any(X < 0) or np.any(X != np.floor(X)):
            bad.append({"what": "gillespie: negative or non-integer count", **ctx})
        cat_keys = {c: set() for c in CATS}
        for k, ch in enumerate(chs):
            cat_keys[channel_category(desc, ch)].add(keys[k])
        cat_members = {c: [k for k in range(len(chs)) if keys[k] in cat_keys[c]] for c in CATS if cat_keys[c]}
        Xl = X.tolist()
        for j in range(len(t) - 1):
            x0 = Xl[j]
            props = [ref.propensity(ch, x0) for ch in chs]
            a0 = sum(props)
            dtj = float(t[j + 1] - t[j])
            cnt("gillespie_steps")
            if not dtj > 0:
                bad.append({"what": "gillespie: time does not strictly increase", "step": j, "dt": dtj, **ctx})
                break
            diff = frozenset((i, b - a) for i, (a, b) in enumerate(zip(x0, Xl[j + 1])) if a != b)
            cands = [k for k in sc.by_delta.get(diff, []) if props[k] > 0]
            if not cands:
                bad.append({"what": "gillespie: step is not one possible event (masked effect of one channel with positive propensity)",
                            "step": j, "diff": sorted(diff), "a0_ref": a0,
                            "channels_with_that_effect": [(chs[k][0], chs[k][1], chs[k][2]) for k in sc.by_delta.get(diff, [])][:4],
                            **ctx})
                break
            y = a0 * dtj
            acc_add(acc("gillespie-wait"), y, lambda th: -math.log1p(-th), 1.0)
            hist("gillespie-wait", -math.expm1(-y))
            # the waiting time is independent of WHICH event ends it: the same Exp(1) law within every event category
            for c in cat_members:
                if diff in cat_keys[c]:
                    acc_add(acc("gillespie-wait|next-event:" + c), y, lambda th: -math.log1p(-th), 1.0)
                    hist("gillespie-wait|next-event:" + c, -math.expm1(-y))
                    break
            for c, members in cat_members.items():
                p = sum(props[k] for k in members) / a0
                if 0.0 < p < 1.0:
                    yb = 1.0 if diff in cat_keys[c] else 0.0
                    acc_add(acc("gillespie-cat:" + c), yb, lambda th, p=p: math.log1p(p * math.expm1(th)), p)
    else:
        nst = case["steps"]
        _, mag = ref.rate_law(desc, state, None)
        maxrate = ref.max_rate(desc, state)
        dt = r.choice([0.03, 0.1, 0.3]) / maxrate
        if fixed_dt is not None:
            dt = fixed_dt
        elif r.random() < 0.25:
            # coarse leaps (more events drawn than a cell holds; counts undershoot below zero): the firing numbers are still
            # Poisson with mean propensity x step - nothing clamps them.  A handful of steps only (such a leap is unstable).
            dt = r.choice([1.5, 3.0]) / maxrate
            nst = min(nst, 5)
            cnt("tauleap_coarse_cases")
        script = simhelp.make_script(system, r, dt_si=dt, t_sample_si=[0.0], policy="on_iteration", t_max_si=1e30, usys=usys,
                                     isp="none", seed=sseed)
        t, d, complete, out = simhelp.run_script("tauleap", script, nst)
        X = d.reshape(len(t), S * n)
        if np.any(X != np.floor(X)):
            bad.append({"what": "tauleap: non-integer count", **ctx})
        dts = float(t[1] - t[0]) if len(t) > 1 else dt
        # functionals: total of each species; species 0 in cell 0
        funcs = [("total-species-%d" % s_, {s_ * n + i: 1 for i in range(n)}) for s_ in range(min(S, 3))]
        funcs.append(("species0-cell0", {0: 1}))
        fgroups = []
        for name, w in funcs:
            g = {}
            for k, ch in enumerate(chs):
                dv = sum(w.get(i, 0) * dlt for i, dlt in ch[5].items())
                if dv:
                    g.setdefault(dv, []).append(k)
            fgroups.append((name, w, g))
        tally_ch = {}
        if tally is not None:
            Tsp = S - 1
            for k, ch in enumerate(chs):
                if ch[0] == "R" and ch[2] == 2 * tally:
                    tally_ch[ch[1]] = k
        vr = gen.rng_for(sd, "C07pit", idx)
        Xl = X.tolist()
        for j in range(len(t) - 1):
            x0 = Xl[j]
            if min(x0) < 0:
                # after a coarse leap some counts are negative.  The rates of such a state are outside the statement (the engine,
                # for one, silences every reaction of a cell that holds a negative count of ANY species), with one exception that
                # every reading shares: a channel that lacks reactant molecules (count below the coefficient, negative counts
                # included) does not fire.  Judged on the tallied channel.
                cnt("tauleap_steps_skipped_negative_prestate")
                for cell, k in tally_ch.items():
                    if any(x0[i_] < m_ for i_, m_ in chs[k][4]):
                        cnt("tauleap_negative_prestate_tally_checks")
                        yv = Xl[j + 1][(S - 1) * n + cell] - x0[(S - 1) * n + cell]
                        if yv != 0:
                            bad.append({"what": "tauleap: a channel lacking reactant molecules (negative count) fired", "cell": cell, "count": yv,
                                        "reactant_counts": [x0[i_] for i_, m_ in chs[k][4]], "needs": [m_ for i_, m_ in chs[k][4]], **ctx})
                            break
                continue
            cnt("tauleap_steps")
            props = [ref.propensity(ch, x0) for ch in chs]
            dx = [b - a for a, b in zip(x0, Xl[j + 1])]
            for name, w, g in fgroups:
                y = sum(wv * dx[i] for i, wv in w.items())
                A = [(dv, sum(props[k] for k in ks)) for dv, ks in g.items()]
                if not any(a_ > 0 for _, a_ in A):
                    if y != 0:
                        bad.append({"what": "tauleap: a quantity changed although no channel that changes it has positive propensity",
                                    "functional": name, "change": y, "step": j, **ctx})
                    continue
                mean = dts * sum(dv * a_ for dv, a_ in A)
                acc_add(acc("tauleap-w:" + name), y, lambda th, A=A: dts * sum(a_ * math.expm1(th * dv) for dv, a_ in A), mean)
            for cell, k in tally_ch.items():
                lam = props[k] * dts
                yv = dx[(S - 1) * n + cell]
                if lam > 0 and lam < 2000:
                    cnt("tauleap_tally_observations")
                    if yv < 0 or yv != math.floor(yv):
                        bad.append({"what": "tauleap: tally species decreased / non-integer", "value": yv, **ctx})
                        break
                    lo, f = stats.poisson_pmf_cdf(int(yv), lam)
                    hist("tauleap-tally", lo + vr.random() * f)
                    acc_add(acc("tauleap-tally-mean"), yv, lambda th, lam=lam: lam * math.expm1(th), lam)
                elif lam == 0 and yv != 0:
                    bad.append({"what": "tauleap: a channel with zero propensity fired", "cell": cell, "count": yv, **ctx})
                    break
    nontriv = any(sum(x["sub"].values()) >= 2 for x in desc["reactions"]) or n >= 2
    return {"key": chash([desc, kind_]), "nontrivial": bool(nontriv), "counts": counts, "bad": bad[:4], "accs": accs, "hists": hists,
            "sample": {"seed": sd, "idx": idx, "engine": kind_, "space": desc["space"]["type"], "cells": n,
                       "reactions": [gen.eq_string(x["sub"], x["prod"]) for x in desc["reactions"]],
                       "chemostated_entries": int(sum(chst)), "records": int(len(t)), "cell_volume_um3": gen.cell_vols(desc["space"])[0] * 1e18}}


def run_large(case):
    """Large grids (more than 512 cells, up to ~1000) with a localised population: every entry that changes in one tau-leap
    step must be changed by a channel that has positive propensity in the state BEFORE the step (all firings of a leap are
    drawn from the pre-step state; nothing can travel two cells in one step); Gillespie steps are classified as usual."""
    use_repo()
    engines.install()
    import strengths as st
    sd, idx = case["seed"], case["idx"]
    r = gen.rng_for(sd, "C07large", idx)
    w, h, d = r.choice([(700, 1, 1), (30, 30, 1), (9, 9, 9), (520, 1, 1), (26, 20, 1), (64, 3, 3), (10, 10, 6)])
    n = w * h * d
    bc = dict(r.choice(gen.BCS))
    hcell = 1e-6
    desc = {"envs": ["cyt"], "species": [{"label": "A", "D": r.uniform(0.2, 2.0) * 1e-12, "density": 0.0, "chstt": False},
                                          {"label": "B", "D": 0.0, "density": 0.0, "chstt": False}],
            "reactions": [{"sub": {"A": 1}, "prod": {"B": 1}, "kf": r.uniform(0.1, 1.0), "kr": 0.0, "label": None}],
            "space": {"type": "grid", "w": w, "h": h, "d": d, "cell_env": [0] * n, "cell_vol": hcell ** 3, "bc": bc},
            "state": None, "chemostats": None, "h": hcell}
    state = [0.0] * (2 * n)
    hot = [r.randrange(n) for _ in range(r.randint(1, 3))] + [min(n - 1, 511), min(n - 1, 512)]
    for c_ in hot[:r.randint(1, len(hot))]:
        state[c_] = float(r.randint(50, 400))
    if not any(state):
        state[hot[0]] = 100.0
    desc["state"] = state
    system = gen.render_system(desc, gen.Rendering(r, molecule_state=True))
    chst = [0] * (2 * n)
    chs = ref.channels(desc, chst)
    inc = {}            # entry -> channels that increase it ; dec likewise
    dec = {}
    for k, ch in enumerate(chs):
        for e_, dl in ch[5].items():
            (inc if dl > 0 else dec).setdefault(e_, []).append(k)
    bad, counts = [], {}
    kd = desc["species"][0]["D"] / hcell ** 2
    dt = r.choice([0.05, 0.2]) / (6 * kd + 1.0)
    for kind_, nst in (("tauleap", 4), ("gillespie", 150)):
        script = simhelp.make_script(system, r, dt_si=dt, t_sample_si=[0.0], policy="on_iteration", t_max_si=1e30,
                                     usys=("µm", "s", "molecule"), isp="none", seed=r.randrange(2 ** 31))
        t, dd, complete, out = simhelp.run_script(kind_, script, nst)
        X = dd.reshape(len(t), 2 * n)
        for j in range(len(t) - 1):
            x0, x1 = X[j], X[j + 1]
            changed = np.nonzero(x0 != x1)[0]
            counts["large_grid_steps_" + kind_] = counts.get("large_grid_steps_" + kind_, 0) + 1
            if kind_ == "gillespie" and len(changed) > 2:
                bad.append({"what": "gillespie (large grid): more than one event in a step", "changed": changed.tolist()[:6],
                            "case": {"seed": sd, "idx": idx}, "grid": [w, h, d]})
                break
            x0l = x0.tolist()
            for e_ in changed.tolist():
                cands = inc.get(e_, []) if x1[e_] > x0[e_] else dec.get(e_, [])
                counts["large_grid_entry_checks"] = counts.get("large_grid_entry_checks", 0) + 1
                if not any(ref.propensity(chs[k], x0l) > 0 for k in cands):
                    bad.append({"what": "%s (large grid): an entry changed although no channel that can change it that way has positive "
                                        "propensity in the state before the step" % kind_, "entry": int(e_), "species": int(e_ // n),
                                "cell": int(e_ % n), "before": float(x0[e_]), "after": float(x1[e_]), "step": j, "grid": [w, h, d], "bc": bc,
                                "occupied_cells_before": np.nonzero(x0[:n])[0].tolist()[:12], "case": {"seed": sd, "idx": idx}})
                    break
            else:
                continue
            break
    return {"bad": bad[:3], "counts": counts, "key": chash([w, h, d, bc, state[:0], idx]), "nontrivial": True,
            "sample": {"grid": [w, h, d], "bc": bc, "cells": n}}


def main():
    if len(sys.argv) > 2 and sys.argv[1] == "--replay":
        import json
        w = json.load(open(sys.argv[2]))["witness"]
        c = dict(w["case"])
        c.setdefault("events", 4000)
        c.setdefault("steps", 1500)
        res = run_case(c)
        res.pop("accs", None)
        res.pop("hists", None)
        print(json.dumps(res, indent=1, default=str))
        return 1 if res["bad"] else 0
    run = Run("C07",
              rule="random systems with 1-3 species, orders 0..3 incl. repeated reactants (2A), small counts (2..20), cell volumes "
                   "0.01..1000 um^3, per-environment constants incl. zeros, chemostats, grids (all boundary mixes) and graphs (self-loops, "
                   "parallel edges), zero-order sources; Gillespie on_iteration trajectories (every step classified) and tau-leap "
                   "on_iteration trajectories (increments of species totals / one entry / one tallied channel). Non-trivial: a reaction of "
                   "order >= 2 or >= 2 cells.",
              assumptions=["reference propensities vf/ref.py (falling factorial x k_env V^(1-order); Bernstein diffusion constants)",
                           "tau-leap steps with a negative entry in the pre-state are outside the statement (counted), except that a tallied channel lacking reactant molecules must not fire",
                           "each statistical monitor has false-alarm probability <= 1e-12; at most 16 monitors + per-case looks"])
    run.require("gillespie_steps", "tauleap_steps", "tauleap_tally_observations")
    thorough = tier() == "thorough"
    nG, nT = (1500, 1000) if thorough else (360, 240)
    ev, stp = (16000, 6000) if thorough else (4000, 1500)
    cases = [{"seed": seed(), "idx": i, "engine": "gillespie", "events": ev} for i in range(nG)]
    cases += [{"seed": seed(), "idx": 100000 + i, "engine": "tauleap", "steps": stp} for i in range(nT)]
    cases += [{"seed": seed(), "idx": 200000 + i, "engine": "tauleap", "steps": stp, "tally_only": True} for i in range(nT // 2)]
    cases += [{"seed": seed(), "idx": 300000 + i, "engine": "tauleap", "coarse_tally": True} for i in range(160 if thorough else 32)]
    res = pmap("vf.checks.c07:run_case", cases, cpu_budget=60)
    pooled, hists = {}, {}
    per_case_looks = 0
    thr = math.log(len(THETAS) / stats.ALPHA)
    for c, r_ in zip(cases, res):
        if r_["status"] != "ok":
            if r_["status"] in ("crash", "hang"):
                run.violation("engine " + r_["status"], {"case": c, "result": {k: r_[k] for k in r_ if k != "i"}}, mech={"what": r_["status"]})
            elif r_["status"] == "exception":
                run.violation("harness exception", {"case": c, "error": r_.get("error"), "tb": r_.get("tb")})
            else:
                run.inconclusive_because("case %s: %s" % (c, r_["status"]))
            continue
        v = r_["value"]
        run.case(v["key"], nontrivial=v["nontrivial"], sample=v.get("sample"))
        for k, n_ in v["counts"].items():
            run.count(k, n_)
        for b in v["bad"]:
            run.violation(b["what"][:80], b, mech={"what": b["what"]})
        for name, a in v["accs"].items():
            P = pooled.setdefault(name, {"inc": [0.0] * len(THETAS), "max": 0.0, "n": 0, "sy": 0.0, "sm": 0.0, "alarm_at": None})
            per_case_looks += 1
            if a["max"] > thr and P["alarm_at"] is None:
                P["alarm_at"] = {"case": c, "within_case_logL": a["max"]}
            for i in range(len(THETAS)):
                P["inc"][i] += a["inc"][i]
            P["n"] += a["n"]
            P["sy"] += a["sy"]
            P["sm"] += a["sm"]
            m = max(P["inc"])
            if m > P["max"]:
                P["max"] = m
                if m > thr and P["alarm_at"] is None:
                    P["alarm_at"] = {"case": c, "pooled_logL": m}
        for name, h in v["hists"].items():
            H = hists.setdefault(name, [0] * NB)
            for i, x in enumerate(h):
                H[i] += x
    summ = []
    for name, P in sorted(pooled.items()):
        summ.append({"monitor": name, "n": P["n"], "observed_sum": round(P["sy"], 3), "expected_sum": round(P["sm"], 3),
                     "max_logL": round(P["max"], 3), "threshold": round(thr, 3)})
        run.count("ville:" + name, P["n"])
        if P["alarm_at"] is not None:
            run.violation("rate statistic '%s' departs from the master equation (Ville test)" % name,
                          {"monitor": name, "n": P["n"], "observed_sum": P["sy"], "expected_sum": P["sm"], "max_logL": P["max"],
                           "threshold": thr, **P["alarm_at"]}, mech={"what": "ville", "monitor": name})
    for name, H in sorted(hists.items()):
        N = sum(H)
        if N < 200:
            continue
        cum, dev = 0, 0.0
        for i, x in enumerate(H):
            cum += x
            dev = max(dev, abs(cum / N - (i + 1) / NB))
        eps = math.sqrt(math.log(2.0 / stats.ALPHA) / (2.0 * N))
        summ.append({"monitor": "pit:" + name, "n": N, "sup_dev_on_bin_edges": round(dev, 5), "dkw_eps": round(eps, 5)})
        run.count("pit:" + name, N)
        if dev > eps:
            run.violation("distribution shape of '%s' is wrong (PIT + DKW)" % name, {"monitor": name, "n": N, "sup_dev": dev, "dkw_eps": eps},
                          mech={"what": "pit", "monitor": name})
    run.note("statistical_monitors", summ)
    run.note("false_alarm_budget", (len(pooled) + len(hists) + per_case_looks) * stats.ALPHA)
    for need in ("ville:gillespie-wait", "pit:gillespie-wait", "pit:tauleap-tally", "pit:tauleap-coarse-leap"):
        run.require(need)
    from vf.sandbox import run_extra as _run_extra
    _run_extra(run, "vf.checks.c07:run_large", [{"seed": seed(), "idx": _i} for _i in range(400 if thorough else 48)], cpu_budget=120,
               kind_prefix="")
    run.require("large_grid_entry_checks")
    return run.finish()


if __name__ == "__main__":
    sys.exit(main())
