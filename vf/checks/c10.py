"""C10 - Simulations terminate, and the engine lifecycle is crash-free and isolated.

Sandboxed lifecycle driver checked against a reference state machine.

 (A) exhaustive: every sequence of 4 (quick) / 5 (thorough) calls after an initial setup over
     {setup(s1), setup(s2), iterate, iterate_n(3), iterate_n(0), run(0), sample, get_progress,
      is_complete, get_output, finalize} on one engine object, for each engine kind (calls on a
     released engine other than setup / finalize / is_complete are outside the statement and pruned).
     After every call the model predicts: return value class, completion flag (is_complete() is read
     after every call while the engine is live), step index (from the raw engine clock), number of
     records (raw sample counter) and, at get_output, the exact bytes of t and data, taken from a
     single-engine reference run of the same script.
 (B) random sequences of up to 40 calls over two engine objects: every value returned by engine A
     must equal what A returns when B's calls are dropped from the sequence.
 (C) termination of set-up + loop for scripts whose species totals are fractional / below one
     molecule / macroscopic, under every initial-state mode of the stochastic engines (CPU-time budget).
 (D) fixed-step runs complete after ceil(t_max/dt) +- 1 iterations.
"""
import ctypes
import itertools
import math
import os
import random
import sys

import numpy as np

from vf import gen, ref, si, engines, simhelp
from vf.common import Run, seed, tier, use_repo, chash, SCRATCH
from vf.sandbox import pmap

BIG_N = [3_000_000_000, 2 ** 32, 2 ** 31, 2 ** 32 + 2, 10 ** 12]      # "until it is done": counts beyond a C int
BAD_SCRIPTS = [None, 12, "script.json", {"system": None}]      # not scripts: setup() must refuse them and leave the engine as it was
ALPHA = ["setup1", "setup2", "setup3", "badsetup", "iterate", "iterate_n3", "iterate_n0", "iterate_nbig", "run0", "sample", "get_progress",
         "is_complete", "get_output", "finalize"]
AFTER_RELEASE = {"setup1", "setup2", "setup3", "finalize", "is_complete"}
NATIVE_STATE_CHANGING = {"setup1", "setup2", "setup3", "iterate", "iterate_n3", "iterate_nbig", "run0", "sample", "finalize"}

_REF = {}


def fixed_script(kind_, which):
    """two small fixed scripts per engine kind: s1 = grid, on_iteration; s2 = graph, no_sampling"""
    use_repo()
    import strengths as st
    r = gen.rng_for("c10-fixed", kind_, which)
    if which == 1:
        net = st.RDNetwork(species=[st.Species("A", D=1.0, density=0), st.Species("B", D=0.5, density=0)],
                           reactions=[st.Reaction("A -> B", kf=0.7, kr=0.2)])
        space = st.RDGridSpace(w=2, h=2, d=1, cell_vol=1.0)
        state = [9, 0, 4, 2, 0, 3, 1, 0]
        system = st.RDSystem(net, space, state=state)
        pol, K = "on_iteration", 4
    elif which == 3:
        # time-point sampling with an explicit t_max LATER than the last requested time: the run goes on after the last record
        net = st.RDNetwork(species=[st.Species("P", D=0.6, density=0), st.Species("Q", D=0.0, density=0)],
                           reactions=[st.Reaction("P -> Q", kf=0.4)])
        system = st.RDSystem(net, st.RDGridSpace(w=3, h=1, d=1, cell_vol=2.0, boundary_conditions={"x": "periodical"}),
                             state=[6, 0, 8, 1, 0, 0])
        pol, K = "on_t_sample", 4
    else:
        net = st.RDNetwork(species=[st.Species("X", D=0.8, density=0)], reactions=[st.Reaction("X -> ", kf=0.3)])
        nodes = [st.RDGraphSpaceNode(volume=1.0), st.RDGraphSpaceNode(volume=2.0), st.RDGraphSpaceNode(volume=0.5)]
        edges = [st.RDGraphSpaceEdge(0, 1, surface=1.0, distance=1.0), st.RDGraphSpaceEdge(1, 2, surface=0.5, distance=1.5)]
        system = st.RDSystem(net, st.RDGraphSpace(nodes, edges), state=[12, 5, 7])
        pol, K = "no_sampling", 2
    if kind_ == "gillespie":
        # choose t_max so that a handful of events happen; the seed is searched so that completion needs K steps
        hint = os.environ.get("VERIF_C10_GSEED%d" % which)
        for sd_ in ([int(hint)] if hint else []) + list(range(1, 400)):
            sc = st.RDScript(system, t_sample=[0] if which != 3 else [0, 0.004], t_max={1: 0.05, 2: 0.03, 3: 0.04}[which], time_step=0.01,
                             sampling_policy=pol, rng_seed=sd_, init_state_processing="none")
            e = engines.get(kind_)
            e.setup(sc)
            k = 0
            while e.iterate() and k < 50:
                k += 1
            e.finalize()
            if k + 1 == K:
                return sc
        raise RuntimeError("no seed found for fixed gillespie script")
    dt = 0.01
    return st.RDScript(system, t_sample=[0] if which != 3 else [0, 1.5 * dt], t_max=(K - 0.5) * dt, time_step=dt, sampling_policy=pol,
                       rng_seed=7, init_state_processing="none")


def find_gillespie_seeds(case):
    use_repo()
    engines.install()
    return {w: fixed_script("gillespie", w).rng_seed for w in (1, 2, 3)}


def raw_state(lib, size):
    buf = (ctypes.c_double * size)()
    lib.engineexport_get_state(buf)
    return np.array(buf[:], dtype=float)


def reference_of(kind_, which):
    """single-engine reference: step times, states, completion step"""
    key = (kind_, which)
    if key in _REF:
        return _REF[key]
    sc = fixed_script(kind_, which)
    e = engines.get(kind_)
    e.setup(sc)
    size = sc.system.state_size()
    T = [float(e._lib.engineexport_get_time())]
    X = [raw_state(e._lib, size)]
    K = None
    for k in range(1, 60):
        cont = e.iterate()
        T.append(float(e._lib.engineexport_get_time()))
        X.append(raw_state(e._lib, size))
        if not cont:
            K = k
            break
    e.finalize()
    tmax = float(sc.t_max.convert(sc.units_system).value)
    pol = sc.sampling_policy
    if pol == "on_iteration":
        psteps = set(range(len(T)))
    elif pol == "on_t_sample":
        # contract: record at the first step at or after each requested time, one record per step
        taus = [float(x) for x in sc.t_sample.convert(sc.units_system).value]
        psteps, pos = set(), 0
        for k_, tv in enumerate(T):
            if pos < len(taus) and tv >= taus[pos]:
                psteps.add(k_)
                while pos < len(taus) and tv >= taus[pos]:
                    pos += 1
    else:
        psteps = set()
    _REF[key] = {"script": sc, "T": T, "X": X, "K": K, "size": size, "policy": pol, "t_max": tmax, "policy_steps": psteps}
    return _REF[key]


class Model:
    def __init__(self):
        self.live = False
        self.released = False
        self.which = None
        self.k = 0
        self.records = []

    def setup(self, which, refd):
        self.live, self.released, self.which, self.k = True, False, which, 0
        self.records = [0] if 0 in refd["policy_steps"] else []


def play(kind_, seq, eng, model, refs, bad, counts, ctx, observe=None):
    """apply the calls of `seq` to engine `eng`, checking each against the model.
    observe: list collecting the observable return values (for the two-engine projection check)."""
    lib = eng._lib

    def cnt(k, n_=1):
        counts[k] = counts.get(k, 0) + n_

    def fail(what, pos, call, **kw):
        bad.append({"what": what, "pos": pos, "call": call, "seq": list(seq), "engine": kind_, **kw, **ctx})
    for pos, call in enumerate(seq):
        cnt("calls")
        R = refs[model.which] if model.which else None
        n_before = lib.engineexport_get_nsamples() if model.live else None
        was_complete = model.live and model.k == R["K"]
        ret = None
        if call in ("setup1", "setup2", "setup3"):
            which = int(call[-1])
            eng.setup(refs[which]["script"])
            model.setup(which, refs[which])
            R = refs[which]
            ret = "ok"
        elif call == "badsetup":
            try:
                eng.setup(BAD_SCRIPTS[pos % len(BAD_SCRIPTS)])
                fail("setup() accepted something that is not a script", pos, call, argument=repr(BAD_SCRIPTS[pos % len(BAD_SCRIPTS)]))
                return
            except Exception:
                ret = "refused"
            cnt("refused_setups")
        elif call == "iterate":
            ret = eng.iterate()
        elif call == "iterate_n3":
            ret = eng.iterate_n(3)
        elif call == "iterate_n0":
            ret = eng.iterate_n(0)
        elif call == "iterate_nbig":
            ret = eng.iterate_n(BIG_N[pos % len(BIG_N)])
        elif call == "run0":
            ret = eng.run(0)
        elif call == "sample":
            eng.sample()
        elif call == "get_progress":
            ret = eng.get_progress()
        elif call == "is_complete":
            ret = eng.is_complete()
        elif call == "get_output":
            o1 = eng.get_output()
            o2 = eng.get_output()
            t1, d1 = np.array(o1.t.value, dtype=float), np.array(o1.data.value, dtype=float)
            t2, d2 = np.array(o2.t.value, dtype=float), np.array(o2.data.value, dtype=float)
            ret = (t1.tobytes() + d1.tobytes()).hex()
            cnt("get_output_checks")
            if t1.tobytes() != t2.tobytes() or d1.tobytes() != d2.tobytes():
                fail("get_output() is not repeatable", pos, call)
            want_t = np.array([R["T"][k] for k in model.records], dtype=float)
            want_d = np.concatenate([R["X"][k] for k in model.records]) if model.records else np.zeros(0)
            if t1.tobytes() != want_t.tobytes() or d1.tobytes() != want_d.tobytes():
                fail("get_output() differs from the single-engine reference for the calls made", pos, call,
                     got_t=t1.tolist()[:8], expected_t=want_t.tolist()[:8], got_d=d1.tolist()[:8], expected_d=want_d.tolist()[:8])
        elif call == "finalize":
            eng.finalize()
            model.live, model.released = False, True
            ret = "ok"
        if observe is not None:
            observe.append((call, ret if not isinstance(ret, float) else round(ret, 9)))
        if not model.live:
            continue
        # ---- observe the engine and update / check the model ----
        t_now = float(lib.engineexport_get_time())
        try:
            k_now = next(k for k, tv in enumerate(R["T"]) if tv == t_now)
        except StopIteration:
            fail("engine clock is not a step time of the reference run of the current set-up", pos, call, t=t_now,
                 reference_times=R["T"][:8])
            return
        n_after = lib.engineexport_get_nsamples()
        adv = k_now - model.k
        if call in ("setup1", "setup2", "setup3"):
            if k_now != 0:
                fail("clock not at 0 after set-up", pos, call, t=t_now)
            if n_after != len(model.records):
                fail("number of records after set-up", pos, call, got=n_after, expected=len(model.records))
        elif call == "iterate":
            want = 0 if was_complete else 1
            if adv != want:
                fail("iterate(): wrong number of steps", pos, call, advanced=adv, expected=want, was_complete=was_complete)
        elif call == "iterate_n3":
            want = 0 if was_complete else min(3, R["K"] - model.k)
            if adv != want:
                fail("iterate_n(3): wrong number of steps", pos, call, advanced=adv, expected=want, was_complete=was_complete)
        elif call == "iterate_nbig":
            want = 0 if was_complete else R["K"] - model.k
            if adv != want:
                fail("iterate_n(%d): wrong number of steps (more iterations requested than the simulation needs)" % BIG_N[pos % len(BIG_N)],
                     pos, call, advanced=adv, expected=want, was_complete=was_complete, mech_hint="iterate_n-beyond-c-int")
        elif call == "run0":
            if adv < 0 or (was_complete and adv != 0):
                fail("run(0): clock moved on a completed simulation / backwards", pos, call, advanced=adv)
        else:
            if adv != 0:
                fail("a call that runs no iteration moved the simulation", pos, call, advanced=adv)
        if adv > 0:
            model.records.extend(k_ for k_ in range(model.k + 1, k_now + 1) if k_ in R["policy_steps"])
        model.k = k_now
        if call == "sample":
            if n_after == len(model.records) + 1:
                model.records.append(model.k)
            cnt("sample_calls")
        if n_after != len(model.records):
            fail("number of records changed unexpectedly", pos, call, got=n_after, expected=len(model.records),
                 before=n_before)
            model.records = model.records[:n_after] if n_after < len(model.records) else model.records
        complete = model.k == R["K"]
        # completion status always refers to the current set-up
        cnt("completion_flag_checks")
        ic = eng.is_complete()
        if ic != complete:
            fail("is_complete() does not describe the current set-up", pos, call, got=ic, expected=complete,
                 step=model.k, completes_at=R["K"],
                 mech_hint=("after-setup" if call.startswith("setup") else "after-iterate_n0" if call == "iterate_n0" else "other"))
            return
        if call in ("iterate", "iterate_n3", "run0", "iterate_n0", "iterate_nbig"):
            cnt("loop_return_checks")
            if bool(ret) != (not complete):
                fail("loop call returned a completion status that contradicts the simulation", pos, call, returned=bool(ret),
                     complete=complete, mech_hint="iterate_n0-return" if call == "iterate_n0" else "other")
        if call == "get_progress":
            want = 100.0 * R["T"][model.k] / R["t_max"] if R["t_max"] > 0 else 0.0
            cnt("progress_checks")
            if abs(ret - want) > 1e-9 * max(abs(want), 1e-300):
                fail("get_progress() is not 100*t/t_max of the current set-up", pos, call, got=ret, expected=want)
        if call == "is_complete" and ret != complete:
            fail("is_complete() does not describe the current set-up", pos, call, got=ret, expected=complete)


def seq_valid(seq):
    released = False
    for c in seq:
        if released and c not in AFTER_RELEASE:
            return False
        if c == "finalize":
            released = True
        elif c.startswith("setup"):
            released = False
    return True


def run_batch(case):
    """all sequences  setup(s_a) + prefix + every completion of the remaining length"""
    use_repo()
    engines.install()
    kind_ = case["kind"]
    refs = {1: reference_of(kind_, 1), 2: reference_of(kind_, 2), 3: reference_of(kind_, 3)}
    L = case["length"]
    prefix = case["prefix"]
    prog = case.get("progress_file")
    bad, counts = [], {"sequences": 0}
    n = 0
    for tail in itertools.product(ALPHA, repeat=L - len(prefix)):
        seq = [case["first"]] + list(prefix) + list(tail)
        if not seq_valid(seq):
            continue
        n += 1
        if prog:
            with open(prog, "w") as f:
                f.write(" ".join(seq))
        eng = engines.get(kind_)
        model = Model()
        play(kind_, seq, eng, model, refs, bad, counts, {"case": {k: case[k] for k in ("kind", "first", "prefix", "length")}})
        counts["sequences"] += 1
        # leave the library in whatever state the sequence ended in: the next sequence starts with a set-up,
        # which must give a clean slate whatever came before
        if len(bad) > 20:
            break
    return {"bad": bad[:12], "counts": counts, "n": n}


def run_one_sequence(case):
    use_repo()
    engines.install()
    kind_ = case["kind"]
    refs = {1: reference_of(kind_, 1), 2: reference_of(kind_, 2), 3: reference_of(kind_, 3)}
    bad, counts = [], {}
    play(kind_, case["seq"], engines.get(kind_), Model(), refs, bad, counts, {"case": case})
    return {"bad": bad, "counts": counts}


# ---------------------------------------------------------------------------------------------
# (B) two engine objects

def gen_two_engine_seq(r, n):
    seq = []
    live = {"A": False, "B": False}
    started = {"A": False, "B": False}
    for _ in range(n):
        who = r.choice("AB")
        if not live[who]:
            c = r.choice(["setup1", "setup2", "setup3", "finalize", "is_complete"]) if started[who] else r.choice(["setup1", "setup2", "setup3"])
        else:
            c = r.choice(ALPHA)
        if c.startswith("setup"):
            live[who], started[who] = True, True
        if c == "finalize":
            live[who] = False
        seq.append((who, c))
    return seq


def _apply(eng, call, refs):
    if call in ("setup1", "setup2", "setup3"):
        eng.setup(refs[int(call[-1])]["script"])
        return "ok"
    if call == "badsetup":
        try:
            eng.setup(None)
            return "accepted"
        except Exception:
            return "refused"
    if call == "iterate":
        return eng.iterate()
    if call == "iterate_n3":
        return eng.iterate_n(3)
    if call == "iterate_n0":
        return eng.iterate_n(0)
    if call == "iterate_nbig":
        return eng.iterate_n(3_000_000_000)
    if call == "run0":
        r_ = eng.run(0)
        return r_
    if call == "sample":
        eng.sample()
        return None
    if call == "get_progress":
        return round(eng.get_progress(), 9)
    if call == "is_complete":
        return eng.is_complete()
    if call == "get_output":
        o = eng.get_output()
        return (np.array(o.t.value, dtype=float).tobytes() + np.array(o.data.value, dtype=float).tobytes()).hex()[:4000]
    if call == "finalize":
        eng.finalize()
        return "ok"


def run_two_engines(case):
    """interleaved run over A and B (possibly of different kinds) vs the projection on each engine alone"""
    use_repo()
    engines.install()
    r = gen.rng_for(case["seed"], "C10two", case["idx"])
    kinds = {"A": r.choice(engines.KINDS), "B": r.choice(engines.KINDS)}
    seq = gen_two_engine_seq(r, r.randint(6, 40))
    refs = {w: {1: reference_of(kinds[w], 1), 2: reference_of(kinds[w], 2), 3: reference_of(kinds[w], 3)} for w in "AB"}
    prog = case.get("progress_file")
    # projections first (single-engine behaviour), then the interleaving
    alone = {}
    if case.get("phase", "alone") == "alone":
        for w in "AB":
            e = engines.get(kinds[w])
            alone[w] = [_apply(e, c, refs[w]) for (who, c) in seq if who == w]
            e.finalize()
        return {"alone": alone, "seq": seq, "kinds": kinds}
    objs = {w: engines.get(kinds[w]) for w in "AB"}
    got = {"A": [], "B": []}
    for pos, (who, c) in enumerate(seq):
        if prog:
            with open(prog, "w") as f:
                f.write(str(pos))
        got[who].append(_apply(objs[who], c, refs[who]))
    return {"together": got, "seq": seq, "kinds": kinds}


def first_divergence(seq, alone, together):
    idx = {"A": 0, "B": 0}
    for pos, (who, c) in enumerate(seq):
        i = idx[who]
        idx[who] += 1
        if i >= len(together[who]) or alone[who][i] != together[who][i]:
            return pos, who, c
    return None


def other_engine_touched_native_state(seq, pos, who=None):
    """Mechanism feature for the known finding: at or before position `pos`, did some engine object use the native
    library while the library's single simulation belonged to ANOTHER object (set up or released by it)?
    Computed from the call sequence alone (never from the outcome).  An object 'believes' it is live after its own
    setup until its own finalize; the library's simulation belongs to whoever called setup last and is gone after
    anybody's finalize."""
    owner, freed = None, True
    live = {}
    for p, (w, c) in enumerate(seq[:pos + 1]):
        believes_live = live.get(w, False)
        if c not in ("is_complete", "badsetup") and not c.startswith("setup"):
            if c == "finalize":
                if believes_live and (owner != w or freed):
                    return True
                if (not believes_live) and not freed and owner != w:
                    return True       # releases the other object's simulation
            elif believes_live and (owner != w or freed):
                return True
        if c.startswith("setup"):
            if not freed and owner is not None and owner != w and live.get(owner, False):
                # replaces another live object's simulation: that object is now looking at foreign state
                pass
            owner, freed = w, False
            live[w] = True
        elif c == "finalize":
            live[w] = False
            freed = True
    return False


# ---------------------------------------------------------------------------------------------
# (C) termination on awkward amounts, (D) fixed-step completion count

def run_termination(case):
    use_repo()
    engines.install()
    import strengths as st
    r = gen.rng_for(case["seed"], "C10term", case["idx"])
    kind_ = case["kind"]
    isp = case["isp"]
    fam = case["family"]
    S = r.randint(1, 3)
    ncell = r.randint(1, 6)
    labels = ["A", "B", "C"][:S]
    if fam == "below-one":
        state = [r.choice([0.0, r.uniform(0.01, 0.9) / ncell]) for _ in range(S * ncell)]
    elif fam == "fractional":
        state = [r.choice([0.0, r.uniform(0.1, 6.0), float(r.randint(0, 4)) + 0.5]) for _ in range(S * ncell)]
    elif fam == "integer":
        state = [float(r.randint(0, 300)) for _ in range(S * ncell)]
    elif fam == "frozen":
        state = [float(r.choice([0, 0, r.randint(0, 5)])) for _ in range(S * ncell)]
    else:  # macroscopic
        state = [r.choice([0.0, 10 ** r.uniform(6, 15)]) for _ in range(S * ncell)]
    species = [st.Species(l, D=r.choice([0.0, 1.0]), density=0) for l in labels]
    reactions = [st.Reaction("%s -> %s" % (labels[0], labels[-1]), kf=r.choice([0.0, 0.5]), kr=r.choice([0.0, 0.1]))]
    if fam == "frozen":
        # nothing can happen from the start, or after the last few molecules of the reactant are used up (no diffusion,
        # irreversible or no reaction): a stochastic run has no next event before t_max
        species = [st.Species(l, D=0.0, density=0) for l in labels]
        reactions = [st.Reaction("%s -> %s" % (labels[0], labels[-1] if S > 1 else ""), kf=r.choice([0.0, 0.5, 40.0]), kr=0.0)]
    net = st.RDNetwork(species, reactions)
    if r.random() < 0.5:
        space = st.RDGridSpace(w=ncell, h=1, d=1, cell_vol=1.0)
    else:
        nodes = [st.RDGraphSpaceNode(volume=r.uniform(0.5, 2.0)) for _ in range(ncell)]
        edges = [st.RDGraphSpaceEdge(i, i + 1, surface=1.0, distance=1.0) for i in range(ncell - 1)]
        space = st.RDGraphSpace(nodes, edges)
    system = st.RDSystem(net, space, state=state)
    dt = 0.01
    policy = r.choice(["on_t_sample", "on_t_sample", "on_interval", "on_iteration", "no_sampling"])
    script = st.RDScript(system, t_sample=r.choice([[0, 0.05], [0, 0.05], [0], [0.02]]), time_step=dt, sampling_policy=policy, sampling_interval=r.choice([0.01, 0.02, 0.5]),
                         rng_seed=r.randrange(2 ** 31), init_state_processing=isp)
    prog = case.get("progress_file")
    if prog:
        with open(prog, "w") as f:
            f.write("setup")
    e = engines.get(kind_)
    if fam == "frozen" or (fam in ("below-one", "fractional", "integer") and r.random() < 0.3):
        # the whole-simulation entry point: it returns only when the engine reports completion
        if prog:
            with open(prog, "w") as f:
                f.write("simulate_script (policy %s)" % policy)
        # (with and without the progress display, whose loop is a code path of its own)
        import contextlib, io
        with contextlib.redirect_stdout(io.StringIO()):
            out = st.simulate_script(script, e, print_progress=r.random() < 0.5)
        return {"iterations": None, "nsamples": out.nsamples(), "family": fam, "isp": isp, "kind": kind_, "policy": policy}
    e.setup(script)
    if prog:
        with open(prog, "w") as f:
            f.write("loop")
    its = 0
    while e.iterate_n(1) and its < 200:
        its += 1
    out = e.get_output()
    e.finalize()
    return {"iterations": its, "nsamples": out.nsamples(), "family": fam, "isp": isp, "kind": kind_, "policy": policy}


def run_extreme_tauleap(case):
    """tau-leap with one channel whose propensity*dt is, by construction, >= 2^63 / infinite / (control) 1e17"""
    use_repo()
    engines.install()
    import strengths as st
    net = st.RDNetwork([st.Species("A", D=0.0, density=0)], [st.Reaction("2 A -> A", kf=case["kf"])])
    system = st.RDSystem(net, st.RDGridSpace(w=1, h=1, d=1, cell_vol=1.0), state=[case["amount"]])
    script = st.RDScript(system, t_sample=[0, 0.05], time_step=0.01, rng_seed=5, init_state_processing="none")
    e = engines.get("tauleap")
    e.setup(script)
    e.iterate_n(3)
    out = e.get_output()
    e.finalize()
    return {"nsamples": out.nsamples()}


def run_script_reuse(case):
    """One RDScript object handed to several engines in turn: no engine may leave anything behind in the caller's script
    (its own working units, a drawn seed, ...), so every use returns what a pristine copy of the script returns."""
    use_repo()
    engines.install()
    import json
    import strengths as st
    from strengths.rdscript import rdscript_to_dict
    sd, idx = case["seed"], case["idx"]
    r = gen.rng_for(sd, "C10reuse", idx)
    desc = gen.rand_system(r, {"explicit_state": 1.0, "integer_state": True, "state_counts": (1, 30),
                               "net": {"nspecies": (1, 2), "nreactions": (0, 2), "max_order": 2},
                               "grid": {"dims": (1, 2), "max_cells": 4}, "graph": {"nodes": (1, 3)}})
    system = gen.render_system(desc, gen.Rendering(r))
    usys = gen.mild_sys(r)
    _, mag = ref.rate_law(desc, gen.state_of(desc), None)
    dt = 0.02 / max([m / (abs(s_) + 1.0) for m, s_ in zip(mag, gen.state_of(desc))] + [1e-3])
    script = simhelp.make_script(system, r, dt_si=dt, t_sample_si=[0.0, 3 * dt, 6 * dt], policy="on_t_sample", usys=usys,
                                 isp="auto", seed=r.randrange(2 ** 31))
    pristine = script.copy()
    snap = json.dumps(rdscript_to_dict(script), sort_keys=True, default=str)
    bad, counts = [], {}
    refs = {}
    for kind_ in engines.KINDS:
        o = st.simulate_script(pristine.copy(), engines.get(kind_))
        refs[kind_] = (np.array(o.t.value).tobytes(), np.array(o.data.value).tobytes(), si.sys_of(o.data.units.sys))
    uses = [r.choice(engines.KINDS) for _ in range(r.randint(2, 4))]
    for n_, kind_ in enumerate(uses):
        o = st.simulate_script(script, engines.get(kind_))
        counts["script_reuse_checks"] = counts.get("script_reuse_checks", 0) + 1
        got = (np.array(o.t.value).tobytes(), np.array(o.data.value).tobytes(), si.sys_of(o.data.units.sys))
        if json.dumps(rdscript_to_dict(script), sort_keys=True, default=str) != snap:
            bad.append({"what": "an engine modified the script object it was handed", "uses": uses[:n_ + 1], "script_units": usys,
                        "units_now": si.sys_of(script.units_system), "case": {"seed": sd, "idx": idx}})
            break
        if got != refs[kind_]:
            bad.append({"what": "a script object used before returns something else than a pristine copy of it", "uses": uses[:n_ + 1],
                        "script_units": usys, "output_units": got[2], "expected_output_units": refs[kind_][2],
                        "case": {"seed": sd, "idx": idx}})
            break
    if not bad:
        # ... and the script stays the caller's to edit: new requested times (t_max follows them by default) after the script
        # has been through engines give what the same edit gives on a script no engine has seen
        new_ts = [0.0, 4 * dt, 9 * dt, 14 * dt]
        fresh_ = pristine.copy()
        for sc_ in (script, fresh_):
            sc_.t_sample = st.UnitArray(new_ts, "s")
        kind_ = r.choice(engines.KINDS)
        o1 = st.simulate_script(fresh_, engines.get(kind_))
        o2 = st.simulate_script(script, engines.get(kind_))
        counts["script_edit_after_use_checks"] = 1
        if (np.array(o1.t.value).tobytes(), np.array(o1.data.value).tobytes()) != (np.array(o2.t.value).tobytes(), np.array(o2.data.value).tobytes()):
            bad.append({"what": "a script edited after an engine has used it does not behave like the same edit of a pristine copy",
                        "uses": uses, "edit": "t_sample = %r s" % new_ts, "engine": kind_, "samples_got": len(o2.t.value),
                        "samples_expected": len(o1.t.value), "t_max_now": str(script.t_max), "t_max_expected": str(fresh_.t_max),
                        "case": {"seed": sd, "idx": idx}})
    return {"bad": bad[:2], "counts": counts, "key": chash([desc, uses, usys]), "nontrivial": len(set(uses)) >= 2,
            "sample": {"uses": uses, "script_units": usys}}


def heap_in_use():
    """bytes the C allocator has handed out and not got back (main arena + mmapped blocks): what C++ new, numpy and
    ctypes buffers live in; Python's small-object arenas are not part of it"""
    import ctypes
    libc = ctypes.CDLL("libc.so.6")

    class MI(ctypes.Structure):
        _fields_ = [(n_, ctypes.c_size_t) for n_ in "arena ordblks smblks hblks hblkhd usmblks fsmblks uordblks fordblks keepcost".split()]
    libc.mallinfo2.restype = MI
    m = libc.mallinfo2()
    return int(m.uordblks) + int(m.hblkhd)


def run_release_cycles(case):
    """'Releasing an engine ... and a new set-up afterwards starts from a clean slate', observed on the allocator: after a
    warm-up, N further set-up / iterate / fetch / release cycles of the same script must not leave the process holding more
    and more memory.  The monitor reads the allocator's in-use byte count (mallinfo2) and Python's traced allocations after
    each window of cycles; a violation is growth in BOTH of two consecutive windows by more than a quarter of one state
    array per cycle and more than 48 kB (a real leak of per-cell tables is 6-40 state arrays per cycle)."""
    use_repo()
    engines.install()
    import gc
    import tracemalloc
    import strengths as st
    r = gen.rng_for(case["seed"], "C10leak", case["idx"])
    kind_ = case["kind"]
    ns = r.randint(2, 5)
    ncell = r.choice([1000, 1728, 4096]) if case["space"] == "grid" else r.choice([200, 300])   # (a graph script costs ~5 ms per node to copy)
    sp = [st.Species("S%d" % i, D=r.choice([0, 1e-3]), density=0) for i in range(ns)]
    rx = [st.Reaction("S0 -> S1", kf=1e-3)] + ([st.Reaction("S0 + S1 -> S%d" % (ns - 1), kf=1e-6)] if ns > 2 else [])
    net = st.RDNetwork(sp, rx)
    if case["space"] == "grid":
        w = round(ncell ** (1 / 3))
        space = st.RDGridSpace(w=w, h=w, d=w)
        ncell = w ** 3
    else:
        space = st.RDGraphSpace([st.RDGraphSpaceNode() for _ in range(ncell)], [st.RDGraphSpaceEdge(i, (i + 1) % ncell) for i in range(ncell)])
    state = [float(r.randint(0, 20)) for _ in range(ns * ncell)]
    system = st.RDSystem(net, space, state=state)
    script = st.RDScript(system, t_sample=[0, 1e-3], t_max=2e-3, time_step=1e-3, sampling_policy="on_t_sample", rng_seed=3)
    eng = engines.get(kind_)
    state_bytes = 8 * ns * ncell

    def cycle():
        eng.setup(script)
        eng.iterate_n(2)
        o = eng.get_output()
        eng.finalize()
        del o

    for _ in range(3):
        cycle()
    per = case["cycles"]
    tracemalloc.start()
    marks = []
    for w_ in range(3):
        gc.collect()
        marks.append((heap_in_use(), tracemalloc.get_traced_memory()[0]))
        if w_ < 2:
            for _ in range(per):
                cycle()
    tracemalloc.stop()
    g1, g2 = marks[1][0] - marks[0][0], marks[2][0] - marks[1][0]
    p1, p2 = marks[1][1] - marks[0][1], marks[2][1] - marks[1][1]
    lim = max(0.25 * state_bytes * per, 49152.0)
    bad = []
    if (g1 > lim and g2 > lim) or (p1 > lim and p2 > lim):
        bad.append({"what": "memory held by the process grows with every set-up / release cycle", "engine": kind_, "space": case["space"],
                    "cells": ncell, "species": ns, "cycles_per_window": per, "state_array_bytes": state_bytes,
                    "allocator_growth_per_window": [g1, g2], "python_traced_growth_per_window": [p1, p2], "limit_per_window": lim})
    return {"bad": bad, "counts": {"release_cycles_observed": 2 * per + 3}, "key": chash(["leak", kind_, case["space"], ns, ncell]),
            "nontrivial": True, "sample": {"engine": kind_, "space": case["space"], "cells": ncell, "species": ns,
                                           "allocator_growth_per_window": [g1, g2], "python_traced_growth_per_window": [p1, p2], "limit": lim}}


def run_fixed_step_count(case):
    use_repo()
    engines.install()
    import strengths as st
    r = gen.rng_for(case["seed"], "C10cnt", case["idx"])
    bad, n = [], 0
    for _ in range(case["n"]):
        kind_ = r.choice(["euler", "tauleap"])
        dt = 10 ** r.uniform(-4, -1)
        nst = r.randint(0, 400) if r.random() > 0.08 else 0
        tmax = dt * (nst + r.choice([0.0, 0.0, 0.5, r.random()]))        # includes t_max == 0 exactly (one step, then complete)
        kw = {}
        unit_note = "s (default units)"
        if r.random() < 0.5:
            # the same numbers in other time units, under a script whose own time unit differs: steps from femtoseconds
            # to hours, i.e. from 1e-19 to 1e+9 when expressed in the unit the engine counts in
            tu = r.choice(["fs", "ps", "ns", "µs", "ms", "s", "min", "h"])
            su = r.choice(["fs", "ns", "µs", "ms", "s", "min", "h"])
            kw["units_system"] = st.UnitsSystem(time=su)
            unit_note = "%s under a script in %s" % (tu, su)
            dt_arg, tmax_arg = "%r %s" % (dt, tu), "%r %s" % (tmax, tu)
            dt_si = dt * float(si.TIME[tu])
        else:
            dt_arg, tmax_arg = dt, tmax
            dt_si = dt
        # rates that keep the step stable whatever its size (k dt = D dt / h^2 = 0.05): an unstable tau-leap step would
        # grow without bound and end in the known propensity overflow, which is not what this family is about
        net = st.RDNetwork([st.Species("A", D="%r µm2/s" % (0.05 / dt_si), density=0)], [st.Reaction("A -> ", kf="%r s-1" % (0.05 / dt_si))])
        system = st.RDSystem(net, st.RDGridSpace(w=2, h=1, d=1), state=[5, 3])
        script = st.RDScript(system, t_sample=[0], t_max=tmax_arg, time_step=dt_arg, sampling_policy="no_sampling", rng_seed=1,
                             init_state_processing="none", **kw)
        e = engines.get(kind_)
        e.setup(script)
        its = 0
        while True:
            its += 1
            if not e.iterate() or its > 1000:
                break
        done = e.is_complete()
        e.finalize()
        n += 1
        want = max(1, math.ceil(tmax / dt))
        if not done or abs(its - want) > 1:
            bad.append({"what": "fixed-step run does not complete after ceil(t_max/dt) +- 1 iterations", "dt": dt, "t_max": tmax,
                        "iterations": its, "expected": want, "complete": done, "engine": kind_, "time_units": unit_note})
    return {"bad": bad[:5], "n": n}


def run_long_horizon(case):
    """fixed-step runs of 2-6 million steps (rounding of the running time sum included): completion after ceil(t_max/dt) steps give or
    take one - i.e. still running after ceil - 3 steps, complete at the latest 5 steps later; progress at 100 % then"""
    use_repo()
    engines.install()
    import strengths as st
    r = gen.rng_for(case["seed"], "C10long", case["idx"])
    kind_ = r.choice(["euler", "tauleap"])
    nst = r.choice([2_000_003, 3_000_000, 6_000_001])
    dt = r.choice([1e-3, 2.0 ** -10, 7e-4])
    tmax = dt * (nst - 0.5)
    net = st.RDNetwork([st.Species("A", D=0.05 / dt * 1e-3, density=0)], [st.Reaction("A -> ", kf=1e-7 / dt)])
    if r.random() < 0.5:
        space = st.RDGridSpace(w=2, h=1, d=1)
    else:
        space = st.RDGraphSpace([st.RDGraphSpaceNode(), st.RDGraphSpaceNode()], [st.RDGraphSpaceEdge(0, 1)])
    system = st.RDSystem(net, space, state=[500, 300])
    script = st.RDScript(system, t_sample=[0], t_max=tmax, time_step=dt, sampling_policy="no_sampling", rng_seed=1, init_state_processing="none")
    e = engines.get(kind_)
    e.setup(script)
    want = math.ceil(tmax / dt)
    still = e.iterate_n(want - 3)
    its = want - 3
    bad = []
    if not still:
        bad.append({"what": "long fixed-step run completes more than one step before ceil(t_max/dt)", "steps": its, "expected": want, "engine": kind_, "dt": dt})
    else:
        while its < want + 6:
            its += 1
            if not e.iterate():
                break
        if not e.is_complete() or abs(its - want) > 1:
            bad.append({"what": "long fixed-step run does not complete after ceil(t_max/dt) +- 1 iterations", "iterations": its, "expected": want,
                        "complete": e.is_complete(), "engine": kind_, "dt": dt, "t_max": tmax, "progress": e.get_progress()})
    e.finalize()
    return {"bad": bad, "counts": {"long_horizon_runs": 1}, "key": chash(["long", case["seed"], case["idx"]]), "nontrivial": True,
            "sample": {"steps": want, "engine": kind_, "dt": dt}}


# ---------------------------------------------------------------------------------------------

def main():
    if len(sys.argv) > 2 and sys.argv[1] == "--replay":
        import json
        w = json.load(open(sys.argv[2]))["witness"]
        res = run_one_sequence({"kind": w["engine"], "seq": w["seq"]})
        print(json.dumps(res, indent=1, default=str))
        return 1 if res["bad"] else 0
    thorough = tier() == "thorough"
    L = 4 if thorough else 3
    run = Run("C10",
              rule="(A) EXHAUSTIVE: all call sequences of length %d after an initial setup(s1|s2|s3) over a 14-call alphabet, on "
                   "one engine object, for each of the 3 engine kinds (sequences calling anything but setup/finalize/is_complete "
                   "on a released engine are pruned), plus random sequences of length 5..12; (B) random interleavings of up to 40 calls over two engine objects of "
                   "random kinds, compared call by call with each engine's projection run alone; (C) set-up + loop termination "
                   "(CPU budget) for states that are below one molecule / fractional / integer / macroscopic (1e6..1e15) x "
                   "4 initial-state modes x 3 engines x grid/graph x seeds; (D) fixed-step completion count for random dt, t_max. "
                   "A case is one call sequence / interleaving / script; non-trivial when it contains >= 2 calls that change "
                   "native state." % L,
              assumptions=["'returns' is decided as bounded CPU time (budget >= 1000x the typical cost of the call)",
                           "calls on a released engine other than setup/finalize/is_complete are outside the statement"])
    run.require("sequences", "completion_flag_checks", "get_output_checks", "two_engine_interleavings", "termination_scripts",
                "fixed_step_count_checks")
    os.makedirs(SCRATCH, exist_ok=True)
    import tempfile
    pdir = tempfile.mkdtemp(prefix="c10-", dir=SCRATCH)
    sd = seed()
    try:
        gs = pmap("vf.checks.c10:find_gillespie_seeds", [{}], cpu_budget=120)[0]
        if gs["status"] == "ok":
            for w, v in gs["value"].items():
                os.environ["VERIF_C10_GSEED%s" % w] = str(v)
        import time as _t; _t0=_t.time(); _ph=lambda n: sys.stderr.write('phase %s %.1fs\n' % (n, _t.time()-_t0))
        # ---------------- (A) ----------------
        cases = []
        for kind_ in engines.KINDS:
            for first in ("setup1", "setup2", "setup3"):
                for prefix in itertools.product(ALPHA, repeat=2):
                    if not seq_valid([first] + list(prefix)):
                        continue
                    cases.append({"kind": kind_, "first": first, "prefix": list(prefix), "length": L,
                                  "progress_file": os.path.join(pdir, "A%d" % len(cases))})
        res = pmap("vf.checks.c10:run_batch", cases, cpu_budget=120 if not thorough else 900, share_size=4)
        _ph('A-exhaustive')
        # random longer single-engine sequences
        rr0 = random.Random(sd)
        long_cases = []
        for i in range(30000 if thorough else 2500):
            while True:
                sq = [rr0.choice(["setup1", "setup2", "setup3"])] + [rr0.choice(ALPHA) for _ in range(rr0.randint(5, 12))]
                if seq_valid(sq):
                    break
            long_cases.append({"kind": rr0.choice(engines.KINDS), "seq": sq})
        for c, r_ in zip(long_cases, pmap("vf.checks.c10:run_one_sequence", long_cases, cpu_budget=120)):
            if r_["status"] == "ok":
                for k, n_ in r_["value"]["counts"].items():
                    run.count(k, n_)
                run.count("sequences")
                run.count("random_long_sequences")
                run.case(chash([c["kind"], c["seq"]]), nontrivial=True, sample={"engine": c["kind"], "seq": c["seq"]})
                for b in r_["value"]["bad"]:
                    run.violation(b["what"][:70], b, mech={"what": b["what"], "hint": b.get("mech_hint"), "call": b["call"],
                                                           "single_engine": True})
            elif r_["status"] in ("crash", "hang"):
                run.violation("engine %s in a lifecycle sequence" % r_["status"],
                              {"engine": c["kind"], "seq": c["seq"], "signal": r_.get("signal"), "stderr": (r_.get("stderr") or "")[-300:]},
                              mech={"what": r_["status"], "single_engine": True})
            elif r_["status"] == "exception":
                run.violation("exception in a lifecycle sequence", {"case": c, "error": r_.get("error"), "tb": r_.get("tb")},
                              mech={"what": "exception", "single_engine": True})
            else:
                run.inconclusive_because("long sequence: %s" % r_["status"])
        retry = []
        for c, r_ in zip(cases, res):
            if r_["status"] == "ok":
                v = r_["value"]
                for k, n_ in v["counts"].items():
                    run.count(k, n_)
                run.case(chash([c["kind"], c["first"], c["prefix"]]), nontrivial=True,
                         sample={"engine": c["kind"], "sequences_starting_with": [c["first"]] + c["prefix"], "count": v["n"]})
                run.evaluations += v["n"] - 1
                for b in v["bad"]:
                    run.violation(b["what"][:70], b, mech={"what": b["what"], "hint": b.get("mech_hint"), "call": b["call"],
                                                           "single_engine": True})
            elif r_["status"] in ("crash", "hang"):
                seq_txt = ""
                try:
                    seq_txt = open(c["progress_file"]).read()
                except OSError:
                    pass
                seq = seq_txt.split()
                nfin = 0
                double_fin = False
                for x in seq:
                    if x == "finalize":
                        nfin += 1
                        double_fin = double_fin or nfin >= 2
                    elif x.startswith("setup"):
                        nfin = 0
                run.violation("engine %s in a lifecycle sequence" % r_["status"],
                              {"engine": c["kind"], "seq": seq, "signal": r_.get("signal"), "stderr": (r_.get("stderr") or "")[-300:]},
                              mech={"what": r_["status"], "repeated_finalize_without_setup": double_fin, "single_engine": True})
                run.count("sequences_ending_in_" + r_["status"])
            elif r_["status"] == "exception":
                run.violation("exception in a lifecycle sequence", {"case": {k: c[k] for k in c if k != "progress_file"},
                                                                    "error": r_.get("error"), "tb": r_.get("tb")},
                              mech={"what": "exception", "single_engine": True})
            else:
                run.inconclusive_because("batch %s: %s" % (c["prefix"], r_["status"]))
        _ph('A-long')
        # ---------------- (B) ----------------
        nB = 3000 if thorough else 300
        casesB = [{"seed": sd, "idx": i, "phase": "alone"} for i in range(nB)]
        resA = pmap("vf.checks.c10:run_two_engines", casesB, cpu_budget=120)
        casesT = [{"seed": sd, "idx": i, "phase": "together", "progress_file": os.path.join(pdir, "B%d" % i)} for i in range(nB)]
        # each interleaving in its own fresh process: a use-after-free caused by one (known finding) must not be able
        # to corrupt the heap under the next one
        resT = pmap("vf.checks.c10:run_two_engines", casesT, cpu_budget=15, fresh=True)
        for c, a, t in zip(casesB, resA, resT):
            if a["status"] != "ok":
                # the single-engine projection itself failed: a single-engine lifecycle defect
                run.violation("single-engine projection of a two-engine sequence: " + a["status"],
                              {"case": c, "detail": {k: a.get(k) for k in ("error", "signal", "stderr")}},
                              mech={"what": a["status"], "single_engine": True})
                continue
            seq = a["value"]["seq"]
            run.count("two_engine_interleavings")
            nsc = sum(1 for (w, x) in seq if x in NATIVE_STATE_CHANGING)
            run.case(chash(seq), nontrivial=nsc >= 2 and len({w for w, _ in seq}) == 2,
                     sample={"kinds": a["value"]["kinds"], "seq": ["%s.%s" % (w, x) for w, x in seq][:16]})
            if t["status"] == "ok":
                dv = first_divergence(seq, a["value"]["alone"], t["value"]["together"])
                if dv is None:
                    run.count("two_engine_interleavings_without_divergence")
                    continue
                pos, who, call = dv
                touched = other_engine_touched_native_state(seq, pos)
                run.violation("engine objects are not independent",
                              {"case": c, "kinds": a["value"]["kinds"], "seq": ["%s.%s" % (w, x) for w, x in seq],
                               "first_diverging_call": pos, "engine_object": who, "call": call},
                              mech={"what": "two-engine divergence", "two_engines": True,
                                    "other_engine_touched_native_state_since_last_setup": touched})
            elif t["status"] in ("crash", "hang"):
                try:
                    pos = int(open(casesT[c["idx"]]["progress_file"]).read())
                except Exception:
                    pos = len(seq) - 1
                who = seq[pos][0]
                touched = other_engine_touched_native_state(seq, pos)
                run.violation("engine objects are not independent (%s)" % t["status"],
                              {"case": c, "kinds": a["value"]["kinds"], "seq": ["%s.%s" % (w, x) for w, x in seq],
                               "failing_call": pos, "engine_object": who, "call": seq[pos][1], "signal": t.get("signal")},
                              mech={"what": "two-engine " + t["status"], "two_engines": True,
                                    "other_engine_touched_native_state_since_last_setup": touched})
            elif t["status"] == "exception":
                run.violation("engine objects are not independent (exception)",
                              {"case": c, "seq": ["%s.%s" % (w, x) for w, x in seq], "error": t.get("error")},
                              mech={"what": "two-engine exception", "two_engines": True,
                                    "other_engine_touched_native_state_since_last_setup": True})
            else:
                run.inconclusive_because("two-engine case %s: %s" % (c, t["status"]))
        _ph('B')
        # ---------------- (C) ----------------
        casesC = []
        nC = 12000 if thorough else 1500
        rr = random.Random(sd)
        for i in range(nC):
            kind_ = rr.choice(engines.KINDS)
            isp = rr.choice(["auto", "redist", "Poisson", "none"])
            fam = rr.choice(["below-one", "fractional", "fractional", "integer", "macroscopic", "frozen"])
            casesC.append({"seed": sd, "idx": i, "kind": kind_, "isp": isp, "family": fam,
                           "progress_file": os.path.join(pdir, "C%d" % i)})
        resC = pmap("vf.checks.c10:run_termination", casesC, cpu_budget=10.0, wall_budget=600)
        for c, r_ in zip(casesC, resC):
            run.count("termination_scripts")
            key = chash([c["kind"], c["isp"], c["family"], c["idx"]])
            run.case(key, nontrivial=True, sample={k: c[k] for k in ("kind", "isp", "family", "idx")})
            if r_["status"] == "ok":
                continue
            phase = ""
            try:
                phase = open(c["progress_file"]).read()
            except OSError:
                pass
            if r_["status"] in ("hang", "crash"):
                run.violation("set-up or loop call does not return" if r_["status"] == "hang" else "crash in set-up or loop",
                              {"case": {k: c[k] for k in ("seed", "idx", "kind", "isp", "family")}, "phase": phase,
                               "cpu_s": r_.get("cpu"), "signal": r_.get("signal")},
                              mech={"what": r_["status"], "phase": phase, "family": c["family"], "isp": c["isp"], "kind": c["kind"]})
            elif r_["status"] == "exception":
                run.violation("exception on a valid script", {"case": {k: c[k] for k in ("seed", "idx", "kind", "isp", "family")},
                                                              "error": r_.get("error")},
                              mech={"what": "exception", "family": c["family"], "isp": c["isp"]})
            else:
                run.inconclusive_because("termination case %s: %s" % (c["idx"], r_["status"]))
        _ph('C')
        # ---------------- (D) ----------------
        casesD = [{"seed": sd, "idx": i, "n": 60 if thorough else 25} for i in range(64 if thorough else 32)]
        for c, r_ in zip(casesD, pmap("vf.checks.c10:run_fixed_step_count", casesD, cpu_budget=120)):
            if r_["status"] != "ok":
                run.violation("fixed-step count: " + r_["status"], {"case": c, "detail": str(r_)[:300]}, mech={"what": r_["status"]})
                continue
            run.count("fixed_step_count_checks", r_["value"]["n"])
            for b in r_["value"]["bad"]:
                run.violation(b["what"][:60], b, mech={"what": "fixed-step-count"})
        from vf.sandbox import run_extra as _run_extra0
        _run_extra0(run, "vf.checks.c10:run_long_horizon", [{"seed": sd, "idx": i} for i in range(12 if thorough else 3)], cpu_budget=300)
        # ---------------- (F) one script object handed to several engines ----------------
        from vf.sandbox import run_extra as _run_extra
        _run_extra(run, "vf.checks.c10:run_script_reuse", [{"seed": sd, "idx": i} for i in range(1500 if thorough else 150)], cpu_budget=60)
        # ---------------- (G) repeated set-up / release cycles under an allocator monitor ----------------
        casesG = [{"seed": sd, "idx": i, "kind": engines.KINDS[i % 3], "space": ["grid", "graph"][(i // 3) % 2], "cycles": 12 if thorough else 6}
                  for i in range(24 if thorough else 6)]
        _run_extra(run, "vf.checks.c10:run_release_cycles", casesG, cpu_budget=300, fresh=True)
        # ---------------- (E) tau-leap at extreme propensities ----------------
        casesE = [{"name": "control lambda=1e17", "kf": 1.0, "amount": 3.2e9, "lambda": 1e17},
                  {"name": "lambda=2.5e21 (>= 2^63)", "kf": 1.0, "amount": 5e11, "lambda": 2.5e21},
                  {"name": "lambda=inf", "kf": 1e300, "amount": 1e10, "lambda": float("inf")}]
        for c, r_ in zip(casesE, pmap("vf.checks.c10:run_extreme_tauleap", casesE, cpu_budget=8, fresh=True)):
            run.count("extreme_tauleap_probes")
            run.case(chash(c), nontrivial=True, sample=c)
            if r_["status"] == "ok":
                continue
            if r_["status"] in ("hang", "crash"):
                run.violation("tau-leap loop call does not return (extreme propensity)", {"case": c, "status": r_["status"], "cpu_s": r_.get("cpu")},
                              mech={"what": r_["status"], "engine": "tauleap",
                                    "propensity_times_dt_at_least_2^63_by_construction": bool(c["lambda"] >= 2.0 ** 63)})
            else:
                run.inconclusive_because("extreme tau-leap probe: %s" % r_["status"])
    finally:
        import shutil
        shutil.rmtree(pdir, ignore_errors=True)
    run.exhaustive = False
    run.note("exhaustive_part", "(A) all %d-call sequences over the 14-call alphabet after setup(s1|s2|s3), per engine kind" % L)
    return run.finish()


if __name__ == "__main__":
    sys.exit(main())
