"""C05 - Arithmetic on quantities is arithmetic on their SI values, or an error.

Workload: random expression trees (depth <= 5) over UnitValue / UnitArray / int / float
leaves, every leaf in its own random unit system, executed with the real Python operators
of strengths.units.

Oracle (independent of units.py, unit table from vf.si): a reference evaluator that
carries, for every node, the exact rational SI value(s), the dimension vector and a
propagated forward error bound of a floating-point evaluation (leaf 2u, every operand of
a binary node is charged one unit conversion ((5*sum|dim|+6) u), + - add the operands'
bounds, * / the relative ones, ** multiplies the relative bound by |e|).  The observed
result, read back in SI through vf.si from whatever unit system it is stored in, must be
within SLACK (64) x that bound and must carry the exact dimension vector; a dimensionally
meaningless node must raise, at that node.

Rules that keep the oracle from demanding more than the statement are listed in RULE.
Monitors: value / dimension agreement per tree, errors raised at the meaningless node,
comparisons judged / skipped, modulo on the circle judged / skipped, and the icontract
postconditions of vf.contracts on the internal conversion / Units algebra calls.

quick: 20 000 trees (80 blocks of 250), thorough: 1 200 000 trees (480 blocks of 2500); every tree is
generated from gen.rng_for(VERIF_SEED, "C05", block).  `--replay <file>` re-judges the recorded tree
(or re-runs the recorded block for a contract violation).
"""
import decimal
import json
import math
import operator
import sys
from fractions import Fraction as Fr

from vf import si, contracts, gen
from vf.common import Run, seed, tier, use_repo, chash
from vf.sandbox import pmap

U1 = Fr(1, 2 ** 53)           # unit roundoff
SLACK = 64
COND = 2 ** 10                # a divisor / power base must be known to better than 1/COND
RANGE = 290.0                 # |log10| of every stored magnitude must stay below this
MOD_RATIO = 10 ** 6
ZERO3 = (0, 0, 0)

RULE = (
    "random expression trees, depth (operator nodes on the longest path) 1..5, leaves UnitValue / UnitArray "
    "(length 1..4) / int / float; each quantity leaf in its own unit system drawn from all 1100, magnitudes "
    "1e-8..1e8 of either sign, dimension exponents -3..3 (intermediate nodes up to +-6); operators + - * / in every "
    "operand pairing (VV VA AV AA VN NV AN NA, a number on the left exercises the reflected operators), unary "
    "minus, abs, ** on scalars (int and float integer exponents -3..3, dyadic fractions and thirds with integer "
    "resulting exponents, arbitrary float exponents on dimensionless values; fractional exponents only on abs()"
    "-ed bases), % only at the root (operands rescaled so that |a/b| mostly falls in 1e-1.5..1e5), the six "
    "comparisons only at the root on scalars / numbers. A tree is generated top-down for a target dimension so "
    "that it is meaningful; 18% of the trees get exactly one meaningless node (different dimensions under + - % "
    "< <= > >= == !=, arrays of different length under + - * / %, ** to a non-integer resulting exponent) at a "
    "random depth. Oracle rules: a number under + - % or a comparison is only paired with an operand all of "
    "whose quantity leaves share one unit system; % is compared on the circle of circumference |b| with "
    "tolerance Ea+(|q|+2)Eb, skipped when |a/b|>1e6 or the tolerance is vacuous; a comparison whose exact "
    "operands are closer than the propagated bound is skipped, except when both operands are leaves of one unit "
    "system / numbers (no rounding at all: judged exactly, including equality); == / != across dimensions must "
    "not answer 'equal' (False or an exception are both accepted); a float exponent within 1 ulp of p/q (q<=8) "
    "is read as p/q and the library may either return or raise for it when p/q is not a float; trees whose "
    "divisors / power bases are not known to 2^-10 relative (cancellation) or whose intermediate magnitudes "
    "leave 1e+-290 in any leaf's unit system are skipped (counted). A case is one tree (key = hash of the tree); "
    "it is NON-TRIVIAL when it contains a binary operator or comparison whose two operands are quantities held "
    "in unit systems between which the right operand's conversion factor is not 1, or when it is a tree with a "
    "meaningless node.")


# ---------------------------------------------------------------------------------------------
# small exact helpers

def rup(x):
    """round a non-negative Fraction up to <= 64 significant bits (keeps the bounds cheap)"""
    n, d = x.numerator, x.denominator
    if n == 0:
        return x
    k = n.bit_length() - d.bit_length() - 64
    if k >= 0:
        m = -((-n) // (d << k))
        return Fr(m << k)
    m = -((-(n << -k)) // d)
    return Fr(m, 1 << -k)


def log10f(x):
    n, d = abs(x.numerator), x.denominator
    return math.log10(n) - math.log10(d)


def fstr(x):
    """readable text of an exact rational (may be outside the float range)"""
    if x == 0:
        return "0"
    try:
        f = float(x)
        if f != 0 and math.isfinite(f):
            return "%.17g" % f
    except OverflowError:
        pass
    l = log10f(x)
    e = math.floor(l)
    return "%s%.12fe%d" % ("-" if x < 0 else "", 10 ** (l - e), e)


_LOGBASE = {k: {s: log10f(v) for s, v in si.BASE[k].items()} for k in si.KINDS}


def logscale(sys3, dim3):
    return sum(_LOGBASE[k][s] * e for k, s, e in zip(si.KINDS, sys3, dim3))


def conv_charge(dim3):
    return (5 * sum(abs(e) for e in dim3) + 6) * U1


_DCTX = decimal.Context(prec=60)


def frac_pow(v, e):
    """v ** e for a positive Fraction v and a rational e, to ~58 digits"""
    dv = _DCTX.divide(decimal.Decimal(v.numerator), decimal.Decimal(v.denominator))
    de = _DCTX.divide(decimal.Decimal(e.numerator), decimal.Decimal(e.denominator))
    return Fr(_DCTX.power(dv, de))


def read_exponent(e):
    """(rational meaning of the exponent, |float - rational|, inexact?)"""
    fe = Fr(e)
    if isinstance(e, int) or fe.denominator == 1:
        return fe, Fr(0), False
    near = fe.limit_denominator(8)
    if near != fe and abs(near - fe) <= abs(fe) * Fr(1, 2 ** 52):
        return near, abs(near - fe), True
    return fe, Fr(0), False


# ---------------------------------------------------------------------------------------------
# reference evaluator

class Meaningless(Exception):
    def __init__(self, path, why):
        Exception.__init__(self, why)
        self.path, self.why = path, why


class Skip(Exception):
    pass


class Malformed(Exception):
    pass


class RQ:
    __slots__ = ("vals", "errs", "dim", "arr", "syss", "lsys", "leaf")

    def __init__(self, vals, errs, dim, arr, syss, lsys, leaf=False):
        self.vals, self.errs, self.dim, self.arr, self.syss, self.lsys, self.leaf = vals, errs, dim, arr, syss, lsys, leaf

    def kind(self):
        return "A" if self.arr else "V"


class RN:
    __slots__ = ("val",)

    def __init__(self, val):
        self.val = val

    def kind(self):
        return "N"


class Ref:
    def __init__(self):
        self.nodes = []          # (vals, dim) of every quantity node, for the range guard
        self.systems = set()
        self.mixed = False
        self.pairings = {}
        self.lenient = set()     # paths of ** nodes with an inexact (p/q) exponent
        self.nops = 0
        self.depth = 0

    # -- helpers
    def _q(self, vals, errs, dim, arr, syss, lsys, leaf=False):
        q = RQ(vals, [rup(e) for e in errs], dim, arr, syss, lsys, leaf)
        self.nodes.append((vals, dim))
        return q

    def in_range(self):
        for vals, dim in self.nodes:
            ls = [logscale(s, dim) for s in self.systems]
            lo, hi = min(ls), max(ls)
            for v in vals:
                if v == 0:
                    continue
                l = log10f(v)
                if l - lo > RANGE or l - hi < -RANGE:
                    return False
        return True

    def unitize(self, a, b, path):
        """numbers take the other operand's units (which must be unambiguous)"""
        if isinstance(a, RN) and isinstance(b, RN):
            raise Malformed("number op number at " + path)
        if isinstance(a, RN):
            a, b = self._num_as(a, b), b
        elif isinstance(b, RN):
            b = self._num_as(b, a)
        return a, b

    def _num_as(self, n, q):
        if len(q.syss) != 1:
            raise Malformed("number paired with a mixed-system operand")
        s = next(iter(q.syss))
        v = n.val * si.scale(s, q.dim)
        return RQ([v], [Fr(0)], q.dim, False, q.syss, s, leaf=True)

    def _bcast(self, a, b, path):
        if a.arr and b.arr and len(a.vals) != len(b.vals):
            raise Meaningless(path, "length")
        n = max(len(a.vals), len(b.vals)) if (a.arr or b.arr) else 1
        av = a.vals if len(a.vals) == n else a.vals * n
        ae = a.errs if len(a.errs) == n else a.errs * n
        bv = b.vals if len(b.vals) == n else b.vals * n
        be = b.errs if len(b.errs) == n else b.errs * n
        return n, av, ae, bv, be

    def _note_pair(self, op, l, r):
        k = "%s:%s%s" % (op, l.kind(), r.kind())
        self.pairings[k] = self.pairings.get(k, 0) + 1
        if isinstance(l, RQ) and isinstance(r, RQ) and not self.mixed:
            try:
                if si.factor(r.lsys, l.lsys, r.dim) != 1:
                    self.mixed = True
            except Exception:
                pass

    # -- evaluation
    def eval(self, node, path="", depth=0):
        t = node["t"]
        if t == "V" or t == "A":
            s, d = tuple(node["sys"]), tuple(node["dim"])
            self.systems.add(s)
            sc = si.scale(s, d)
            raw = node["v"] if t == "A" else [node["v"]]
            vals = [Fr(x) * sc for x in raw]
            return self._q(vals, [2 * U1 * abs(v) for v in vals], d, t == "A", frozenset([s]), s, leaf=(t == "V"))
        if t == "N":
            return RN(Fr(*node["fr"]) if "fr" in node else Fr(node["v"]))
        self.nops += 1
        self.depth = max(self.depth, depth + 1)
        if t == "neg" or t == "abs":
            x = self.eval(node["x"], path + "x", depth + 1)
            if isinstance(x, RN):
                raise Malformed("unary on a number")
            vals = [-v for v in x.vals] if t == "neg" else [abs(v) for v in x.vals]
            return self._q(vals, x.errs, x.dim, x.arr, x.syss, x.lsys)
        if t == "pow":
            x = self.eval(node["x"], path + "x", depth + 1)
            if isinstance(x, RN) or x.arr:
                raise Malformed("** on a non-scalar")
            return self._pow(x, node["e"], path)
        if t == "bin":
            l = self.eval(node["l"], path + "l", depth + 1)
            r = self.eval(node["r"], path + "r", depth + 1)
            self._note_pair(node["op"], l, r)
            return self._bin(node["op"], l, r, path)
        if t == "cmp":
            l = self.eval(node["l"], path + "l", depth + 1)
            r = self.eval(node["r"], path + "r", depth + 1)
            self._note_pair(node["op"], l, r)
            return self._cmp(node["op"], l, r, path)
        raise Malformed("node type " + str(t))

    def _pow(self, x, e, path):
        ee, delta, inexact = read_exponent(e)
        rdim = []
        for dk in x.dim:
            p = dk * ee
            if p.denominator != 1:
                raise Meaningless(path, "exponent")
            rdim.append(int(p))
        if inexact:
            self.lenient.add(path)
        v, err = x.vals[0], x.errs[0]
        if ee == 0:
            return self._q([Fr(1)], [2 * U1], tuple(rdim), False, x.syss, x.lsys)
        if v == 0 or err * COND >= abs(v):
            raise Skip("ill-conditioned power base")
        rho = err / abs(v)
        if ee.denominator == 1:
            out = v ** int(ee)
            rel = abs(ee) * rho * Fr(51, 50) + 2 * U1
        else:
            if v < 0:
                raise Malformed("fractional power of a negative value")
            out = frac_pow(v, ee)
            rel = abs(ee) * rho * Fr(51, 50) + 745 * delta + 2 * U1 + Fr(1, 10 ** 50)
        return self._q([out], [abs(out) * rel], tuple(rdim), False, x.syss, x.lsys)

    def _bin(self, op, l, r, path):
        if isinstance(l, RN) and isinstance(r, RN):
            raise Malformed("number op number")
        if op in ("+", "-", "%"):
            l, r = self.unitize(l, r, path)
            if l.dim != r.dim:
                raise Meaningless(path, "dimension")
            n, av, ae, bv, be = self._bcast(l, r, path)
            arr = l.arr or r.arr
            syss = l.syss | r.syss
            c = conv_charge(l.dim)
            if op == "%":
                return ("mod", l.dim, arr, [self._mod1(av[i], ae[i], bv[i], be[i], c) for i in range(n)])
            sg = 1 if op == "+" else -1
            vals = [av[i] + sg * bv[i] for i in range(n)]
            errs = [ae[i] + be[i] + (c + U1) * (abs(av[i]) + abs(bv[i])) for i in range(n)]
            return self._q(vals, errs, l.dim, arr, syss, l.lsys)
        if op in ("*", "/"):
            if isinstance(l, RN):
                l = RQ([l.val], [Fr(0)], ZERO3, False, frozenset(), r.lsys)
            if isinstance(r, RN):
                r = RQ([r.val], [Fr(0)], ZERO3, False, frozenset(), l.lsys)
            n, av, ae, bv, be = self._bcast(l, r, path)
            arr = l.arr or r.arr
            syss = l.syss | r.syss
            c = conv_charge(l.dim) + conv_charge(r.dim) + 3 * U1
            if op == "/":
                iv, ie = [], []
                for i in range(n):
                    b, eb = bv[i], be[i]
                    if b == 0 or eb * COND >= abs(b):
                        raise Skip("ill-conditioned divisor")
                    iv.append(1 / b)
                    ie.append(eb / (abs(b) * (abs(b) - eb)) + U1 / (abs(b) - eb))
                bv, be = iv, ie
                rdim = tuple(x - y for x, y in zip(l.dim, r.dim))
            else:
                rdim = tuple(x + y for x, y in zip(l.dim, r.dim))
            vals = [av[i] * bv[i] for i in range(n)]
            errs = [ae[i] * abs(bv[i]) + be[i] * abs(av[i]) + ae[i] * be[i]
                    + c * (abs(av[i]) + ae[i]) * (abs(bv[i]) + be[i]) for i in range(n)]
            return self._q(vals, errs, rdim, arr, syss, l.lsys)
        raise Malformed("operator " + str(op))

    def _mod1(self, a, ea, b, eb, c):
        ea = ea + c * abs(a)
        eb = eb + c * abs(b)
        if b == 0 or eb * COND >= abs(b):
            raise Skip("ill-conditioned modulus")      # may be zero in floating point: x % 0.0 raises
        if abs(a) > MOD_RATIO * abs(b):
            return ("skip", "ratio")
        q = math.floor(a / b)
        r = a - q * b
        tol = rup(ea + (abs(q) + 2) * eb + 4 * U1 * abs(b))
        if SLACK * tol * 4 >= abs(b):
            return ("skip", "vacuous")
        return ("judge", r, tol, abs(b))

    def _cmp(self, op, l, r, path):
        if isinstance(l, RN) and isinstance(r, RN):
            raise Malformed("number cmp number")
        if (isinstance(l, RQ) and l.arr) or (isinstance(r, RQ) and r.arr):
            raise Malformed("comparison of arrays")
        l, r = self.unitize(l, r, path)
        if l.dim != r.dim:
            raise Meaningless(path, "dimension")
        a, b = l.vals[0], r.vals[0]
        exactpair = l.leaf and r.leaf and l.lsys == r.lsys
        bound = Fr(0) if exactpair else SLACK * (l.errs[0] + r.errs[0] + conv_charge(l.dim) * (abs(a) + abs(b)))
        gap = abs(a - b)
        if not exactpair and gap <= bound:
            return ("cmp", None, exactpair)
        want = {"==": a == b, "!=": a != b, "<": a < b, "<=": a <= b, ">": a > b, ">=": a >= b}[op]
        return ("cmp", want, exactpair)


# ---------------------------------------------------------------------------------------------
# generator

DIMW = [0] * 8 + [1, -1] * 3 + [2, -2] * 2 + [3, -3]
PAIR_V = [("V", "V")] * 6 + [("V", "N")] * 2 + [("N", "V")] * 2
PAIR_A = [("A", "A")] * 6 + [("A", "V")] * 4 + [("V", "A")] * 4 + [("A", "N")] * 3 + [("N", "A")] * 3
FRACS = [(1, 2), (3, 2), (-1, 2), (1, 4), (5, 2), (-3, 2), (1, 3), (2, 3), (-1, 3), (4, 3)]
CMPS = ["==", "!=", "<", "<=", ">", ">="]


def rand_dim(r):
    return tuple(r.choice(DIMW) for _ in range(3))


def other_dim(r, dim):
    d = list(dim)
    while tuple(d) == tuple(dim):
        k = r.randrange(3)
        d[k] = max(-3, min(3, d[k] + r.choice([-2, -1, 1, 2])))
    return tuple(d)


def rand_mag(r):
    if r.random() < 0.15:
        return float(r.choice([1, 2, 3, 5, 10, 100, 1000, 0.5, 0.25, 0.1]))
    return r.uniform(1, 10) * 10 ** r.uniform(-8, 7)


def rand_num(r):
    if r.random() < 0.5:
        n = r.choice([1, 2, 3, 4, 5, 7, 10, 12, 60, 100, 1000, 10 ** 6])
    else:
        n = r.uniform(1, 10) * 10 ** r.uniform(-4, 3)
    return n if r.random() < 0.6 else -n


def sfloat(x):
    """float(x) or None when it is zero / not representable"""
    try:
        f = float(x)
    except (OverflowError, ValueError, ZeroDivisionError):
        return None
    return f if (f != 0 and math.isfinite(f) and 1e-250 < abs(f) < 1e250) else None


def nice(x, r):
    """a float close to x with a short mantissa (or an int, sometimes)"""
    if x is None or x == 0 or not math.isfinite(x):
        return 1.0
    y = float("%.3g" % x)
    if y == 0 or not math.isfinite(y):
        y = x
    if 1 <= abs(y) < 1e9 and r.random() < 0.3 and int(round(y)) != 0:
        return int(round(y))
    return y


class G:
    def __init__(self, r, L, narrow=False):
        self.r, self.L, self.narrow = r, L, narrow

    def sys(self, sysf):
        return sysf if sysf is not None else self.r.choice(si.ALL_SYSTEMS)

    def leaf(self, dim, kind, sysf):
        r = self.r
        if max(abs(x) for x in dim) > 3:
            d1, d2 = self.split_mul(dim)
            return {"t": "bin", "op": "*", "l": self.leaf(d1, kind, sysf), "r": self.leaf(d2, "V", sysf)}
        s = self.sys(sysf)
        if kind == "V":
            v = rand_mag(r) * r.choice([1, -1])
            if v == int(v) and abs(v) < 1e6 and r.random() < 0.5:
                v = int(v)
            return {"t": "V", "v": v, "sys": list(s), "dim": list(dim)}
        if self.narrow or r.random() < 0.5:
            m = 10 ** r.uniform(-8, 7)
            vals = [m * r.uniform(1, 10) * r.choice([1, -1]) for _ in range(self.L)]
        else:
            vals = [rand_mag(r) * r.choice([1, -1]) for _ in range(self.L)]
        return {"t": "A", "v": vals, "sys": list(s), "dim": list(dim)}

    def numleaf(self):
        return {"t": "N", "v": rand_num(self.r)}

    def split_mul(self, dim):
        r = self.r
        d1 = tuple(r.randint(max(-3, t - 3), min(3, t + 3)) if r.random() < 0.6 else
                   max(max(-3, t - 3), min(min(3, t + 3), r.choice(DIMW))) for t in dim)
        return d1, tuple(t - a for t, a in zip(dim, d1))

    def split_div(self, dim):
        r = self.r
        d2 = tuple(max(max(-3, -3 - t), min(min(3, 3 - t), r.choice(DIMW))) for t in dim)
        return tuple(t + b for t, b in zip(dim, d2)), d2

    def pow_options(self, dim, integer_only=False):
        opts = []
        for e in (-3, -2, -1, 1, 2, 3):
            if all(t % e == 0 for t in dim):
                opts.append((e, tuple(t // e for t in dim)))
        if dim == ZERO3:
            opts.append((0, rand_dim(self.r)))
            opts.append((round(self.r.uniform(-3, 3), 2) or 0.5, ZERO3))
        for p, q in FRACS:
            if all((t * q) % p == 0 for t in dim):
                c = tuple((t * q) // p for t in dim)
                if max(abs(x) for x in c) <= 3:
                    opts.append((p / q, c))
        if integer_only:
            opts = [o for o in opts if Fr(o[0]).denominator == 1]
        return opts

    def pairing(self, kind, err):
        r = self.r
        if kind == "V":
            if err == "dim":
                return ("V", "V") if r.random() < 0.7 else r.choice(PAIR_V)
            return r.choice(PAIR_V)
        pr = r.choice(PAIR_A)
        if err == "pow" and "V" not in pr:
            pr = r.choice([("A", "V"), ("V", "A")])
        return pr

    def positive(self, depth, dim, sysf, err):
        """a scalar subtree with a positive value (base of a fractional power)"""
        if depth <= 0 and err is None:
            n = self.leaf(dim, "V", sysf)
            if n["t"] == "V":
                n["v"] = abs(n["v"])
                return n
            return {"t": "abs", "x": n}
        x = self.q(depth - 1, dim, "V", sysf, err)
        if x["t"] == "V":
            x["v"] = abs(x["v"])
            return x
        return {"t": "abs", "x": x}

    def q(self, depth, dim, kind, sysf=None, err=None, noleaf=False):
        """a quantity subtree of the given dimension / kind, at most `depth` operators deep;
        err: None | 'dim' | 'len' | 'pow' - exactly one meaningless node of that sort somewhere below"""
        r = self.r
        if err is None and not noleaf and (depth <= 0 or r.random() < 0.22):
            return self.leaf(dim, kind, sysf)
        if err is not None and (depth <= 1 or r.random() < 0.45):
            return self.bad_node(depth, dim, kind, sysf, err)
        ops = ["+"] * 3 + ["-"] * 3 + ["*"] * 3 + ["/"] * 3 + ["neg", "abs"]
        if kind == "V" and err != "len":
            ops += ["pow"] * 2
        op = r.choice(ops)
        if op in ("neg", "abs"):
            return {"t": op, "x": self.q(depth - 1, dim, kind, sysf, err)}
        if op == "pow":
            e, cdim = r.choice(self.pow_options(dim, integer_only=err is not None))
            if isinstance(e, int) and r.random() < 0.4:
                e = float(e)
            if Fr(e).denominator != 1:
                x = self.positive(depth - 1, cdim, sysf, err)
            else:
                x = self.q(depth - 1, cdim, "V", sysf, err)
            return {"t": "pow", "x": x, "e": e}
        lk, rk = self.pairing(kind, err)
        if op in ("+", "-"):
            dl = dr = dim
            if "N" in (lk, rk):
                sysf = self.sys(sysf)
        elif op == "*":
            dl, dr = (dim, dim) if "N" in (lk, rk) else self.split_mul(dim)
        else:
            if rk == "N":
                dl, dr = dim, None
            elif lk == "N":
                dl, dr = None, tuple(-t for t in dim)
            else:
                dl, dr = self.split_div(dim)
        # which child carries the pending error
        el = er = None
        if err is not None:
            cands = [i for i, k in enumerate((lk, rk)) if k != "N" and not (err == "len" and k != "A")
                     and not (err == "pow" and k != "V")]
            if not cands:
                cands = [i for i, k in enumerate((lk, rk)) if k != "N"]
            if r.choice(cands) == 0:
                el = err
            else:
                er = err
        # near-cancellation stress: the same SI value written in another unit system
        if err is None and op in ("+", "-") and lk == rk == "V" and sysf is None and r.random() < 0.04 \
                and max(abs(x) for x in dim) <= 3:
            a = self.leaf(dim, "V", None)
            s2 = r.choice(si.ALL_SYSTEMS)
            v2 = float(Fr(a["v"]) * si.factor(tuple(a["sys"]), s2, dim))
            if v2 != 0 and math.isfinite(v2):
                return {"t": "bin", "op": op, "l": a, "r": {"t": "V", "v": v2, "sys": list(s2), "dim": list(dim)}}
        l = self.numleaf() if lk == "N" else self.q(depth - 1, dl, lk, sysf, el)
        rr = self.numleaf() if rk == "N" else self.q(depth - 1, dr, rk, sysf, er)
        return {"t": "bin", "op": op, "l": l, "r": rr}

    def bad_node(self, depth, dim, kind, sysf, err):
        r = self.r
        if err == "dim":
            op = r.choice(["+", "-"])
            lk, rk = r.choice([("V", "V")] if kind == "V" else [("A", "A"), ("A", "V"), ("V", "A")])
            dl, dr = (dim, other_dim(r, dim)) if r.random() < 0.5 else (other_dim(r, dim), dim)
            return {"t": "bin", "op": op, "l": self.q(depth - 1, dl, lk, sysf), "r": self.q(depth - 1, dr, rk, sysf)}
        if err == "len":
            op = r.choice(["+", "-", "*", "/"])
            L2 = r.choice([x for x in (1, 2, 3, 4, 5) if x != self.L])
            g2 = G(r, L2, self.narrow)
            if op in ("+", "-"):
                dl = dr = dim
            elif op == "*":
                dl, dr = self.split_mul(dim)
            else:
                dl, dr = self.split_div(dim)
            a, b = self.q(depth - 1, dl, "A", sysf), g2.q(depth - 1, dr, "A", sysf)
            if r.random() < 0.5:
                a, b = g2.q(depth - 1, dl, "A", sysf), self.q(depth - 1, dr, "A", sysf)
            return {"t": "bin", "op": op, "l": a, "r": b}
        if err == "pow":
            while True:
                c = rand_dim(r)
                # (also exponents that are merely NEAR a small rational: 0.3333 is not a third)
                e = r.choice([0.5, 1.5, 2.5, -0.5, 1 / 3, 2 / 3, 0.25, 0.1, 0.75, -1.5, 1.25,
                              0.3333, 0.33333333, 0.6667, 1.0001, 0.9999999, 0.49999, 2.000001, -1.00001])
                ee = read_exponent(e)[0]
                if any((k * ee).denominator != 1 for k in c):
                    break
            return {"t": "pow", "x": self.positive(depth - 1, c, sysf, None), "e": e}
        raise Malformed(err)


def ref_first(node):
    """first element of the exact value of a (valid) subtree, or None"""
    try:
        q = Ref().eval(node)
        return q.vals[0] if isinstance(q, RQ) else None
    except (Meaningless, Skip, Malformed):
        return None


def scaled(g, node, factor):
    """node * c or c * node, c a short float near `factor`"""
    c = nice(factor, g.r)
    if isinstance(c, int) and g.r.random() < 0.5:
        c = float(c)
    if g.r.random() < 0.5:
        return {"t": "bin", "op": "*", "l": node, "r": {"t": "N", "v": c}}
    return {"t": "bin", "op": "*", "l": {"t": "N", "v": c}, "r": node}


def gen_tree(r):
    """-> (tree, class)"""
    x = r.random()
    D = r.choice([1, 1, 1, 2, 2, 2, 3, 3, 4, 5])
    L = r.randint(1, 4)
    kind = "A" if r.random() < 0.4 else "V"
    dim = rand_dim(r)
    if x < 0.50:
        return G(r, L).q(D, dim, kind, noleaf=True), "arith"
    if x < 0.62:
        return gen_mod(r, D, L, kind, dim, None), "mod"
    if x < 0.82:
        return gen_cmp(r, D, dim, None), "cmp"
    # trees with one meaningless node
    y = r.random()
    if y < 0.30:
        return G(r, L).q(D, dim, kind, err="dim", noleaf=True), "err:dim"
    if y < 0.50:
        return G(r, L).q(D, dim, "A", err="len", noleaf=True), "err:len"
    if y < 0.70:
        return G(r, L).q(D, dim, kind, err="pow", noleaf=True), "err:pow"
    if y < 0.80:
        return gen_mod(r, D, L, kind, dim, "dim"), "err:mod-dim"
    if y < 0.87:
        return gen_mod(r, D, L, "A", dim, "len"), "err:mod-len"
    return gen_cmp(r, D, dim, "dim"), "err:cmp-dim"


def gen_mod(r, D, L, kind, dim, err):
    g = G(r, L, narrow=True)
    da = max(0, D - 1)
    db = max(0, D - 2)
    if err == "dim":
        lk, rk = r.choice([("V", "V")] if kind == "V" else [("A", "A"), ("A", "V"), ("V", "A")])
        a, b = g.q(da, dim, lk), g.q(da, other_dim(r, dim), rk)
        if r.random() < 0.5:
            a, b = b, a
        return {"t": "bin", "op": "%", "l": a, "r": b}
    if err == "len":
        g2 = G(r, r.choice([x for x in (1, 2, 3, 4, 5) if x != L]), narrow=True)
        a, b = g.q(da, dim, "A"), g2.q(da, dim, "A")
        if r.random() < 0.5:
            a, b = b, a
        return {"t": "bin", "op": "%", "l": a, "r": b}
    lk, rk = g.pairing(kind, None)
    ratio = 10 ** r.uniform(-1.5, 5)
    if lk != "N" and rk != "N":
        a, b = g.q(da, dim, lk), g.q(db, dim, rk)
        va, vb = ref_first(a), ref_first(b)
        if va and vb and r.random() < 0.9:
            f = sfloat(abs(va / vb))
            if f:
                b = scaled(g, b, f / ratio)
        return {"t": "bin", "op": "%", "l": a, "r": b}
    s = g.sys(None)
    if rk == "N":
        a = g.q(da, dim, lk, s)
        va = ref_first(a)
        f = sfloat(abs(va) / si.scale(s, dim)) if va else None
        n = nice(f / ratio, r) if f else rand_num(r)
        n = n if r.random() < 0.6 else -n
        return {"t": "bin", "op": "%", "l": a, "r": {"t": "N", "v": n}}
    b = g.q(da, dim, rk, s)
    vb = ref_first(b)
    f = sfloat(abs(vb) / si.scale(s, dim)) if vb else None
    n = nice(f * ratio, r) if f else rand_num(r)
    n = n if r.random() < 0.6 else -n
    return {"t": "bin", "op": "%", "l": {"t": "N", "v": n}, "r": b}


def gen_cmp(r, D, dim, err):
    g = G(r, 1)
    op = r.choice(CMPS)
    da = max(0, D - 1)
    if err == "dim":
        a, b = g.q(da, dim, "V"), g.q(da, other_dim(r, dim), "V")
        if r.random() < 0.5:
            a, b = b, a
        return {"t": "cmp", "op": op, "l": a, "r": b}
    y = r.random()
    if y < 0.18:
        # both operands without any rounding: leaves of one system / numbers
        s = g.sys(None)
        a = g.leaf(dim, "V", s)
        while a["t"] != "V":
            a = g.leaf(rand_dim(r), "V", s)
        if r.random() < 0.3:
            # Python's other exact number types: an int that no double equals (beyond 2^53, or beyond the range of doubles
            # altogether), a Fraction a hair off the double.  The comparison of a quantity with a plain number is the
            # comparison of two numbers in the quantity's own unit - no conversion, hence no rounding, is involved
            a = dict(a)
            which = r.choice(["bigint", "bigint", "fraction", "fraction", "beyond"])
            sg = r.choice([1, 1, -1])
            if which == "bigint":
                a["v"] = sg * float(r.choice([2.0 ** 53, 2.0 ** 63, 2.0 ** 64, 2.0 ** 70, 6.02214076e23, 2.0 ** 53 * 3, 1e22]))
                n = {"t": "N", "v": int(a["v"]) + r.choice([-1, 0, 1, 1]), "py": True}
            elif which == "fraction":
                a["v"] = sg * r.choice([0.1, 0.3, 1.0 / 3.0, 2.5, 1e-5, 123.456, float(a["v"]) if a["v"] else 0.7])
                fr = Fr(a["v"]) + Fr(r.choice([-1, 0, 1, 1]), 10 ** r.randint(19, 40))
                if r.random() < 0.3:
                    fr = Fr(a["v"]).limit_denominator(1000)
                n = {"t": "N", "v": float(fr), "fr": [fr.numerator, fr.denominator]}
            else:
                n = {"t": "N", "v": r.choice([1, -1]) * 10 ** r.choice([309, 400, 1000]), "py": True}
            return {"t": "cmp", "op": op, "l": a, "r": n} if r.random() < 0.6 else {"t": "cmp", "op": op, "l": n, "r": a}
        if r.random() < 0.12:
            # magnitudes at the ends of the double range, both operands written in the same units: nothing has to be converted,
            # so nothing can overflow or vanish - 1.8e308 km and 9e307 km are two different lengths
            a = dict(a)
            big = r.random() < 0.5
            a["v"] = r.choice([1, -1]) * (r.uniform(1, 1.7) * 10.0 ** r.randint(300, 307) if big else r.choice([5e-324, 1e-323, 3e-320, r.uniform(1, 9) * 10.0 ** r.randint(-322, -305)]))
            v2e = a["v"] * r.choice([1.0, 0.5, 2.0 if not big else 0.25, 1.0 + 2.0 ** -30])
            if v2e == 0.0 or v2e in (float("inf"), float("-inf")):
                v2e = a["v"]
            b = {"t": "V", "v": v2e, "sys": a["sys"], "dim": a["dim"]} if r.random() < 0.7 else {"t": "N", "v": v2e}
            return {"t": "cmp", "op": op, "l": a, "r": b} if r.random() < 0.5 else {"t": "cmp", "op": op, "l": b, "r": a}
        z = r.random()
        v2 = a["v"] if z < 0.6 else (a["v"] * (1 + 2.0 ** -r.randint(20, 50)) if z < 0.8 else -a["v"])
        w = r.random()
        if w < 0.4:
            # (a quarter of these: the same number written in another unit system - not the same quantity)
            b = {"t": "V", "v": v2, "sys": a["sys"] if r.random() < 0.75 else list(r.choice(si.ALL_SYSTEMS)),
                 "dim": a["dim"]}
            return {"t": "cmp", "op": op, "l": a, "r": b} if r.random() < 0.5 else {"t": "cmp", "op": op, "l": b, "r": a}
        n = {"t": "N", "v": v2}
        return {"t": "cmp", "op": op, "l": a, "r": n} if w < 0.7 else {"t": "cmp", "op": op, "l": n, "r": a}
    form = r.choice(["QQ"] * 6 + ["QN"] * 2 + ["NQ"] * 2)
    close = r.random() < 0.65
    ratio = (10 ** r.uniform(-1, 1)) if r.random() < 0.9 else (1 + r.choice([-1, 1]) * 10 ** r.uniform(-17, -10))
    if form == "QQ":
        a = g.q(da, dim, "V")
        b = g.q(max(0, da - 1) if close else da, dim, "V")
        va, vb = ref_first(a), ref_first(b)
        f = sfloat(va / vb) if (close and va and vb) else None
        if f:
            sg = 1 if r.random() < 0.8 else -1
            b = scaled(g, b, sg * f / ratio)
        return {"t": "cmp", "op": op, "l": a, "r": b}
    s = g.sys(None)
    a = g.q(da, dim, "V", s)
    va = ref_first(a)
    f = sfloat(va / si.scale(s, dim)) if (close and va) else None
    n = nice(f / ratio, r) if f else rand_num(r)
    nn = {"t": "N", "v": n}
    return {"t": "cmp", "op": op, "l": a, "r": nn} if form == "QN" else {"t": "cmp", "op": op, "l": nn, "r": a}


# ---------------------------------------------------------------------------------------------
# the implementation side

class ImplRaised(Exception):
    def __init__(self, path, exc):
        Exception.__init__(self, "%s: %s" % (type(exc).__name__, exc))
        self.path, self.exc = path, exc


BIN = {"+": operator.add, "-": operator.sub, "*": operator.mul, "/": operator.truediv, "%": operator.mod}
CMP = {"==": operator.eq, "!=": operator.ne, "<": operator.lt, "<=": operator.le, ">": operator.gt, ">=": operator.ge}


class OperandMutated(Exception):
    def __init__(self, path, which, before, after):
        Exception.__init__(self, "operand %s of the operation at '%s' was modified by it" % (which, path))
        self.path, self.which, self.before, self.after = path, which, before, after


def _snap(U, x):
    """observable content of an operand (to check that operators do not modify their operands)"""
    if isinstance(x, U.UnitValue):
        return ("V", float(x.value).hex(), si.sys_of(x.units.sys), si.dim_of(x.units.dim))
    if isinstance(x, U.UnitArray):
        return ("A", x.value.tobytes().hex(), si.sys_of(x.units.sys), si.dim_of(x.units.dim))
    if isinstance(x, Fr) or (isinstance(x, int) and abs(x) > 2 ** 53):
        return ("N", repr(x))
    return ("N", repr(float(x)) if not isinstance(x, bool) else repr(x))


def impl_eval(U, node, path=""):
    t = node["t"]
    if t == "N":
        # plain numbers come as Python numbers or as the numpy scalars the documentation treats as numbers
        # (deterministic choice so that a replay sees the same types)
        v = node["v"]
        if "fr" in node:
            return Fr(*node["fr"])
        if node.get("py"):
            return v
        import numpy as _np
        pick = (hash(repr(v)) + len(path)) % 5
        if pick == 0:
            return _np.float64(v)
        if pick == 1 and isinstance(v, int) and not isinstance(v, bool):
            return _np.int64(v)
        return v
    try:
        if t == "V" or t == "A":
            s, d = node["sys"], node["dim"]
            u = U.Units(U.UnitsSystem(space=s[0], time=s[1], quantity=s[2]),
                        U.UnitsDimensions(space=d[0], time=d[1], quantity=d[2]))
            return U.UnitValue(node["v"], u) if t == "V" else U.UnitArray(list(node["v"]), u)
    except Exception as e:
        raise ImplRaised(path, e)
    if t in ("neg", "abs", "pow"):
        x = impl_eval(U, node["x"], path + "x")
        sx = _snap(U, x)
        try:
            if t == "neg":
                res = -x
            elif t == "abs":
                res = abs(x)
            else:
                res = x ** node["e"]
        except Exception as e:
            if _snap(U, x) != sx:
                raise OperandMutated(path, "x (the operation raised)", sx, _snap(U, x))
            raise ImplRaised(path, e)
        if _snap(U, x) != sx:
            raise OperandMutated(path, "x", sx, _snap(U, x))
        return res
    l = impl_eval(U, node["l"], path + "l")
    r = impl_eval(U, node["r"], path + "r")
    sl, sr = _snap(U, l), _snap(U, r)
    try:
        res = (BIN if t == "bin" else CMP)[node["op"]](l, r)
    except Exception as e:
        # an operation that is refused must leave its operands as they were, too
        if _snap(U, l) != sl:
            raise OperandMutated(path, "left (the operation raised)", sl, _snap(U, l))
        if _snap(U, r) != sr:
            raise OperandMutated(path, "right (the operation raised)", sr, _snap(U, r))
        raise ImplRaised(path, e)
    # arithmetic on quantities is arithmetic on values: an operator must not change its operands (a user who
    # re-uses b after a + b must still have b)
    if _snap(U, l) != sl:
        raise OperandMutated(path, "left", sl, _snap(U, l))
    if _snap(U, r) != sr:
        raise OperandMutated(path, "right", sr, _snap(U, r))
    return res


def show(n):
    t = n["t"]
    if t in ("V", "A"):
        return "%s(%r, '%s'[%s])" % ("UnitValue" if t == "V" else "UnitArray", n["v"],
                                     si.unit_string(n["sys"], n["dim"]), ",".join(n["sys"]))
    if t == "N":
        return ("Fraction(%d, %d)" % tuple(n["fr"])) if "fr" in n else repr(n["v"])
    if t == "neg":
        return "-(%s)" % show(n["x"])
    if t == "abs":
        return "abs(%s)" % show(n["x"])
    if t == "pow":
        return "(%s)**%r" % (show(n["x"]), n["e"])
    return "(%s %s %s)" % (show(n["l"]), n["op"], show(n["r"]))


def node_at(tree, path):
    for c in path:
        tree = tree[{"l": "l", "r": "r", "x": "x"}[c]]
    return tree


def op_of(node):
    return node.get("op") or node["t"]


def judge(U, tree):
    """-> dict(outcome=..., counts={...}, bad=[...], info={...})"""
    import numpy as np
    counts, bad, info = {}, [], {}

    def c(k, n=1):
        counts[k] = counts.get(k, 0) + n

    ref = Ref()
    want = err = None
    try:
        want = ref.eval(tree)
    except Meaningless as e:
        err = e
    except Skip as e:
        c("skipped_ill_conditioned")
        return {"outcome": "skip", "counts": counts, "bad": bad, "ref": ref, "info": {"skip": str(e)}}
    same_units_cmp = isinstance(want, tuple) and want[0] == "cmp" and want[2]      # two operands written in the same units: nothing is converted
    if not ref.in_range() and not same_units_cmp:
        c("skipped_float_range")
        return {"outcome": "skip", "counts": counts, "bad": bad, "ref": ref, "info": {"skip": "float range"}}
    got = raised = None
    try:
        got = impl_eval(U, tree)
        c("operand_immutability_checks")
    except OperandMutated as e:
        bad.append({"what": "an operator modified one of its operands", "path": e.path, "operand": e.which,
                    "op": op_of(node_at(tree, e.path)), "before": list(e.before)[:2], "after": list(e.after)[:2], "tree": show(tree)})
        return {"outcome": "bad", "counts": counts, "bad": bad, "ref": ref, "info": {}}
    except ImplRaised as e:
        raised = e

    def witness(what, **kw):
        w = {"what": what, "expr": show(tree), "tree": tree}
        w.update(kw)
        bad.append(w)

    # ---- a meaningless node is expected
    if err is not None:
        info["expected"] = "raise at node '%s' (%s)" % (err.path, err.why)
        enode = node_at(tree, err.path)
        eqlike = enode["t"] == "cmp" and enode["op"] in ("==", "!=")
        if raised is not None:
            info["observed"] = "raised %s at node '%s'" % (str(raised)[:80], raised.path)
            if raised.path == err.path:
                c("errors_raised")
                c("errors_raised:" + err.why)
                return {"outcome": "error-ok", "counts": counts, "bad": bad, "ref": ref, "info": info}
            if raised.path in ref.lenient:
                c("pow_inexact_exponent_raised")
                return {"outcome": "skip", "counts": counts, "bad": bad, "ref": ref, "info": info}
            witness("raised at another node than the meaningless one", meaningless_at=err.path, why=err.why,
                    raised_at=raised.path, error=str(raised)[:200], op=op_of(enode))
            return {"outcome": "bad", "counts": counts, "bad": bad, "ref": ref, "info": info}
        if eqlike:
            ok = isinstance(got, (bool, np.bool_)) and bool(got) == (enode["op"] == "!=")
            info["observed"] = repr(got)
            if ok:
                c("cross_dimension_equality_not_equal")
                return {"outcome": "error-ok", "counts": counts, "bad": bad, "ref": ref, "info": info}
            witness("== / != across dimensions answered 'equal'", got=repr(got), op=enode["op"])
            return {"outcome": "bad", "counts": counts, "bad": bad, "ref": ref, "info": info}
        witness("meaningless operation returned instead of raising", meaningless_at=err.path, why=err.why,
                op=op_of(enode), got=str(got)[:200])
        return {"outcome": "bad", "counts": counts, "bad": bad, "ref": ref, "info": info}

    # ---- a value is expected
    if raised is not None:
        if raised.path in ref.lenient:
            c("pow_inexact_exponent_raised")
            return {"outcome": "skip", "counts": counts, "bad": bad, "ref": ref, "info": info}
        witness("exception on a meaningful operation", raised_at=raised.path, error=str(raised)[:300],
                op=op_of(node_at(tree, raised.path)))
        return {"outcome": "bad", "counts": counts, "bad": bad, "ref": ref, "info": info}

    if isinstance(want, tuple) and want[0] == "cmp":
        _, truth, exactpair = want
        info["expected"] = "skipped (operands closer than the bound)" if truth is None else repr(truth)
        info["observed"] = repr(got)
        if truth is None:
            c("comparisons_skipped")
            if not isinstance(got, (bool, np.bool_)):
                witness("comparison did not return a bool", got=repr(got)[:200], op=tree["op"])
                return {"outcome": "bad", "counts": counts, "bad": bad, "ref": ref, "info": info}
            return {"outcome": "skip", "counts": counts, "bad": bad, "ref": ref, "info": info}
        c("comparisons_judged")
        if exactpair:
            c("comparisons_judged_exact_operands")
        if not isinstance(got, (bool, np.bool_)) or bool(got) != truth:
            witness("comparison", expected=truth, got=repr(got)[:200], op=tree["op"], exact_operands=exactpair)
            return {"outcome": "bad", "counts": counts, "bad": bad, "ref": ref, "info": info}
        c("comparison_agreements")
        return {"outcome": "agree", "counts": counts, "bad": bad, "ref": ref, "info": info}

    if isinstance(want, tuple) and want[0] == "mod":
        _, wdim, warr, elems = want
        wn = len(elems)
        wvals = None
    else:
        wdim, warr, wn = want.dim, want.arr, len(want.vals)
        wvals, werrs = want.vals, want.errs
        elems = None
    # type / shape
    tname = type(got).__name__
    if tname != ("UnitArray" if warr else "UnitValue"):
        witness("result type", expected="UnitArray" if warr else "UnitValue", got=tname, op=op_of(tree))
        return {"outcome": "bad", "counts": counts, "bad": bad, "ref": ref, "info": info}
    try:
        rs, rd = si.sys_of(got.units.sys), si.dim_of(got.units.dim)
        sc = si.scale(rs, rd)
        gvals = [float(x) for x in got.value] if warr else [float(got.value)]
    except Exception as e:
        witness("unreadable result", error="%s: %s" % (type(e).__name__, e), op=op_of(tree))
        return {"outcome": "bad", "counts": counts, "bad": bad, "ref": ref, "info": info}
    info["observed"] = "%s in [%s], dimension %s" % (gvals if warr else gvals[0], ",".join(rs), list(rd))
    if tuple(rd) != tuple(wdim) or not all(type(x) is int for x in rd):
        witness("dimension", expected_dim=list(wdim), got_dim=list(rd), op=op_of(tree))
        return {"outcome": "bad", "counts": counts, "bad": bad, "ref": ref, "info": info}
    c("dimension_agreements")
    if len(gvals) != wn:
        witness("array length", expected=wn, got=len(gvals), op=op_of(tree))
        return {"outcome": "bad", "counts": counts, "bad": bad, "ref": ref, "info": info}
    worst = 0.0
    if elems is not None:
        info["expected"] = "SI remainder(s) %s on the circle |b|, dimension %s" % (
            [fstr(e[1]) if e[0] == "judge" else "skipped:" + e[1] for e in elems], list(wdim))
        judged = 0
        for i, e in enumerate(elems):
            if e[0] == "skip":
                c("mod_elements_skipped")
                c("mod_elements_skipped:" + e[1])
                continue
            _, rr, tol, circ = e
            g = gvals[i]
            if not math.isfinite(g):
                witness("non-finite value", index=i, got=g, op="%")
                return {"outcome": "bad", "counts": counts, "bad": bad, "ref": ref, "info": info}
            diff = (Fr(g) * sc - rr) % circ
            dist = min(diff, circ - diff)
            c("mod_elements_judged")
            judged += 1
            if dist > SLACK * tol:
                witness("modulo value", index=i, expected_si=fstr(rr), got_si=fstr(Fr(g) * sc), modulus_si=fstr(circ),
                        distance_on_circle=fstr(dist), allowed=fstr(SLACK * tol), got=g, got_sys=list(rs), op="%")
                return {"outcome": "bad", "counts": counts, "bad": bad, "ref": ref, "info": info}
            worst = max(worst, float(dist / tol))
            # the remainder of exact arithmetic (the floor-modulo Python defines for numbers) lies between 0 and the modulus
            # and takes the modulus' sign: a value that is right on the circle but on the wrong side of 0 is wrong
            gsi = Fr(g) * sc
            if rr != 0 and min(abs(rr), circ - abs(rr)) > SLACK * tol:
                c("mod_sign_checks")
                if (gsi > 0) != (rr > 0) and abs(gsi) > SLACK * tol:
                    witness("modulo value has the wrong sign (it must take the sign of the modulus)", index=i, expected_si=fstr(rr),
                            got_si=fstr(gsi), modulus_si=fstr(circ), got=g, op="%")
                    return {"outcome": "bad", "counts": counts, "bad": bad, "ref": ref, "info": info}
        if judged:
            c("value_agreements")
            c("mod_agreements")
            info["worst"] = worst
            return {"outcome": "agree", "counts": counts, "bad": bad, "ref": ref, "info": info}
        c("mod_trees_all_skipped")
        return {"outcome": "skip", "counts": counts, "bad": bad, "ref": ref, "info": info}
    info["expected"] = "SI value(s) %s, dimension %s" % ([fstr(v) for v in wvals], list(wdim))
    for i in range(wn):
        g = gvals[i]
        if not math.isfinite(g):
            witness("non-finite value", index=i, got=g, expected_si=fstr(wvals[i]), op=op_of(tree))
            return {"outcome": "bad", "counts": counts, "bad": bad, "ref": ref, "info": info}
        d = abs(Fr(g) * sc - wvals[i])
        c("values_compared")
        if d > SLACK * werrs[i]:
            witness("value", index=i, expected_si=fstr(wvals[i]), got_si=fstr(Fr(g) * sc), difference=fstr(d),
                    allowed=fstr(SLACK * werrs[i]), got=g, got_sys=list(rs), op=op_of(tree))
            return {"outcome": "bad", "counts": counts, "bad": bad, "ref": ref, "info": info}
        if werrs[i] > 0:
            worst = max(worst, float(d / werrs[i]))
    c("value_agreements")
    info["worst"] = worst
    return {"outcome": "agree", "counts": counts, "bad": bad, "ref": ref, "info": info}


def raiseto_complaint_is_inexact_exponent(w):
    """the Units.raiseto contract compares with the float exponent taken exactly; (m3)**(1/3) -> m is the
    documented behaviour and is accepted here (exponent read as p/q)"""
    try:
        e = w["e"]
        ee, _, inexact = read_exponent(e)
        return inexact and all(Fr(x) * ee == y for x, y in zip(w["a"], w["got"]))
    except Exception:
        return False


# ---------------------------------------------------------------------------------------------
# worker

def run_block(case):
    use_repo()
    import strengths.units as U
    contracts.install()
    contracts.drain()
    r = gen.rng_for(case["seed"], "C05", case["block"])
    counts, bad, keys, nontriv, samples, pairings = {}, [], [], [], {}, {}
    systems = set()
    worst = 0.0
    depth_hist = {}
    for k in range(case["n"]):
        tree, cls = gen_tree(r)
        try:
            res = judge(U, tree)
        except Malformed as e:
            bad.append({"what": "harness: malformed tree", "error": str(e), "expr": show(tree), "tree": tree,
                        "case": {"seed": case["seed"], "block": case["block"], "k": k}})
            continue
        ref = res["ref"]
        h = chash(tree)
        keys.append(h)
        is_err = cls.startswith("err:")
        if ref.mixed or is_err:
            nontriv.append(h)
        counts["trees:" + cls] = counts.get("trees:" + cls, 0) + 1
        counts["outcome:" + res["outcome"]] = counts.get("outcome:" + res["outcome"], 0) + 1
        for kk, n in res["counts"].items():
            counts[kk] = counts.get(kk, 0) + n
        for kk, n in ref.pairings.items():
            pairings[kk] = pairings.get(kk, 0) + n
        depth_hist[str(ref.depth)] = depth_hist.get(str(ref.depth), 0) + 1
        systems.update(ref.systems)
        worst = max(worst, res["info"].get("worst", 0.0))
        for b in res["bad"]:
            b["case"] = {"seed": case["seed"], "block": case["block"], "k": k}
            b["class"] = cls
            if len(bad) < 20:
                bad.append(b)
        skey = cls + ("/deep" if ref.depth >= 3 else "")
        if skey not in samples and res["outcome"] in ("agree", "error-ok") and len(show(tree)) < 700:
            samples[skey] = {"key": h, "class": cls, "depth": ref.depth, "expr": show(tree),
                             "expected": res["info"].get("expected"), "observed": res["info"].get("observed"),
                             "outcome": res["outcome"]}
    # ---- operand re-use with an in-place element change between two operations --------------------------------
    # arithmetic is arithmetic on the operands' CURRENT SI values: an array that was an operand once, had one element
    # replaced (set_at / value[i] = x / set_value) and is an operand again must contribute its new value
    from fractions import Fraction as _Fr
    for k in range(max(4, case["n"] // 40)):
        A_, B_ = r.choice(si.ALL_SYSTEMS), r.choice(si.ALL_SYSTEMS)
        d3 = (r.randint(-2, 2), r.randint(-2, 2), r.randint(-2, 2))
        mkU = lambda s3, dd: U.Units(U.UnitsSystem(space=s3[0], time=s3[1], quantity=s3[2]),
                                     U.UnitsDimensions(space=dd[0], time=dd[1], quantity=dd[2]))
        vals = [float(r.randint(1, 9)) for _ in range(r.randint(1, 4))]
        arr = U.UnitArray(list(vals), mkU(A_, d3))
        op = r.choice(["+", "*", "-", "/"])
        od3 = d3 if op in "+-" else (r.randint(-1, 1), r.randint(-1, 1), r.randint(-1, 1))
        other_v = float(r.randint(1, 9))
        other = U.UnitValue(other_v, mkU(B_, od3)) if r.random() < 0.6 else U.UnitArray([other_v] * len(vals), mkU(B_, od3))
        try:
            BIN[op](other, arr)
            kk = r.randrange(len(vals))
            newx = float(r.randint(11, 19))
            how = r.choice(["set_at", "index", "set_value"])
            if how == "set_at":
                arr.set_at(kk, U.UnitValue(newx, mkU(A_, d3)))
            elif how == "index":
                arr.value[kk] = newx
            else:
                nv = list(vals)
                nv[kk] = newx
                arr.set_value(nv)
            vals[kk] = newx
            res2 = BIN[op](other, arr)
            counts["operand_reuse_checks"] = counts.get("operand_reuse_checks", 0) + 1
            rs, rd_ = si.sys_of(res2.units.sys), si.dim_of(res2.units.dim)
            o_si = _Fr(other_v) * si.scale(B_, od3)
            for i_, x_ in enumerate(vals):
                a_si = _Fr(x_) * si.scale(A_, d3)
                want = {"+": o_si + a_si, "-": o_si - a_si, "*": o_si * a_si, "/": o_si / a_si}[op]
                got = _Fr(float(res2.value[i_])) * si.scale(rs, rd_)
                tol = _Fr(1, 10 ** 11) * (abs(o_si) + abs(a_si) if op in "+-" else abs(want))
                if abs(got - want) > tol:
                    bad.append({"what": "an operand whose element was replaced in place contributes its OLD value the second time",
                                "op": op, "how": how, "element": i_, "got_si": float(got), "expected_si": float(want),
                                "other": [other_v, B_, od3], "array_units": [A_, d3],
                                "case": {"seed": case["seed"], "block": case["block"], "k": "reuse%d" % k}, "class": "reuse"})
                    break
        except Exception as e:
            bad.append({"what": "operand re-use: exception on a valid expression", "error": "%s: %s" % (type(e).__name__, e), "op": op,
                        "case": {"seed": case["seed"], "block": case["block"], "k": "reuse%d" % k}, "class": "reuse"})
    log, ccounts = contracts.drain()
    clog = []
    for name, w in log:
        if name == "Units.raiseto" and raiseto_complaint_is_inexact_exponent(w):
            counts["contract_raiseto_inexact_exponent_accepted"] = counts.get("contract_raiseto_inexact_exponent_accepted", 0) + 1
            continue
        clog.append([name, w])
    return {"counts": counts, "bad": bad, "keys": keys, "nontrivial": nontriv, "samples": samples,
            "pairings": pairings, "systems": sorted(si.ALL_SYSTEMS.index(s) for s in systems), "worst": worst,
            "depth_hist": depth_hist, "contract_bad": clog[:20], "contract_counts": ccounts}


def replay(path):
    w = json.load(open(path))["witness"]
    use_repo()
    import strengths.units as U
    contracts.install()
    tree = w.get("tree")
    if tree is None and "case" in w and "k" in w["case"]:
        c = w["case"]
        r = gen.rng_for(c["seed"], "C05", c["block"])
        for _ in range(c["k"] + 1):
            tree, _cls = gen_tree(r)
    if tree is None and "case" in w and "n" in w["case"]:
        # a contract violation: recorded with the block it happened in; re-run that block
        v = run_block(w["case"])
        print(json.dumps({"counts": v["counts"], "contract_counts": v["contract_counts"],
                          "bad": [{k: x for k, x in b.items() if k != "tree"} for b in v["bad"][:5]],
                          "contract_violations": v["contract_bad"][:5]}, indent=1, default=str))
        return 1 if (v["bad"] or v["contract_bad"]) else 0
    if tree is None:
        print("no tree and no block in the witness")
        return 2
    res = judge(U, tree)
    log, _ = contracts.drain()
    log = [x for x in log if not (x[0] == "Units.raiseto" and raiseto_complaint_is_inexact_exponent(x[1]))]
    print("expression:", show(tree))
    print(json.dumps({"outcome": res["outcome"], "info": res["info"], "counts": res["counts"],
                      "bad": [{k: v for k, v in b.items() if k != "tree"} for b in res["bad"]],
                      "contract_violations": log[:5]}, indent=1, default=str))
    return 1 if (res["bad"] or log) else 0


MECH = {"value": "value", "modulo value": "value", "dimension": "dimension", "comparison": "comparison",
        "meaningless operation returned instead of raising": "missing-error",
        "raised at another node than the meaningless one": "error-at-wrong-node",
        "== / != across dimensions answered 'equal'": "missing-error",
        "exception on a meaningful operation": "spurious-exception"}


def main():
    if len(sys.argv) > 2 and sys.argv[1] == "--replay":
        return replay(sys.argv[2])
    run = Run("C05", rule=RULE,
              assumptions=["SI table vf/si.py (exact rationals) and the reference evaluator of this file are the oracle",
                           "floating point: IEEE double, libm pow within 1 ulp; an implementation is accepted within "
                           "64x the propagated first-order forward bound",
                           "finite non-zero leaf magnitudes 1e-8..1e8, numbers 1e-4..1e6, exponents of ** within +-3",
                           "comparisons involving arrays, number**quantity, quantity**quantity, unary + are outside "
                           "the statement and not generated"])
    run.require("value_agreements", "dimension_agreements", "errors_raised", "comparisons_judged", "mod_elements_judged",
                "contract:compute_conversion_factor", "contract:convert_unitvalue", "contract:Units.multiply",
                "contract:Units.invert", "contract:Units.raiseto")
    run.max_samples = 12
    thorough = tier() == "thorough"
    n_total = 1200000 if thorough else 100000
    per = 2500 if thorough else 1250
    cases = [{"seed": seed(), "block": b, "n": per} for b in range(n_total // per)]
    res = pmap("vf.checks.c05:run_block", cases, cpu_budget=900)
    pairings, systems, depth_hist, worst = {}, set(), {}, 0.0
    seen_classes, pending = set(), {}
    for c_, r_ in zip(cases, res):
        if r_["status"] != "ok":
            if r_["status"] == "exception":
                run.violation("harness", {"case": c_, "result": r_}, mech={"what": "harness"})
            else:
                run.inconclusive_because("%s in block %s: %s" % (r_["status"], c_["block"], str(r_)[:300]))
            continue
        v = r_["value"]
        for sk, s in v["samples"].items():
            if sk not in seen_classes:
                seen_classes.add(sk)
                pending[s["key"]] = {kk: vv for kk, vv in s.items() if kk != "key"}
        nt = set(v["nontrivial"])
        for h in v["keys"]:
            run.case(h, nontrivial=h in nt, sample=pending.pop(h, None) if pending else None)
        for k_, n_ in v["counts"].items():
            run.count(k_, n_)
        for k_, n_ in v["contract_counts"].items():
            run.count("contract:" + k_, n_)
        for k_, n_ in v["pairings"].items():
            pairings[k_] = pairings.get(k_, 0) + n_
        for k_, n_ in v["depth_hist"].items():
            depth_hist[k_] = depth_hist.get(k_, 0) + n_
        systems.update(v["systems"])
        worst = max(worst, v["worst"])
        for b_ in v["bad"]:
            what = b_.get("what", "")
            run.violation(what if not what.startswith("harness") else "harness", b_,
                          mech={"what": MECH.get(what, what), "op": b_.get("op"), "class": b_.get("class")})
        for name, w in v["contract_bad"]:
            run.violation("contract:" + name, dict(w, case=c_), mech={"what": "contract", "contract": name})
    run.exhaustive = False
    run.note("operand_pairings", dict(sorted(pairings.items())))
    run.note("tree_depth_histogram", dict(sorted(depth_hist.items())))
    run.note("distinct_unit_systems_on_leaves", "%d of %d" % (len(systems), len(si.ALL_SYSTEMS)))
    run.note("largest_observed_error_over_propagated_bound", round(worst, 3))
    run.note("acceptance", "within %dx the propagated bound" % SLACK)
    return run.finish()


if __name__ == "__main__":
    sys.exit(main())
