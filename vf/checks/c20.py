"""C20 - Invalid input is rejected, never silently accepted.

Oracle: "must raise (any exception type), and the observable state of every object the call was made on is
unchanged afterwards" (deep snapshot before / after).  Every class of invalid input the statement lists is a
MUTATION OPERATOR applied to an otherwise valid generated model (vf.gen.rand_system, rendered through constructors
and through the dictionary form) at every site where it applies.  A mutated input counts only when its VALID TWIN
(the unmutated input through the same entry point) was accepted; otherwise it is counted as skipped.

 class 1  dictionary keys: unknown key / two aliases of one key / missing mandatory key, at every dictionary level
          (script, system, network, species, reaction, grid, graph, node, edge, units dict, unit-array dict), each
          through every enclosing reader (script, system, network / space, the level's own reader)
 class 2  wrong-dimension quantity in every dimensioned field, through constructors, dictionary readers, setters,
          set_state, state, conversions
 class 3  unsupported unit symbols: units dictionaries, UnitsSystem(...), unit strings
 class 4  grid sizes <= 0; cell_env of the wrong length; environment index negative or beyond the network's list
          (RDSystem with default / explicit state and chemostats, dictionary form, graph nodes)
 class 5  unknown boundary condition value / axis, sampling policy, init_state_processing; empty environment list,
          environment "default"; (code's own check) duplicated species label, reaction naming an undefined species
 class 6  positions outside the space, every form, grids and graphs, through the space, RDSystem accessors,
          kinetics and RDTrajectory accessors; setters: state / chemostat arrays byte-identical afterwards
 class 7  unknown species (label, index incl. negative and numpy ints, foreign Species object), same accessors
 class 8  coarse-graining maps violating each rule of check_index_map_validity

Every violation carries mech = {"what": "<class>/<mechanism>", "site": "<function or key>"}.
VERIF_C20_SKIP=<comma separated fnmatch patterns on what or what@site> skips those families (counted).
"""
import copy
import fnmatch
import json
import os
import sys

from vf import gen, si
from vf.common import Run, seed, tier, use_repo, chash
from vf.sandbox import pmap

CLASS_NAMES = {1: "dictionary keys", 2: "wrong dimension", 3: "unit symbols", 4: "grid size / environment map",
               5: "enumerations / environments", 6: "positions", 7: "unknown species", 8: "coarse-graining map"}

# ---------------------------------------------------------------------------
# my own transcription of the readers' key tables (json_and_dict_doc.rst + *_from_dict)

UAL = ["units", "units_system", "units system", "u"]
ALIASES = {
    "species": {"label": ["label", "l"],
                "D": ["D", "diff_coef", "diffusion_coefficient", "diff coef", "diffusion coefficient"],
                "density": ["density", "concentration", "dens", "conc", "C"], "chstt": ["chstt", "chemostat"], "units": UAL},
    "reaction": {"stoichiometry": ["stoichiometry", "eq", "sto", "equation"], "label": ["label", "l"], "k+": ["k+", "kf"],
                 "k-": ["k-", "kr"], "units": UAL},
    "network": {"species": ["species"], "reactions": ["reactions"], "environments": ["environments", "env"], "units": UAL},
    "grid": {"type": ["type"], "w": ["w", "width"], "h": ["h", "height"], "d": ["d", "depth"],
             "cell_env": ["cell_env", "cell_environments", "cell environments", "environments", "env"],
             "cell_volume": ["cell_volume", "cell_vol"], "boundary_conditions": ["boundary_conditions"], "units": UAL},
    "graph": {"type": ["type"], "nodes": ["nodes"], "edges": ["edges"], "units": UAL},
    "node": {"volume": ["volume", "vol"], "environment": ["environment", "env"], "units": UAL},
    "edge": {"nodes": ["nodes"], "surface": ["surface"], "distance": ["distance"], "units": UAL},
    "system": {"network": ["network", "rdnetwork"], "space": ["space", "rdspace"], "state": ["state"],
               "chemostats": ["chemostats"], "units": UAL},
    "script": {"system": ["system"], "t_sample": ["t_sample"], "time_step": ["time_step", "time step", "dt"],
               "t_max": ["t_max", "tmax"], "sampling_policy": ["sampling_policy", "sampling policy"],
               "sampling_interval": ["sampling_interval", "sampling interval"], "rng_seed": ["rng_seed", "rng seed", "seed"],
               "init_state_processing": ["init_state_processing"], "units": UAL},
    "units": {"space": ["space"], "time": ["time"], "quantity": ["quantity"]},
    "uarray": {"value": ["value"], "units": ["units"]},
}
# keys the documentation names although the readers do not know them: never used as "unknown" keys
DOC_ONLY = {"reaction": {"environments", "env", "stoechiometry"}, "system": {"chstt_map"}, "grid": set(), "script": set()}
MANDATORY = [("species", "label"), ("reaction", "stoichiometry"), ("system", "network"), ("script", "system"),
             ("script", "t_sample"), ("network", "species"), ("uarray", "value"), ("uarray", "units"), ("edge", "nodes")]
STATEMENT_MANDATORY = {("species", "label"), ("reaction", "stoichiometry"), ("system", "network"), ("script", "system"),
                       ("script", "t_sample")}
NONSENSE_KEYS = ["bogus_key", "comment", "name", "id", "Units", "unit", "note", "x", "0"]

LEN_DIM, SFC_DIM, VOL_DIM, TIME_DIM, Q_DIM, DENS_DIM, D_DIM = gen.LEN_DIM, gen.SFC_DIM, gen.VOL_DIM, gen.TIME_DIM, gen.Q_DIM, gen.DENS_DIM, gen.D_DIM
DIMPOOL = [LEN_DIM, SFC_DIM, VOL_DIM, TIME_DIM, Q_DIM, DENS_DIM, D_DIM, gen.K_DIM(0), gen.K_DIM(1), gen.K_DIM(2), gen.K_DIM(3),
           (0, -1, 1), (1, -1, 0), (-2, 0, 1)]
BAD_SYMBOLS = ["parsec", "furlong", "sec", "hr", "molecules", "Mol", "litre", "Å", "yd", "S", "MOL", "mole"]
# valid symbols in the wrong slot of a units system
WRONG_KIND = {"space": ["s", "mol", "L", "M", "min"], "time": ["µm", "mol", "m", "L"], "quantity": ["µm", "s", "M", "L", "m"]}
BAD_BC = ["periodic", "Reflecting", "open", "", "absorbing", "PERIODICAL", 1]
BAD_AXIS = ["w", "X", "xy", "", "0", "t"]
BAD_POLICY = ["on_tsample", "never", "ON_ITERATION", "", "on_sample", "interval"]
BAD_ISP = ["poisson", "resample", "", "Auto", "None", "round"]        # "floor" is named by the docstring: not judged


class XYZ:
    def __init__(self, x=0, y=0, z=0):
        self.x, self.y, self.z = x, y, z

    def __repr__(self):
        return "XYZ(%r,%r,%r)" % (self.x, self.y, self.z)


def skip_patterns():
    return [x.strip() for x in os.environ.get("VERIF_C20_SKIP", "").split(",") if x.strip()]


def err(e):
    return "%s: %s" % (type(e).__name__, str(e)[:160])


def short(v, n=110):
    try:
        t = repr(v)
    except Exception:
        t = "<unprintable %s>" % type(v).__name__
    return t if len(t) <= n else t[:n] + "..."


def deep(o, depth=0):
    """deep, comparable snapshot of the observable state of an object (floats and arrays bit-exact)"""
    import numpy as np
    if o is None or isinstance(o, (bool, int, str)):
        return o
    if isinstance(o, float):
        return o.hex()
    if depth > 14:
        return "<deep>"
    if isinstance(o, np.ndarray):
        if o.dtype == object:
            return ["ndo"] + [deep(x, depth + 1) for x in o.tolist()]
        return ("nd", str(o.dtype), tuple(o.shape), o.tobytes().hex())
    if isinstance(o, np.generic):
        return ("np", str(o.dtype), repr(o.item()))
    if isinstance(o, dict):
        return ["dict"] + sorted(((repr(k), deep(v, depth + 1)) for k, v in o.items()), key=lambda kv: kv[0])
    if isinstance(o, (list, tuple)):
        return [type(o).__name__] + [deep(x, depth + 1) for x in o]
    if hasattr(o, "__dict__"):
        return (type(o).__name__, deep(vars(o), depth + 1))
    return repr(o)


def light(system):
    """cheap snapshot of what accessors may touch: state bytes + units, chemostat bytes"""
    stt = system.state
    return (stt.value.tobytes(), str(stt.value.dtype), si.sys_of(stt.units.sys), si.dim_of(stt.units.dim),
            system.chemostats.tobytes(), str(system.chemostats.dtype), len(system.chemostats))


class Cx:
    """per-case bookkeeping: counters per class, distinct-case keys, capped witnesses"""

    def __init__(self, case):
        self.case = dict(case)
        self.skip = skip_patterns()
        self.bad, self.counts, self.keys, self.samples, self.twin_errors = [], {}, {}, {}, []
        self._per = {}
        self.model = None
        self.nontrivial = False

    def cnt(self, name, k=1):
        self.counts[name] = self.counts.get(name, 0) + k

    def skipped(self, what, site):
        for p in self.skip:
            if fnmatch.fnmatchcase(what, p) or fnmatch.fnmatchcase("%s@%s" % (what, site), p):
                return True
        return False

    def add(self, cls, what, site, **w):
        if self.skipped(what, site):
            self.cnt("skipped_by_env:" + what)
            return
        k = (what, site)
        self._per[k] = self._per.get(k, 0) + 1
        self.cnt("violations_seen")
        if self._per[k] <= 2 and len(self.bad) < 60:
            self.bad.append({"cls": cls, "what": what, "site": site, "case": self.case, **w})

    def twin(self, cls, fn, label=""):
        """the valid twin: (True, value) when accepted, (False, error) otherwise"""
        try:
            v = fn()
        except Exception as e:
            self.cnt("c%d_skipped_twin_rejected" % cls)
            if len(self.twin_errors) < 4:
                self.twin_errors.append("%s: %s" % (label, err(e)))
            return False, err(e)
        self.cnt("c%d_twins_accepted" % cls)
        return True, v

    def sample(self, cls, **s):
        if cls not in self.samples:
            self.samples[cls] = dict(s, **{"class": "%d %s" % (cls, CLASS_NAMES[cls])})

    def judge(self, cls, what, site, repro, fn, key=None, state=None, ok_return=None, **info):
        """one invalid call: it must raise; `state` (callable) is evaluated before and after and must not change.
        ok_return(v): a normal return that is itself a rejection (is_within_bounds -> False)."""
        if self.skipped(what, site):
            self.cnt("skipped_by_env:" + what)
            return None
        before = state() if state is not None else None
        raised, v, e_ = False, None, None
        try:
            v = fn()
        except Exception as e:
            raised, e_ = True, err(e)
        self.cnt("c%d_applied" % cls)
        if key is not False:
            self.keys.setdefault(cls, []).append(chash([what, site, key if key is not None else repro])[:10])
        rejected = raised or (ok_return is not None and ok_return(v))
        if rejected:
            self.cnt("c%d_rejected" % cls)
            self.sample(cls, operator=what.replace("-accepted", ""), site=site, input=repro, rejected_with=e_ or "returned %s" % short(v, 40))
        else:
            self.cnt("c%d_accepted_invalid" % cls)
            self.add(cls, what, site, repro=repro, returned=short(v), **info)
        if state is not None:
            after = state()
            self.cnt("c%d_state_checks" % cls)
            if before != after and raised and cls not in (6, 7):
                # The statement demands rejection, and (last sentence) that no entry other than the addressed one is read or
                # written; it does not promise that an object is untouched by a call that was rejected for ANOTHER part of
                # its input (set_k applies kf before refusing kr; set_boundary_conditions resets before validating).
                # Observed and counted, not judged.
                self.cnt("observed_not_judged:state-changed-after-rejection/" + what.split("/", 1)[-1].replace("-accepted", ""))
            elif before != after and raised:          # an accepted call is already reported above
                self.add(cls, "state-changed/" + (info.pop("sc_tag", None) or what.split("/", 1)[-1].replace("-accepted", "")), site, repro=repro,
                         raised=e_, note="object state differs after the %s call" % ("rejected" if raised else "accepted"),
                         **info)
        return raised


# ---------------------------------------------------------------------------
# generation: description -> constructor plan (kwargs per object) and dictionary form

def gen_model(sd, idx, kind, salt="C20"):
    r = gen.rng_for(sd, salt, idx)
    opts = {"space": kind, "explicit_state": 0.5, "explicit_chstt": 0.5,
            "net": {"nspecies": (1, 1) if r.random() < 0.06 else (2, 4), "nenv": (1, 1) if r.random() < 0.1 else (2, 3),
                    "nreactions": (0, 0) if r.random() < 0.1 else (1, 3), "chstt": 0.4},
            "grid": {"dims": (1, 3), "max_cells": 18},
            "graph": {"nodes": (1, 1) if r.random() < 0.05 else (2, 6), "simple": r.random() < 0.7}}
    return gen.rand_system(r, opts)


def make_plan(desc, rd, st):
    """constructor keyword arguments of every object of the model, in the rendering's unit systems / value forms"""
    US = lambda s: st.UnitsSystem(**si.sys_dict(s))
    r = rd.r
    P = {"sysu": rd.level("system", None)}
    P["nsys"] = nsys = rd.level("network", P["sysu"])
    P["species"], P["reactions"] = [], []
    for n, s in enumerate(desc["species"]):
        ssys = rd.level("species%d" % n, nsys)
        P["species"].append({"sys": ssys, "kw": dict(label=s["label"], D=rd.per_env(s["D"], D_DIM, ssys),
                                                      density=rd.per_env(s["density"], DENS_DIM, ssys),
                                                      chstt=(dict(s["chstt"]) if isinstance(s["chstt"], dict) else s["chstt"]),
                                                      units_system=US(ssys))})
    for n, x in enumerate(desc["reactions"]):
        rsys = rd.level("reaction%d" % n, nsys)
        no, mo = sum(x["sub"].values()), sum(x["prod"].values())
        sto = gen.eq_string(x["sub"], x["prod"], r) if r.random() < 0.5 else [dict(x["sub"]), dict(x["prod"])]
        P["reactions"].append({"sys": rsys, "orders": (no, mo),
                               "kw": dict(stoichiometry=sto, kf=rd.per_env(x["kf"], gen.K_DIM(no), rsys),
                                          kr=rd.per_env(x["kr"], gen.K_DIM(mo), rsys), label=x.get("label"),
                                          units_system=US(rsys))})
    P["net_kw"] = dict(environments=list(desc["envs"]), units_system=US(nsys))
    sp = desc["space"]
    P["spsys"] = spsys = rd.level("space", P["sysu"])
    if sp["type"] == "grid":
        P["grid_kw"] = dict(w=sp["w"], h=sp["h"], d=sp["d"], cell_env=list(sp["cell_env"]),
                            cell_vol=rd.q(sp["cell_vol"], VOL_DIM, spsys), boundary_conditions=dict(sp["bc"]),
                            units_system=US(spsys))
    else:
        P["nodes"], P["edges"] = [], []
        for n, nd in enumerate(sp["nodes"]):
            nsy = rd.level("node%d" % n, spsys)
            P["nodes"].append({"sys": nsy, "kw": dict(volume=rd.q(nd["vol"], VOL_DIM, nsy), environment=nd["env"],
                                                       units_system=US(nsy))})
        for n, e in enumerate(sp["edges"]):
            esy = rd.level("edge%d" % n, spsys)
            P["edges"].append({"sys": esy, "kw": dict(i=e["i"], j=e["j"], surface=rd.q(e["sfc"], SFC_DIM, esy),
                                                       distance=rd.q(e["dst"], LEN_DIM, esy), units_system=US(esy))})
        P["graph_kw"] = dict(units_system=US(spsys))
    P["sys_kw"] = dict(units_system=US(P["sysu"]))
    if desc["state"] is not None:
        if r.random() < 0.5:
            P["sys_kw"]["state"] = [gen.q_bare(x, P["sysu"], Q_DIM) for x in desc["state"]]
        else:
            own = rd.sys_draw(r)
            P["sys_kw"]["state"] = st.UnitArray([gen.q_bare(x, own, Q_DIM) for x in desc["state"]], own[2])
    if desc["chemostats"] is not None:
        P["sys_kw"]["chemostats"] = list(desc["chemostats"])
    return P


def b_network(st, P, species=None, reactions=None, **over):
    sp = species if species is not None else [st.Species(**s["kw"]) for s in P["species"]]
    rx = reactions if reactions is not None else [st.Reaction(**x["kw"]) for x in P["reactions"]]
    return st.RDNetwork(species=sp, reactions=rx, **dict(P["net_kw"], **over))


def b_space(st, P, nodes=None, **over):
    if "grid_kw" in P:
        return st.RDGridSpace(**dict(P["grid_kw"], **over))
    nd = nodes if nodes is not None else [st.RDGraphSpaceNode(**n["kw"]) for n in P["nodes"]]
    ed = [st.RDGraphSpaceEdge(**e["kw"]) for e in P["edges"]]
    return st.RDGraphSpace(nodes=nd, edges=ed, **dict(P["graph_kw"], **over))


def b_system(st, P, network=None, space=None, **over):
    return st.RDSystem(network=network if network is not None else b_network(st, P),
                       space=space if space is not None else b_space(st, P), **dict(P["sys_kw"], **over))


def script_kw(st, system, r):
    usys = gen.mild_sys(r)
    tu = float(si.TIME[usys[1]])

    def tq(x):
        form = r.choice(["bare", "str", "uv"])
        if form == "bare":
            return x / tu
        own = r.choice(["h", "min", "s", "ms", "µs"])
        num = x / float(si.TIME[own])
        return "%r %s" % (num, own) if form == "str" else st.UnitValue(num, own)
    mag = 10.0 ** r.randint(-3, 2)
    t_si = sorted(r.uniform(0, 10) * mag for _ in range(r.randint(1, 5)))
    dt = r.uniform(0.01, 1.0) * 10.0 ** r.randint(-4, 0)
    own = r.choice(["h", "min", "s", "ms"])
    t_sample = [x / tu for x in t_si] if r.random() < 0.5 else st.UnitArray([x / float(si.TIME[own]) for x in t_si], own)
    return dict(system=system, t_sample=t_sample, time_step=tq(dt), t_max=tq(t_si[-1] + dt),
                sampling_policy=r.choice(["on_t_sample", "on_iteration", "on_interval", "no_sampling"]),
                sampling_interval=tq(dt * r.uniform(1.5, 20)), rng_seed=r.randrange(2 ** 32),
                init_state_processing=r.choice(["auto", "none", "Poisson", "redist"]),
                units_system=st.UnitsSystem(**si.sys_dict(usys)))


def unit_text(r, dim, bad=None):
    """a unit string of dimension `dim`; with bad: one symbol replaced by an unsupported one"""
    own = list(gen.mild_sys(r))
    if bad is not None:
        slots = [i for i in range(3) if dim[i] != 0]
        own[r.choice(slots)] = bad
    return si.unit_string(tuple(own), tuple(dim), style=r.choice([0, 1]))


def wrong_dim(r, dim, k_order=None):
    """a dimension different from `dim`; for rate constants mostly the dimension of another order"""
    dim = tuple(dim)
    if r.random() < 0.3:
        # a near miss: the right dimension with one exponent (or two) off by one
        d = list(dim)
        for i_ in r.sample(range(3), r.choice([1, 1, 2])):
            d[i_] += r.choice([-1, 1])
        if tuple(d) != dim and any(d):
            return tuple(d)
    if k_order is not None and r.random() < 0.65:
        return gen.K_DIM(r.choice([o for o in range(0, 5) if o != k_order]))
    return r.choice([d for d in DIMPOOL if tuple(d) != dim])


def wrong_value(r, st, dim, k_order=None, forms=("str", "uv")):
    wd = wrong_dim(r, dim, k_order)
    num = round(r.uniform(0.1, 50.0), 3)
    text = "%r %s" % (num, unit_text(r, wd))
    if r.choice(forms) == "str":
        return text, text
    return st.UnitValue(num, text.split()[1]), "UnitValue(%r)" % text


def right_value(r, st, dim, forms=("str", "uv")):
    num = round(r.uniform(0.1, 50.0), 3)
    text = "%r %s" % (num, unit_text(r, dim))
    return text if r.choice(forms) == "str" else st.UnitValue(num, text.split()[1])


def bad_unit_value(r, dim):
    num = round(r.uniform(0.1, 50.0), 3)
    return "%r %s" % (num, unit_text(r, dim, bad=r.choice(BAD_SYMBOLS)))


def sites_of(v):
    """mutation sites of a scalar-or-per-environment field: [None] or the dictionary keys"""
    return list(v) if isinstance(v, dict) else [None]


def with_site(v, key, new):
    if key is None:
        return new
    d = dict(v)
    d[key] = new
    return d


def script_dict(desc, rd):
    """dictionary form of a script around gen.system_dict (aliases, unit declarations and value forms drawn from rd.r)"""
    r = rd.r
    usys = rd.level("script", None)
    tu = float(si.TIME[usys[1]])
    d = {}
    if usys == si.DEFAULT_SYS and r.random() < 0.3:
        d["units"] = "default"
    else:
        d[r.choice(UAL)] = si.sys_dict(usys)
    d["system"] = gen.system_dict(desc, rd, usys)

    def tq(x):
        if r.random() < 0.4:
            return x / tu
        own = r.choice(["h", "min", "s", "ms", "µs"])
        return "%r %s" % (x / float(si.TIME[own]), own)
    mag = 10.0 ** r.randint(-3, 2)
    t_si = sorted(r.uniform(0, 10) * mag for _ in range(r.randint(1, 5)))
    dt = r.uniform(0.01, 1.0) * 10.0 ** r.randint(-4, 0)
    if r.random() < 0.65:
        own = r.choice(["h", "min", "s", "ms"])
        d["t_sample"] = {"value": [x / float(si.TIME[own]) for x in t_si], "units": own}
    else:
        d["t_sample"] = [x / tu for x in t_si]
    d[r.choice(ALIASES["script"]["time_step"])] = tq(dt)
    if r.random() < 0.6:
        d[r.choice(ALIASES["script"]["t_max"])] = tq(t_si[-1] + dt) if r.random() < 0.8 else "default"
    if r.random() < 0.7:
        d[r.choice(ALIASES["script"]["sampling_policy"])] = r.choice(["on_t_sample", "on_iteration", "on_interval", "no_sampling"])
    if r.random() < 0.7:
        d[r.choice(ALIASES["script"]["sampling_interval"])] = tq(dt * r.uniform(1.5, 20))
    if r.random() < 0.7:
        d[r.choice(ALIASES["script"]["rng_seed"])] = r.randrange(2 ** 32)
    if r.random() < 0.5:
        d["init_state_processing"] = r.choice(["auto", "none", "Poisson", "redist"])
    return d


def key_of(d, level, canon):
    for a in ALIASES[level][canon]:
        if a in d:
            return a
    return None


def canon_of(level, key):
    for c, names in ALIASES[level].items():
        if key in names:
            return c
    return None


def walk(level, d, path=()):
    """(level, dictionary, path from the script dictionary, index) for every dictionary nested in d"""
    out = [(level, d, path)]
    if level not in ("units", "uarray"):
        k = key_of(d, level, "units")
        if k is not None and isinstance(d[k], dict):
            out.append(("units", d[k], path + (k,)))
    if level == "script":
        if isinstance(d.get("system"), dict):
            out += walk("system", d["system"], path + ("system",))
        if isinstance(d.get("t_sample"), dict):
            out.append(("uarray", d["t_sample"], path + ("t_sample",)))
    elif level == "system":
        k = key_of(d, "system", "network")
        if k is not None and isinstance(d[k], dict):
            out += walk("network", d[k], path + (k,))
        k = key_of(d, "system", "space")
        if k is not None and isinstance(d[k], dict):
            out += walk(d[k].get("type", "grid"), d[k], path + (k,))
        if isinstance(d.get("state"), dict):
            out.append(("uarray", d["state"], path + ("state",)))
    elif level == "network":
        for i, s in enumerate(d.get("species", [])):
            out += walk("species", s, path + ("species", i))
        for i, x in enumerate(d.get("reactions", [])):
            out += walk("reaction", x, path + ("reactions", i))
    elif level == "graph":
        for i, n in enumerate(d.get("nodes", [])):
            out += walk("node", n, path + ("nodes", i))
        for i, e in enumerate(d.get("edges", [])):
            out += walk("edge", e, path + ("edges", i))
    return out


def at(d, path):
    for p in path:
        d = d[p]
    return d


def path_text(path):
    return "".join("[%r]" % p for p in path)


# ---------------------------------------------------------------------------
# dictionary form: every mutation goes through every enclosing reader whose valid twin was accepted

QFIELDS = {"species": [("D", D_DIM), ("density", DENS_DIM)], "reaction": [("k+", "kf"), ("k-", "kr")],
           "grid": [("cell_volume", VOL_DIM)], "node": [("volume", VOL_DIM)], "edge": [("surface", SFC_DIM), ("distance", LEN_DIM)],
           "script": [("time_step", TIME_DIM), ("t_max", TIME_DIM), ("sampling_interval", TIME_DIM)]}


class DictForm:
    def __init__(self, cx, st, desc, sdict):
        from strengths import rdgraphspace as gs
        self.cx, self.st, self.desc, self.sd = cx, st, desc, sdict
        readers = {"script": st.rdscript_from_dict, "system": st.rdsystem_from_dict, "network": st.rdnetwork_from_dict,
                   "grid": st.rdspace_from_dict, "graph": st.rdspace_from_dict, "species": st.species_from_dict,
                   "reaction": st.reaction_from_dict, "node": gs.rdgraphspacenode_from_dict,
                   "edge": gs.rdgraphspaceedge_from_dict, "units": st.unitssystem_from_dict, "uarray": st.unitarray_from_dict}
        self.levels = walk("script", sdict)
        self.roots = [{"level": lv, "path": p, "reader": readers[lv], "name": readers[lv].__name__} for lv, _, p in self.levels]
        self._twin = {}
        self._counted = set()

    def _root_dict(self, root, variant):
        d = copy.deepcopy(at(self.sd, root["path"]))
        if variant is not None:
            variant[1](d if root["level"] == "system" else d["system"])
        return d

    def twin_ok(self, cls, ri, variant):
        k = (ri, variant[0] if variant else None)
        if k not in self._twin:
            root = self.roots[ri]
            try:
                root["reader"](self._root_dict(root, variant))
                self._twin[k] = True
            except Exception as e:
                self._twin[k] = False
                if len(self.cx.twin_errors) < 4:
                    self.cx.twin_errors.append("%s(valid dictionary%s): %s" % (root["name"], " " + k[1] if k[1] else "", err(e)))
        if (cls,) + k not in self._counted:
            self._counted.add((cls,) + k)
            self.cx.cnt("c%d_%s" % (cls, "twins_accepted" if self._twin[k] else "twins_rejected"))
        return self._twin[k]

    def apply(self, cls, what, site, mpath, mutate, repro, only=None, variant=None):
        mpath = tuple(mpath)
        for ri, root in enumerate(self.roots):
            rp = root["path"]
            if mpath[:len(rp)] != rp or (only and root["level"] not in only):
                continue
            if variant is not None and root["level"] not in ("script", "system"):
                continue
            if not self.twin_ok(cls, ri, variant):
                self.cx.cnt("c%d_skipped_twin_rejected" % cls)
                continue
            d = self._root_dict(root, variant)
            mutate(at(d, mpath[len(rp):]))
            rel = path_text(mpath[len(rp):])
            self.cx.judge(cls, what, site, "%s(d) with d%s: %s%s" % (root["name"], rel, repro, " [%s]" % variant[0] if variant else ""),
                          lambda: root["reader"](d), key=[root["name"], mpath, repro, variant[0] if variant else None],
                          via=root["name"], level_path=path_text(mpath), variant=variant[0] if variant else None)

    # ---- class 1 -------------------------------------------------------------
    def class1(self, r, thorough):
        for level, d, path in self.levels:
            known = {a for names in ALIASES[level].values() for a in names} | DOC_ONLY.get(level, set())
            cross = sorted({a for lv, t in ALIASES.items() if lv != level for names in t.values() for a in names} - known)
            near = [c for k in d if isinstance(k, str) for c in (k + "_", k.upper(), k.capitalize(), " " + k + "s")
                    if c not in known and c not in d]
            cands = [r.choice(NONSENSE_KEYS), r.choice(cross)] + ([r.choice(near)] if near else [])
            if not thorough:
                cands = r.sample(cands, 2)
            for uk in cands:
                if uk in d or uk in known:
                    continue
                val = r.choice([1, "x", None, [], {}, 0.5])
                self.apply(1, "dict-key/unknown-key-accepted", level, path, lambda t, uk=uk, val=val: t.__setitem__(uk, val),
                           "unknown key %r" % uk)
            for k in list(d):
                c = canon_of(level, k)
                if c is None:
                    continue
                others = [a for a in ALIASES[level][c] if a != k]
                if not thorough and len(others) > 2:
                    others = r.sample(others, 2)
                for a in others:
                    self.apply(1, "dict-key/duplicate-alias-accepted", "%s.%s" % (level, c), path,
                               lambda t, a=a, k=k: t.__setitem__(a, copy.deepcopy(t[k])), "keys %r and %r together" % (k, a))
            for lv, c in MANDATORY:
                if lv != level:
                    continue
                k = key_of(d, level, c)
                if k is not None:
                    self.apply(1, "dict-key/missing-mandatory-accepted", "%s.%s" % (level, c), path,
                               lambda t, k=k: t.pop(k), "key %r removed" % k, )

    # ---- quantities in the dictionary: classes 2 and 3 -------------------------
    def quantity_sites(self):
        """(level, path of the dictionary, key to write, site name, dimension, k order, environment key or None)"""
        out = []
        for level, d, path in self.levels:
            for canon, dim in QFIELDS.get(level, []):
                order = None
                if level == "reaction":
                    x = self.desc["reactions"][path[-1]]
                    order = sum(x["sub" if dim == "kf" else "prod"].values())
                    dim = gen.K_DIM(order)
                k = key_of(d, level, canon) or canon
                v = d.get(k)
                for env in (sites_of(v) if isinstance(v, dict) else [None]):
                    out.append((level, path, k, "%s.%s%s" % (level, canon, "[env]" if env is not None else ""), dim, order, env))
        return out

    def class2(self, r):
        for level, path, k, site, dim, order, env in self.quantity_sites():
            val, text = wrong_value(r, self.st, dim, order, forms=("str",))
            self.apply(2, "dimension/wrong-dimension-accepted", site, path,
                       lambda t, k=k, env=env, val=val: t.__setitem__(k, with_site(t.get(k), env, val)),
                       "%r%s = %r" % (k, "[%r]" % env if env is not None else "", text))
        for level, d, path in self.levels:
            if level == "uarray":
                dim = TIME_DIM if path[-1] == "t_sample" else Q_DIM
                u = unit_text(r, wrong_dim(r, dim))
                self.apply(2, "dimension/wrong-dimension-accepted", "%s(unit array).units" % path[-1], path,
                           lambda t, u=u: t.__setitem__("units", u), "'units' = %r" % u, only=("script", "system"))

    def class3(self, r, thorough):
        for level, path, k, site, dim, order, env in self.quantity_sites():
            val = bad_unit_value(r, dim)
            self.apply(3, "unit-symbol/unit-string-accepted", site, path,
                       lambda t, k=k, env=env, val=val: t.__setitem__(k, with_site(t.get(k), env, val)),
                       "%r%s = %r" % (k, "[%r]" % env if env is not None else "", val))
        for level, d, path in self.levels:
            if level == "uarray":
                dim = TIME_DIM if path[-1] == "t_sample" else Q_DIM
                u = unit_text(r, dim, bad=r.choice(BAD_SYMBOLS))
                self.apply(3, "unit-symbol/unit-string-accepted", "%s(unit array).units" % path[-1], path,
                           lambda t, u=u: t.__setitem__("units", u), "'units' = %r" % u)
            elif level == "units":
                for slot in ("space", "time", "quantity"):
                    syms = [r.choice(BAD_SYMBOLS), r.choice(WRONG_KIND[slot])]
                    for sym in (syms if thorough else [r.choice(syms)]):
                        self.apply(3, "unit-symbol/units-dict-accepted", "units.%s" % slot, path,
                                   lambda t, slot=slot, sym=sym: t.__setitem__(slot, sym), "%r: %r" % (slot, sym))
            else:
                k = key_of(d, level, "units")
                if k is None or not isinstance(d[k], dict):
                    # no units dictionary at this level: a partial one (documented per-key defaults) with a bad symbol
                    slot = r.choice(["space", "time", "quantity"])
                    sym = r.choice(BAD_SYMBOLS + WRONG_KIND[slot])
                    kk = k or r.choice(UAL)
                    self.apply(3, "unit-symbol/units-dict-accepted", "%s.units.%s" % (level, slot), path,
                               lambda t, kk=kk, slot=slot, sym=sym: t.__setitem__(kk, {slot: sym}), "%r = {%r: %r}" % (kk, slot, sym))

    # ---- classes 4 and 5 in dictionary form -------------------------------------
    def class4(self, r, thorough):
        desc = self.desc
        ne = len(desc["envs"])
        N = gen.ncells(desc["space"]) * len(desc["species"])
        variants = [None,
                    ("explicit state and chemostats", lambda s: (s.__setitem__("state", s.get("state", [1.0] * N)),
                                                                 s.__setitem__("chemostats", s.get("chemostats", [0] * N)))),
                    ("default state and chemostats", lambda s: (s.pop("state", None), s.pop("chemostats", None)))]
        bad_env = [ne, ne + 2, -1, -ne, -ne - 1]
        for level, d, path in self.levels:
            if level == "grid":
                n = gen.ncells(desc["space"])
                for c in ("w", "h", "d"):
                    k = key_of(d, "grid", c) or c
                    # (also numbers whose documented int() cast is not positive: such a grid would have no cell)
                    for v in ([0, -1, -r.randint(2, 9), 0.0, 0.5, 0.999, -0.5, 1e-9] if thorough else [0, -r.randint(1, 9), r.choice([0.0, 0.5, 0.999, -0.5, 1e-9])]):
                        self.apply(4, "grid-size/non-positive-accepted", "grid.%s" % c, path,
                                   lambda t, k=k, v=v: t.__setitem__(k, v), "%r = %r" % (k, v))
                k = key_of(d, "grid", "cell_env") or "cell_env"
                env = list(desc["space"]["cell_env"])
                for m, name in ((env[:-1], "one short"), (env + [env[-1]], "one long"), (env + env, "twice"), ([], "empty")):
                    if len(m) != n:
                        self.apply(4, "cell-env/wrong-length-accepted", "grid.cell_env", path,
                                   lambda t, k=k, m=m: t.__setitem__(k, list(m)), "%r of length %d (%s) for %d cells" % (k, len(m), name, n))
                cells = list(range(n)) if (thorough or n <= 3) else sorted({0, n - 1, r.randrange(n)})
                for i in cells:
                    for b in bad_env:
                        m = list(env)
                        m[i] = b
                        for var in variants:
                            self.apply(4, env_what(b, var, desc), "grid.cell_env[i]", path,
                                       lambda t, k=k, m=m: t.__setitem__(k, list(m)),
                                       "%r[%d] = %d with %d environments" % (k, i, b, ne), only=("script", "system"), variant=var)
                for b in (ne, -1):
                    for var in variants:
                        self.apply(4, env_what(b, var, desc), "grid.cell_env(scalar)", path,
                                   lambda t, k=k, b=b: t.__setitem__(k, b), "%r = %d (scalar) with %d environments" % (k, b, ne),
                                   only=("script", "system"), variant=var)
            elif level == "node":
                k = key_of(d, "node", "environment") or "environment"
                for b in bad_env:
                    for var in variants:
                        self.apply(4, env_what(b, var, desc), "node.environment", path,
                                   lambda t, k=k, b=b: t.__setitem__(k, b), "%r = %d with %d environments" % (k, b, ne),
                                   only=("script", "system"), variant=var)

    def class5(self, r, thorough):
        pick = (lambda xs: xs) if thorough else (lambda xs: r.sample(xs, 2))
        for level, d, path in self.levels:
            if level == "grid":
                for ax in ("x", "y", "z"):
                    for v in pick(BAD_BC):
                        self.apply(5, "enum/boundary-condition-value-accepted", "grid.boundary_conditions", path,
                                   lambda t, ax=ax, v=v: t.__setitem__("boundary_conditions", dict(t.get("boundary_conditions", {}), **{ax: v})),
                                   "boundary_conditions[%r] = %r" % (ax, v))
                for ax in pick(BAD_AXIS):
                    v = r.choice(["reflecting", "periodical"])
                    self.apply(5, "enum/boundary-condition-axis-accepted", "grid.boundary_conditions", path,
                               lambda t, ax=ax, v=v: t.__setitem__("boundary_conditions", dict(t.get("boundary_conditions", {}), **{ax: v})),
                               "boundary_conditions[%r] = %r" % (ax, v))
            elif level == "script":
                k = key_of(d, "script", "sampling_policy") or "sampling_policy"
                for v in pick(BAD_POLICY):
                    self.apply(5, "enum/sampling-policy-accepted", "script.sampling_policy", path,
                               lambda t, k=k, v=v: t.__setitem__(k, v), "%r = %r" % (k, v))
                for v in pick(BAD_ISP):
                    self.apply(5, "enum/init-state-processing-accepted", "script.init_state_processing", path,
                               lambda t, v=v: t.__setitem__("init_state_processing", v), "'init_state_processing' = %r" % v)
            elif level == "network":
                k = key_of(d, "network", "environments") or "environments"
                envs = list(self.desc["envs"])
                self.apply(5, "environments/empty-list-accepted", "network.environments", path,
                           lambda t, k=k: t.__setitem__(k, []), "%r = []" % k)
                for i in range(len(envs) + 1):
                    m = envs[:i] + [gen.fresh("default")] + envs[i:]       # (a run-time string, as a JSON reader hands it over)
                    self.apply(5, "environments/default-name-accepted", "network.environments", path,
                               lambda t, k=k, m=m: t.__setitem__(k, list(m)), "%r = %r" % (k, m))
                for i in range(len(envs)):
                    m = list(envs)
                    m[i] = gen.fresh("default")
                    self.apply(5, "environments/default-name-accepted", "network.environments", path,
                               lambda t, k=k, m=m: t.__setitem__(k, list(m)), "%r = %r" % (k, m), only=("network",))
                sp = d.get("species", [])
                if sp:
                    i = r.randrange(len(sp))
                    self.apply(5, "network/duplicate-species-label-accepted", "network.species", path,
                               lambda t, i=i: t["species"].append(copy.deepcopy(t["species"][i])), "species[%d] listed twice" % i,
                               only=("network",))
                    lab = "Q" + "".join(s["label"] for s in self.desc["species"])
                    self.apply(5, "network/reaction-with-undefined-species-accepted", "network.reactions", path,
                               lambda t, lab=lab: t.__setitem__("reactions", list(t.get("reactions", [])) + [{"eq": "%s -> " % lab, "k+": 0}]),
                               "reaction %r added" % ("%s -> " % lab), only=("network",))


def env_what(b, variant, desc):
    explicit = (variant is not None and variant[0].startswith("explicit")) or \
        (variant is None and desc["state"] is not None and desc["chemostats"] is not None)
    if b < 0:
        return "env-index/negative-wraps"
    return "env-index/beyond-list-explicit-state-and-chemostats" if explicit else "env-index/beyond-list-accepted"


# ---------------------------------------------------------------------------
# object API: constructors and property setters (classes 2 - 5), coarse-graining (class 8)

W2 = "dimension/wrong-dimension-accepted"


def field_ctor_setter(cx, st, r, cls_ctor, name, kw, obj, fields, mode):
    """mode 2: wrong dimension, mode 3: unsupported unit symbol; every site of every field through the constructor and
    through the property setter of the existing object `obj` (whole-object snapshot before / after)"""
    ok_ctor, _ = cx.twin(mode, lambda: cls_ctor(**kw), name + "(valid)")
    for field, dim, order in fields:
        for env in sites_of(kw[field]):
            if mode == 2:
                val, text = wrong_value(r, st, dim, order)
                what = W2
            else:
                val = text = bad_unit_value(r, dim)
                what = "unit-symbol/unit-string-accepted"
            tag = "%s%s" % (field, "[env]" if env is not None else "")
            newv = with_site(kw[field], env, val)
            if ok_ctor:
                cx.judge(mode, what, "%s(%s=)" % (name, tag), "%s(..., %s=%s%s)" % (name, field, "{%r: ...}" % env if env is not None else "", text),
                         lambda: cls_ctor(**dict(kw, **{field: newv})), key=[name, field, env, text])
            if obj is not None:
                rv = right_value(r, st, dim)
                ok_set, _ = cx.twin(mode, lambda: setattr(copy.deepcopy(obj), field, with_site(kw[field], env, rv)), "%s.%s = valid" % (name, field))
                if ok_set:
                    cx.judge(mode, what, "%s.%s setter" % (name, tag), "%s.%s = %s%s" % (name, field, "{%r: ...}" % env if env is not None else "", text),
                             lambda: setattr(obj, field, newv), key=[name, "set", field, env, text], state=lambda: deep(obj))


def class23_objects(cx, st, r, desc, P, O, thorough):
    for mode in (2, 3):
        for n, s in enumerate(P["species"]):
            field_ctor_setter(cx, st, r, st.Species, "Species", s["kw"], O["network"].species[n],
                              [("D", D_DIM, None), ("density", DENS_DIM, None)], mode)
        for n, x in enumerate(P["reactions"]):
            no, mo = x["orders"]
            field_ctor_setter(cx, st, r, st.Reaction, "Reaction", x["kw"], O["network"].reactions[n],
                              [("kf", gen.K_DIM(no), no), ("kr", gen.K_DIM(mo), mo)], mode)
            if mode == 2:
                # set_k(kf, kr): a wrong-dimension kr must leave the reaction as it was (kf included)
                rx = O["network"].reactions[n]
                nkf = right_value(r, st, gen.K_DIM(no))
                okk, _ = cx.twin(2, lambda: copy.deepcopy(rx).set_k(nkf, right_value(r, st, gen.K_DIM(mo))), "Reaction.set_k(valid, valid)")
                if okk:
                    val, text = wrong_value(r, st, gen.K_DIM(mo), mo)
                    cx.judge(2, "dimension/set_k-kr-wrong-dimension-accepted", "Reaction.set_k", "reaction.set_k(<valid new kf>, %s)" % text,
                             lambda: rx.set_k(nkf, val), key=["set_k", n, text], state=lambda: deep(rx),
                             sc_tag="set_k-applies-kf-before-rejecting-kr")
                    val, text = wrong_value(r, st, gen.K_DIM(no), no)
                    cx.judge(2, W2, "Reaction.set_k", "reaction.set_k(%s, <valid kr>)" % text,
                             lambda: rx.set_k(val, right_value(r, st, gen.K_DIM(mo))), key=["set_k f", n, text], state=lambda: deep(rx))
        if "grid_kw" in P:
            field_ctor_setter(cx, st, r, st.RDGridSpace, "RDGridSpace", P["grid_kw"], O["space"], [("cell_vol", VOL_DIM, None)], mode)
        else:
            for n, nd in enumerate(P["nodes"]):
                field_ctor_setter(cx, st, r, st.RDGraphSpaceNode, "RDGraphSpaceNode", nd["kw"], O["space"].nodes[n],
                                  [("volume", VOL_DIM, None)], mode)
            for n, e in enumerate(P["edges"]):
                field_ctor_setter(cx, st, r, st.RDGraphSpaceEdge, "RDGraphSpaceEdge", e["kw"], O["space"].edges[n],
                                  [("surface", SFC_DIM, None), ("distance", LEN_DIM, None)], mode)
        skw = O["script_kw"]
        field_ctor_setter(cx, st, r, st.RDScript, "RDScript", skw, O["script"],
                          [("time_step", TIME_DIM, None), ("t_max", TIME_DIM, None), ("sampling_interval", TIME_DIM, None)], mode)
    # ---- class 2: the remaining entry points -------------------------------------
    system, script, skw = O["system"], O["script"], O["script_kw"]
    S, n = len(desc["species"]), gen.ncells(desc["space"])
    ok, _ = cx.twin(2, lambda: st.RDScript(**dict(skw, t_sample=st.UnitArray([0.0, 1.0], "min"))), "RDScript(t_sample=UnitArray in min)")
    for k in range(3 if thorough else 2):
        wd = wrong_dim(r, TIME_DIM)
        ua = st.UnitArray([0.0, 1.0, 2.5], unit_text(r, wd))
        txt = "UnitArray([0, 1, 2.5], %r)" % str(ua.units)
        if ok:
            cx.judge(2, W2, "RDScript(t_sample=)", "RDScript(..., t_sample=%s)" % txt, lambda: st.RDScript(**dict(skw, t_sample=ua)), key=txt)
            cx.judge(2, W2, "RDScript.t_sample setter", "script.t_sample = %s" % txt, lambda: setattr(script, "t_sample", ua), key=txt,
                     state=lambda: deep(script))
        wq = wrong_dim(r, Q_DIM)
        ub = st.UnitArray([1.0] * (S * n), unit_text(r, wq))
        txt = "UnitArray([1.0]*%d, %r)" % (S * n, str(ub.units))
        ok2, _ = cx.twin(2, lambda: setattr(copy.deepcopy(system), "state", st.UnitArray([1.0] * (S * n), "nmol")), "system.state = UnitArray in nmol")
        if ok2:
            cx.judge(2, W2, "RDSystem.state setter", "system.state = %s" % txt, lambda: setattr(system, "state", ub), key=txt,
                     state=lambda: deep(system))
            cx.judge(2, W2, "RDSystem(state=)", "RDSystem(network, space, state=%s)" % txt,
                     lambda: st.RDSystem(O["network"], O["space"], state=ub, units_system=system.units_system), key=txt)
        sp, pos = r.randrange(S), r.randrange(n)
        ok3, _ = cx.twin(2, lambda: copy.deepcopy(system).set_state(sp, pos, right_value(r, st, Q_DIM)), "set_state(valid quantity)")
        if ok3:
            val, text = wrong_value(r, st, Q_DIM)
            cx.judge(2, W2, "RDSystem.set_state(value=)", "system.set_state(%d, %d, %s)" % (sp, pos, text),
                     lambda: system.set_state(sp, pos, val), key=text, state=lambda: deep(system))
    # conversions to another dimension
    for k in range(6 if thorough else 3):
        dim = r.choice(DIMPOOL)
        src = unit_text(r, dim)
        same = unit_text(r, dim)
        other = unit_text(r, wrong_dim(r, dim))
        uv, ua = st.UnitValue(r.uniform(0.5, 9.0), src), st.UnitArray([1.0, 2.0], src)
        forms = [("UnitValue(.., %r).convert(%r)", lambda u: uv.convert(u)),
                 ("UnitValue(.., %r).convert(Units(%r))", lambda u: uv.convert(st.Units(u))),
                 ("UnitValue(.., %r).convert(UnitValue(1, %r))", lambda u: uv.convert(st.UnitValue(1, u))),
                 ("convert_unitvalue(UnitValue(.., %r), %r)", lambda u: st.convert_unitvalue(uv, u)),
                 ("UnitArray(.., %r).convert(%r)", lambda u: ua.convert(u)),
                 ("UnitArray(.., %r).convert(Units(%r))", lambda u: ua.convert(st.Units(u))),
                 ("UnitArray(.., %r).convert(UnitValue(1, %r))", lambda u: ua.convert(st.UnitValue(1, u))),
                 ("UnitValue(UnitValue(.., %r), %r)", lambda u: st.UnitValue(uv, u)),
                 ("UnitValue(UnitValue(.., %r), %r, convert=False)", lambda u: st.UnitValue(uv, u, convert=False)),
                 ("UnitValue('1.5 %s', %r)", lambda u: st.UnitValue("1.5 " + src, u)),
                 ("UnitValue('1.5 %s', %r, convert=False)", lambda u: st.UnitValue("1.5 " + src, u, convert=False)),
                 ("UnitArray(UnitArray(.., %r), %r)", lambda u: st.UnitArray(ua, u)),
                 ("UnitArray(UnitArray(.., %r), %r, convert=False)", lambda u: st.UnitArray(ua, u, convert=False)),
                 ("UnitArray([UnitValue(.., %r)], %r)", lambda u: st.UnitArray([uv], u)),
                 ("UnitArray(.., %r).set_at(0, UnitValue(1, %r))", lambda u: copy.deepcopy(ua).set_at(0, st.UnitValue(1, u))),
                 ("UnitValue(.., %r) + UnitValue(1, %r)", lambda u: uv + st.UnitValue(1, u))]
        for text, f in forms:
            okc, _ = cx.twin(2, lambda: f(same), text % (src, same))
            if okc:
                cx.judge(2, "dimension/conversion-to-other-dimension-accepted", text.split("%")[0].strip("(.' ") or "convert",
                         text % (src, other), lambda: f(other), key=[text, src, other], state=lambda: (deep(uv), deep(ua)))
    # a sequence of items that each carry their own units: EVERY item is checked against the field's dimension, also an item
    # that follows valid ones written in the same units system (in any position, alone among bare numbers or not)
    for k in range(6 if thorough else 3):
        dim = r.choice(DIMPOOL)
        wd = wrong_dim(r, dim)
        s_it, s_arr = gen.mild_sys(r), gen.mild_sys(r)
        mk = lambda s3, d3: st.Units(st.UnitsSystem(**si.sys_dict(s3)), st.UnitsDimensions(*d3))
        nit = r.randint(2, 5)
        posb = r.randrange(1, nit)
        good_items = [st.UnitValue(r.uniform(0.5, 9.0), mk(s_it, dim)) if (i < posb or r.random() < 0.6) else r.uniform(0.5, 9.0) for i in range(nit)]
        bad_items = list(good_items)
        bad_items[posb] = st.UnitValue(r.uniform(0.5, 9.0), mk(s_it, wd))
        tgt = mk(s_arr, dim)
        text = "UnitArray([%s], %r)" % (", ".join(str(x) for x in bad_items), str(tgt))
        okc, _ = cx.twin(2, lambda: st.UnitArray(list(good_items), tgt), "UnitArray(items with their own units)")
        if okc:
            cx.judge(2, "dimension/conversion-to-other-dimension-accepted", "UnitArray(items)", text, lambda: st.UnitArray(list(bad_items), tgt),
                     key=text)
    ok4, _ = cx.twin(2, lambda: st.RDSystem(O["network"], O["space"], state=[st.UnitValue(1.0, "molecule")] * (S * n), units_system=system.units_system),
                     "RDSystem(state=[UnitValue, ...])")
    if ok4 and S * n >= 2:
        qsys = gen.mild_sys(r)
        mkq = lambda d3: st.Units(st.UnitsSystem(**si.sys_dict(qsys)), st.UnitsDimensions(*d3))
        items = [st.UnitValue(1.0, mkq(Q_DIM)) for _ in range(S * n)]
        items[r.randrange(1, S * n)] = st.UnitValue(3.0, mkq(wrong_dim(r, Q_DIM)))
        text = "[%s]" % ", ".join(str(x) for x in items[:6])
        cx.judge(2, W2, "RDSystem(state=)", "RDSystem(network, space, state=%s...)" % text,
                 lambda: st.RDSystem(O["network"], O["space"], state=list(items), units_system=system.units_system), key=text)
        cx.judge(2, W2, "RDSystem.state setter", "system.state = %s..." % text, lambda: setattr(system, "state", list(items)), key=text,
                 state=lambda: deep(system))
    if ok:
        tsys = gen.mild_sys(r)
        mkt = lambda d3: st.Units(st.UnitsSystem(**si.sys_dict(tsys)), st.UnitsDimensions(*d3))
        items = [st.UnitValue(0.0, mkt(TIME_DIM)), st.UnitValue(1.0, mkt(TIME_DIM)), st.UnitValue(2.0, mkt(wrong_dim(r, TIME_DIM)))]
        text = "[%s]" % ", ".join(str(x) for x in items)
        cx.judge(2, W2, "RDScript(t_sample=)", "RDScript(..., t_sample=%s)" % text, lambda: st.RDScript(**dict(skw, t_sample=list(items))), key=text)
    # ---- class 3: UnitsSystem, units_system arguments and setters, unit strings ---
    good = gen.mild_sys(r)
    okU, _ = cx.twin(3, lambda: st.UnitsSystem(**si.sys_dict(good)), "UnitsSystem(valid)")
    if okU:
        for slot in ("space", "time", "quantity"):
            syms = BAD_SYMBOLS + WRONG_KIND[slot]
            for sym in (syms if thorough else r.sample(syms, 3)):
                kw = dict(si.sys_dict(good), **{slot: sym})
                cx.judge(3, "unit-symbol/UnitsSystem-accepted", "UnitsSystem(%s=)" % slot, "UnitsSystem(%s=%r)" % (slot, sym),
                         lambda: st.UnitsSystem(**kw), key=[slot, sym])
                us = st.UnitsSystem(**si.sys_dict(good))
                cx.judge(3, "unit-symbol/UnitsSystem-accepted", "UnitsSystem.%s setter" % slot, "us.%s = %r" % (slot, sym),
                         lambda: setattr(us, slot, sym), key=[slot, sym, "attr"], state=lambda: deep(us))
                cx.judge(3, "unit-symbol/UnitsSystem-accepted", "UnitsSystem[%r] =" % slot, "us[%r] = %r" % (slot, sym),
                         lambda: us.__setitem__(slot, sym), key=[slot, sym, "item"], state=lambda: deep(us))
                cx.judge(3, "unit-symbol/units-dict-accepted", "unitssystem_from_dict", "unitssystem_from_dict({%r: %r})" % (slot, sym),
                         lambda: st.unitssystem_from_dict({slot: sym}), key=[slot, sym, "dict"])
    holders = [("Species", st.Species, P["species"][0]["kw"], O["network"].species[0]),
               ("RDNetwork", lambda **kw: b_network(st, P, **kw), {}, O["network"]),
               ("RDSystem", lambda **kw: b_system(st, P, network=O["network"], space=O["space"], **kw), {}, system),
               ("RDScript", st.RDScript, skw, script)]
    if P["reactions"]:
        holders.append(("Reaction", st.Reaction, P["reactions"][0]["kw"], O["network"].reactions[0]))
    if "grid_kw" in P:
        holders.append(("RDGridSpace", st.RDGridSpace, P["grid_kw"], O["space"]))
    else:
        holders.append(("RDGraphSpace", lambda **kw: b_space(st, P, **kw), {}, O["space"]))
        holders.append(("RDGraphSpaceNode", st.RDGraphSpaceNode, P["nodes"][0]["kw"], O["space"].nodes[0]))
        if P["edges"]:
            holders.append(("RDGraphSpaceEdge", st.RDGraphSpaceEdge, P["edges"][0]["kw"], O["space"].edges[0]))
    for name, ctor, kw, obj in holders:
        slot = r.choice(["space", "time", "quantity"])
        sym = r.choice(BAD_SYMBOLS + WRONG_KIND[slot])
        gd = {slot: dict(zip(("space", "time", "quantity"), gen.mild_sys(r)))[slot]}
        okd, _ = cx.twin(3, lambda: ctor(**dict(kw, units_system=dict(gd))), "%s(units_system=%r)" % (name, gd))
        if okd:
            cx.judge(3, "unit-symbol/units-dict-accepted", "%s(units_system=dict)" % name, "%s(..., units_system={%r: %r})" % (name, slot, sym),
                     lambda: ctor(**dict(kw, units_system={slot: sym})), key=[name, slot, sym])
        oks, _ = cx.twin(3, lambda: setattr(copy.deepcopy(obj), "units_system", dict(gd)), "%s.units_system = %r" % (name, gd))
        if oks:
            cx.judge(3, "unit-symbol/units-dict-accepted", "%s.units_system setter" % name, "%s.units_system = {%r: %r}" % (name, slot, sym),
                     lambda: setattr(obj, "units_system", {slot: sym}), key=[name, slot, sym, "set"], state=lambda: deep(obj))
    for k in range(8 if thorough else 3):
        dim = r.choice(DIMPOOL)
        bad = unit_text(r, dim, bad=r.choice(BAD_SYMBOLS))
        goodu = unit_text(r, dim)
        uv = st.UnitValue(2.0, goodu)
        forms = [("UnitValue(1.5, %r)", lambda u: st.UnitValue(1.5, u)), ("UnitValue('1.5 %s')", lambda u: st.UnitValue("1.5 " + u)),
                 ("UnitArray([1, 2], %r)", lambda u: st.UnitArray([1, 2], u)), ("Units(%r)", lambda u: st.Units(u)),
                 ("parse_units(%r)", lambda u: st.parse_units(u)), ("UnitValue(2, ..).convert(%r)", lambda u: uv.convert(u)),
                 ("unitarray_from_dict({'value': [1], 'units': %r})", lambda u: st.unitarray_from_dict({"value": [1.0], "units": u}))]
        for text, f in forms:
            okc, _ = cx.twin(3, lambda: f(goodu), text % goodu)
            if okc:
                cx.judge(3, "unit-symbol/unit-string-accepted", text.split("(")[0], text % bad, lambda: f(bad), key=[text, bad])
        cx.judge(3, "unit-symbol/unit-string-accepted", "UnitValue.units setter", "uv.units = %r" % bad, lambda: setattr(uv, "units", bad),
                 key=["uvset", bad], state=lambda: deep(uv))


def class45_objects(cx, st, r, desc, P, O, thorough):
    sp = desc["space"]
    ne = len(desc["envs"])
    S, n = len(desc["species"]), gen.ncells(sp)
    N = S * n
    net = O["network"]
    variants = [("default state and chemostats", {}), ("explicit state", {"state": [1.0] * N}),
                ("explicit chemostats", {"chemostats": [0] * N}),
                ("explicit state and chemostats", {"state": [1.0] * N, "chemostats": [0] * N})]
    us = O["system"].units_system
    bad_env = [ne, ne + 2, -1, -ne, -ne - 1]

    def what_env(b, vname):
        if b < 0:
            return "env-index/negative-wraps"
        return "env-index/beyond-list-explicit-state-and-chemostats" if vname == "explicit state and chemostats" else "env-index/beyond-list-accepted"
    if sp["type"] == "grid":
        gk = P["grid_kw"]
        okg, _ = cx.twin(4, lambda: st.RDGridSpace(**gk), "RDGridSpace(valid)")
        if okg:
            for c in ("w", "h", "d"):
                import numpy as _np
                for v in ([0, -1, -r.randint(2, 9), 0.0, 0.5, 0.999, -0.5, 1e-9, _np.float32(0.75), _np.int64(0)] if thorough
                          else [0, -r.randint(1, 9), r.choice([0.0, 0.5, 0.999, -0.5, 1e-9, _np.float32(0.75), _np.int64(0)])]):
                    kw = dict(gk, **{c: v})
                    kw["cell_env"] = 0
                    cx.judge(4, "grid-size/non-positive-accepted", "RDGridSpace(%s=)" % c, "RDGridSpace(%s=%r, ...)" % (c, v),
                             lambda: st.RDGridSpace(**kw), key=[c, v])
            env = list(sp["cell_env"])
            import numpy as np
            g = O["space"]
            for m, name in ((env[:-1], "one short"), (env + [env[-1]], "one long"), (env + env, "twice"), ([], "empty")):
                if len(m) == n:
                    continue
                for form, conv in (("list", list), ("tuple", tuple), ("ndarray", lambda x: np.array(x, dtype=int))):
                    mm = conv(m)
                    cx.judge(4, "cell-env/wrong-length-accepted", "RDGridSpace(cell_env=)", "RDGridSpace(%d,%d,%d, cell_env=<%s of length %d>)" %
                             (sp["w"], sp["h"], sp["d"], form, len(m)), lambda: st.RDGridSpace(**dict(gk, cell_env=mm)), key=[name, form])
                    cx.judge(4, "cell-env/wrong-length-accepted", "RDGridSpace.cell_env setter", "grid.cell_env = <%s of length %d> on %d cells" %
                             (form, len(m), n), lambda: setattr(g, "cell_env", mm), key=[name, form, "set"], state=lambda: deep(g))
        cells = list(range(n)) if (thorough or n <= 6) else sorted(set([0, n - 1] + r.sample(range(n), 4)))
        muts = [("cell_env[%d] = %d" % (i, b), b, with_index(sp["cell_env"], i, b)) for i in cells for b in bad_env]
        muts += [("cell_env = %d (scalar)" % b, b, b) for b in (ne, -1)]
        build = lambda m: st.RDGridSpace(**dict(P["grid_kw"], cell_env=m))
        site = "RDSystem(space=grid)"
    else:
        nodes = P["nodes"]
        muts = [("node %d: environment = %d" % (i, b), b, (i, b)) for i in range(len(nodes)) for b in bad_env]

        def build(m):
            i, b = m
            nd = [st.RDGraphSpaceNode(**(dict(x["kw"], environment=b) if j == i else x["kw"])) for j, x in enumerate(nodes)]
            return b_space(st, P, nodes=nd)
        site = "RDSystem(space=graph)"
    for vname, vkw in variants:
        okv, _ = cx.twin(4, lambda: st.RDSystem(net, O["space"], units_system=us, **vkw), "RDSystem(valid space, %s)" % vname)
        if not okv:
            continue
        for text, b, m in muts:
            try:
                space = build(m)
            except Exception:
                cx.cnt("c4_applied")
                cx.cnt("c4_rejected")       # the space constructor itself refused the index
                continue
            cx.judge(4, what_env(b, vname), site, "RDSystem(network with %d environments, space with %s, %s)" % (ne, text, vname),
                     lambda: st.RDSystem(net, space, units_system=us, **vkw), key=[text, vname], variant=vname)
    # ---- class 5 ---------------------------------------------------------------------
    pick = (lambda xs: list(xs)) if thorough else (lambda xs: r.sample(list(xs), 2))
    if sp["type"] == "grid":
        g = O["space"]
        for ax in ("x", "y", "z"):
            for v in pick(BAD_BC):
                bc = dict(sp["bc"], **{ax: v})
                cx.judge(5, "enum/boundary-condition-value-accepted", "RDGridSpace(boundary_conditions=)", "RDGridSpace(..., boundary_conditions=%r)" % bc,
                         lambda: st.RDGridSpace(**dict(P["grid_kw"], boundary_conditions=bc)), key=[ax, v])
                cx.judge(5, "enum/boundary-condition-value-accepted", "RDGridSpace.set_boundary_conditions", "grid.set_boundary_conditions({%r: %r}) on %r" %
                         (ax, v, sp["bc"]), lambda: g.set_boundary_conditions({ax: v}), key=[ax, v, "set"], state=lambda: deep(g), grid_bc=dict(sp["bc"]),
                         sc_tag="set_boundary_conditions-resets-before-validating")
        for ax in pick(BAD_AXIS):
            v = r.choice(["reflecting", "periodical"])
            cx.judge(5, "enum/boundary-condition-axis-accepted", "RDGridSpace(boundary_conditions=)", "RDGridSpace(..., boundary_conditions={%r: %r})" % (ax, v),
                     lambda: st.RDGridSpace(**dict(P["grid_kw"], boundary_conditions={ax: v})), key=[ax, v])
            cx.judge(5, "enum/boundary-condition-axis-accepted", "RDGridSpace.set_boundary_conditions", "grid.set_boundary_conditions({%r: %r}) on %r" %
                     (ax, v, sp["bc"]), lambda: g.set_boundary_conditions({ax: v}), key=[ax, v, "set"], state=lambda: deep(g), grid_bc=dict(sp["bc"]),
                         sc_tag="set_boundary_conditions-resets-before-validating")
    skw, script = O["script_kw"], O["script"]
    for v in pick(BAD_POLICY + [1]):
        cx.judge(5, "enum/sampling-policy-accepted", "RDScript(sampling_policy=)", "RDScript(..., sampling_policy=%r)" % (v,),
                 lambda: st.RDScript(**dict(skw, sampling_policy=v)), key=[v])
        cx.judge(5, "enum/sampling-policy-accepted", "RDScript.sampling_policy setter", "script.sampling_policy = %r" % (v,),
                 lambda: setattr(script, "sampling_policy", v), key=[v, "set"], state=lambda: deep(script))
    for v in pick(BAD_ISP + [0]):
        cx.judge(5, "enum/init-state-processing-accepted", "RDScript(init_state_processing=)", "RDScript(..., init_state_processing=%r)" % (v,),
                 lambda: st.RDScript(**dict(skw, init_state_processing=v)), key=[v])
        cx.judge(5, "enum/init-state-processing-accepted", "RDScript.init_state_processing setter", "script.init_state_processing = %r" % (v,),
                 lambda: setattr(script, "init_state_processing", v), key=[v, "set"], state=lambda: deep(script))
    envs = list(desc["envs"])
    lists = [("environments/empty-list-accepted", [])] + \
        [("environments/default-name-accepted", envs[:i] + [gen.fresh("default") if i % 2 else "default"] + envs[i:]) for i in range(len(envs) + 1)] + \
        [("environments/default-name-accepted", with_index(envs, i, gen.fresh("default") if i % 2 == 0 else "default")) for i in range(len(envs))]
    for what, m in lists:
        for form, conv in (("list", list), ("tuple", tuple)):
            mm = conv(m)
            cx.judge(5, what, "RDNetwork(environments=)", "RDNetwork(species, reactions, environments=%r)" % (mm,),
                     lambda: b_network(st, P, environments=mm), key=[m, form])
            cx.judge(5, what, "RDNetwork.environments setter", "network.environments = %r" % (mm,),
                     lambda: setattr(net, "environments", mm), key=[m, form, "set"], state=lambda: deep(net))
    # names that are NOT the reserved one but close to it (a blank, a newline, another case): whatever the package does with them,
    # the reserved name never ends up among the network's environments - either the list is refused, or the network holds
    # the names as they were given
    for near_ in pick([" default", "default ", "default\n", "\tdefault", "Default", "DEFAULT", "defaults"]):
        i_ = r.randrange(len(envs) + 1)
        m_ = envs[:i_] + [gen.fresh(near_)] + envs[i_:]
        holds_names = lambda v_: [str(x) for x in v_.environments] == [str(x) for x in m_]
        cx.judge(5, "environments/default-name-accepted", "RDNetwork(environments=)", "RDNetwork(species, reactions, environments=%r)" % (m_,),
                 lambda: b_network(st, P, environments=list(m_)), key=[m_, "near"], ok_return=holds_names, near_miss_of_reserved_name=True)
    i = r.randrange(S)
    dup = [st.Species(**s["kw"]) for s in P["species"]] + [st.Species(**P["species"][i]["kw"])]
    cx.judge(5, "network/duplicate-species-label-accepted", "RDNetwork(species=)", "RDNetwork(species with label %r twice, ...)" % desc["species"][i]["label"],
             lambda: b_network(st, P, species=dup), key=["dup", i])
    lab = "Q" + "".join(s["label"] for s in desc["species"])
    extra = [st.Reaction(**x["kw"]) for x in P["reactions"]] + [st.Reaction("%s -> %s" % (desc["species"][i]["label"], lab), kf=0)]
    cx.judge(5, "network/reaction-with-undefined-species-accepted", "RDNetwork(reactions=)", "RDNetwork(..., reaction '%s -> %s')" % (desc["species"][i]["label"], lab),
             lambda: b_network(st, P, reactions=extra), key=["undef", i])


def with_index(lst, i, v):
    m = list(lst)
    m[i] = v
    return m


def valid_cgmap(r, cell_env):
    """a valid index map: cells grouped within their environment, some cells excluded (-1), labels 0..G-1 all used"""
    n = len(cell_env)
    keep = [i for i in range(n) if r.random() > 0.15]
    if not keep:
        keep = [r.randrange(n)]
    groups = []
    for e in sorted(set(cell_env[i] for i in keep)):
        cells = [i for i in keep if cell_env[i] == e]
        r.shuffle(cells)
        k = r.randint(1, min(3, len(cells)))
        parts = [cells[j::k] for j in range(k)]
        groups += [p for p in parts if p]
    r.shuffle(groups)
    im = [-1] * n
    for gi, cells in enumerate(groups):
        for i in cells:
            im[i] = gi
    return im


def compact(im):
    labels = sorted(set(v for v in im if v >= 0))
    re = {v: k for k, v in enumerate(labels)}
    return [re[v] if v >= 0 else -1 for v in im]


def class8(cx, st, r, desc, P, thorough):
    from strengths import coarsegrain as cg
    sp = desc["space"]
    if sp["type"] != "grid":
        return
    grid = st.RDGridSpace(**dict(P["grid_kw"], boundary_conditions={}))     # coarse-graining wants reflecting boundaries
    system = b_system(st, P, space=grid)
    env = list(sp["cell_env"])
    n = len(env)
    im = valid_cgmap(r, env)
    G = max(im) + 1
    entry = {"check_index_map_validity": lambda m: cg.check_index_map_validity(m, grid),
             "coarsegrain_grid": lambda m: cg.coarsegrain_grid(grid, m),
             "coarsegrain_system": lambda m: cg.coarsegrain_system(system, m)}
    # the same rules hold whichever public door the map comes through
    from vf import engines as _eng
    _eng.install()
    entry["simulate(cgmap=)"] = lambda m: st.simulate(system, [0, 1e-4], engine=_eng.get("euler"), time_step=1e-4, cgmap=m)
    entry["simulate_script(cgmap=)"] = lambda m: st.simulate_script(st.RDScript(system, [0, 1e-4], time_step=1e-4), _eng.get("euler"), cgmap=m)
    usable = {}
    for name, f in entry.items():
        ok, _ = cx.twin(8, lambda: f(list(im)), "%s(valid map %r)" % (name, im))
        if ok:
            usable[name] = f
    muts = []
    for m, nm in ((im[:-1], "one short"), (im + [0], "one long"), (im + im, "twice"), ([], "empty")):
        if len(m) != n:
            muts.append(("cgmap/wrong-length-accepted", m, "length %d for %d cells" % (len(m), n)))
    for i in range(n):
        muts.append(("cgmap/value-below-minus-one-accepted", with_index(im, i, r.choice([-2, -2, -r.randint(3, 9)])), "entry %d < -1" % i))
    for k in range(G):
        muts.append(("cgmap/missing-index-accepted", [v + 1 if v >= k else v for v in im], "index %d unused, maximum %d" % (k, G)))
    muts.append(("cgmap/all-excluded-accepted", [-1] * n, "every entry -1"))
    used = [i for i in range(n) if im[i] >= 0]
    pairs = [(i, j) for i in used for j in used if env[i] != env[j]]
    if not thorough and len(pairs) > 12:
        pairs = r.sample(pairs, 12)
    for i, j in pairs:
        m = compact(with_index(im, i, im[j]))
        muts.append(("cgmap/mixed-environments-accepted", m, "cell %d (environment %d) grouped with cell %d (environment %d)" % (i, env[i], j, env[j])))
    for i in range(n):
        v = r.choice([im[i] + 0.5, im[i] + 0.25, float(im[i]), float(im[i]), str(im[i]), None, [im[i]]])
        muts.append(("cgmap/non-integer-entry-accepted", with_index(im, i, v), "entry %d = %r" % (i, v)))
    for what, m, text in muts:
        for name, f in usable.items():
            forms = [("list", list(m))] + ([("tuple", tuple(m))] if thorough or r.random() < 0.2 else [])
            for form, mm in forms:
                cx.judge(8, what, name, "%s(%s) with index_map = %r (%s; valid twin %r, cell_env %r)" % (name, "grid" if name != "coarsegrain_system" else "system",
                                                                                                            mm, text, im, env),
                         lambda: f(mm), key=[what, name, form, m], state=(lambda: deep(system)) if name != "coarsegrain_grid" and name != "check_index_map_validity" else (lambda: deep(grid)))


# ---------------------------------------------------------------------------
# classes 6 and 7: accessors with positions outside the space / unknown species

def neighbour_pair(sp):
    """a pair of distinct cells that exchange matter (my own geometry), or None"""
    if sp["type"] == "grid":
        if sp["w"] > 1:
            return 0, 1
        if sp["h"] > 1:
            return 0, sp["w"]
        if sp["d"] > 1:
            return 0, sp["w"] * sp["h"]
        return None
    for e in sp["edges"]:
        if e["i"] != e["j"]:
            return e["i"], e["j"]
    return None


def bad_positions(r, sp, S, np, thorough):
    """[(form, position)] outside the space"""
    n = gen.ncells(sp)
    top = max(2 * n, S * n) + 3
    ints = [k for k in range(-n - 2, top) if not (0 <= k < n)]
    out = [("int", k) for k in ints]
    alt = sorted(set([-1, -n, -n - 1, n, n + 1, S * n - 1, S * n] + r.sample(ints, min(len(ints), 6 if thorough else 3))) - set(range(n)))
    for k in alt:
        out += [("np.int64", np.int64(k)), ("np.int32", np.int32(k)), ("integral float", float(k))]
    if sp["type"] == "grid":
        w, h, d = sp["w"], sp["h"], sp["d"]
        shell = [(x, y, z) for x in range(-1, w + 1) for y in range(-1, h + 1) for z in range(-1, d + 1)
                 if not (0 <= x < w and 0 <= y < h and 0 <= z < d)]
        far = [(n, 0, 0), (0, n, 0), (0, 0, n), (-w, 0, 0), (0, -h, 0), (0, 0, -d), (w * h * d, h, d), (-1, -1, -1)]
        for c in shell + [c for c in far if c not in shell]:
            out += [("tuple", tuple(c)), ("list", list(c)), ("xyz object", XYZ(*c))]
        for c in r.sample(shell, min(len(shell), 12 if thorough else 5)):
            out += [("ndarray", np.array(c)), ("tuple of np.int64", tuple(np.int64(v) for v in c)), ("tuple of integral floats", tuple(float(v) for v in c))]
    else:
        for c in [(n, 0, 0), (n + 1, 0, 0), (-1, 0, 0), (2 * n, 0, 0)]:
            out += [("tuple", tuple(c)), ("list", list(c)), ("xyz object", XYZ(*c))]
    return out


def entry_of(v, offset, size):
    try:
        k = float(v) - offset
    except Exception:
        return None
    return int(k) if k == int(k) and 0 <= k < size else None


class Accessors:
    """the systems under the sweeps: `system` (as built), `c` a tagged deep copy (every entry distinguishable), `tr` a
    hand-built trajectory with tagged data"""

    def __init__(self, st, np, desc, system, r):
        self.st, self.np, self.desc, self.system = st, np, desc, system
        S, n = len(desc["species"]), gen.ncells(desc["space"])
        self.S, self.n = S, n
        self.c = copy.deepcopy(system)
        self.tags = np.arange(S * n, dtype=float) + 1.25
        self.ctags = np.arange(S * n, dtype=int) + 2
        self.c.state.value[:] = self.tags
        self.c.chemostats[:] = self.ctags
        if self.c.state.value.tobytes() != self.tags.tobytes() or system.state.value.tobytes() == self.tags.tobytes():
            raise RuntimeError("harness: tagging the copy failed")
        self.ns = 3
        self.tr = st.RDTrajectory(data=st.UnitArray(np.arange(self.ns * S * n, dtype=float) + 0.75, "molecule"),
                                  t_sample=st.UnitArray([0.0, 1.0, 2.5], "s"), system=system)
        self.labels = [s["label"] for s in desc["species"]]
        self.rlabels = [x.get("label") for x in desc["reactions"]]
        self.pair = neighbour_pair(desc["space"])

    def restore(self):
        self.c.state.value[:] = self.tags
        self.c.chemostats[:] = self.ctags

    def species_forms(self, s):
        return [("label", self.labels[s]), ("index", s), ("object", self.system.network.species[s]), ("np.int64", self.np.int64(s))]

    def reaction_forms(self, j):
        out = [("index", j), ("np.int64", self.np.int64(j))]
        if self.rlabels[j]:                       # an unlabelled Reaction object cannot be looked up (documented)
            out += [("label", self.rlabels[j]), ("object", self.system.network.reactions[j])]
        return out


def sweep_positions(cx, A, r, thorough):
    """class 6"""
    from strengths import kinetics
    st, np, desc, system, c, tr = A.st, A.np, A.desc, A.system, A.c, A.tr
    sp = desc["space"]
    S, n = A.S, A.n
    G = system.space
    grid = sp["type"] == "grid"
    valid = r.randrange(n)
    ok_pos = valid
    spv = lambda: r.choice(A.species_forms(r.randrange(S)))[1]
    rxn = (lambda: r.choice(A.reaction_forms(r.randrange(len(desc["reactions"]))))[1]) if desc["reactions"] else None
    calls = [("space.get_cell_index", None, lambda p: G.get_cell_index(p)),
             ("space.get_cell_env", None, lambda p: G.get_cell_env(p)),
             ("space.get_neighbors", None, lambda p: G.get_neighbors(p)),
             ("space.are_neighbors(pos, valid)", None, lambda p: G.are_neighbors(p, ok_pos)),
             ("space.are_neighbors(valid, pos)", None, lambda p: G.are_neighbors(ok_pos, p)),
             ("space.get_cell_vol", None, lambda p: G.get_cell_vol(p)),
             ("RDSystem.get_cell_index", None, lambda p: c.get_cell_index(p)),
             ("RDSystem.get_state_index", "c", lambda p: c.get_state_index(spv(), p)),
             ("RDSystem.get_state", "c", lambda p: c.get_state(spv(), p)),
             ("RDSystem.get_chemostat", "c", lambda p: c.get_chemostat(spv(), p)),
             ("RDSystem.set_state", "c", lambda p: c.set_state(spv(), p, 777.5)),
             ("RDSystem.set_chemostat", "c", lambda p: c.set_chemostat(spv(), p, 1)),
             ("kinetics.compute_dspeciesdt", None, lambda p: kinetics.compute_dspeciesdt(system, spv(), p)),
             ("RDTrajectory.get_trajectory", None, lambda p: tr.get_trajectory(spv(), p)),
             ("RDTrajectory.get_trajectory_point", None, lambda p: tr.get_trajectory_point(spv(), r.randrange(A.ns), p))]
    if grid:
        calls += [("space.get_cell_coordinates", None, lambda p: G.get_cell_coordinates(p)),
                  ("space.get_cell_coordinates(return_type=)", None, lambda p: G.get_cell_coordinates(p, XYZ))]
    if rxn is not None:
        calls += [("RDSystem.apply_reaction", "c", lambda p: c.apply_reaction(rxn(), position=p)),
                  ("RDSystem.apply_reaction(update=True)", "c", lambda p: c.apply_reaction(rxn(), position=p, n=3, update=True)),
                  ("kinetics.compute_reaction_rates", None, lambda p: kinetics.compute_reaction_rates(system, rxn(), p))]
    twin_pos = {"_": valid}
    if A.pair is not None:
        i, j = A.pair
        calls += [("kinetics.compute_diffusion_rates(src=)", ("pair", j), lambda p: kinetics.compute_diffusion_rates(system, spv(), p, j)),
                  ("kinetics.compute_diffusion_rates(dst=)", ("pair", i), lambda p: kinetics.compute_diffusion_rates(system, spv(), i, p))]
    usable = []
    for name, kind, f in calls:
        tp = valid
        if isinstance(kind, tuple):
            tp = A.pair[0] if kind[1] == A.pair[1] else A.pair[1]
        if name.startswith("space.are_neighbors"):
            tp = (valid + 1) % n if n > 1 else valid
        ok, _ = cx.twin(6, lambda: f(tp), "%s(valid position %d)" % (name, tp))
        A.restore()
        if ok:
            usable.append((name, kind, f))
    okb, wb = cx.twin(6, lambda: G.is_within_bounds(valid), "is_within_bounds(valid)") if grid else (False, None)
    before = (deep(system), deep(tr))
    for form, pos in bad_positions(r, sp, S, np, thorough):
        ptxt = short(pos, 40)
        cx.keys.setdefault(6, []).append(chash([form, ptxt])[:10])
        for name, kind, f in usable:
            what = "position/out-of-range-accepted"
            if name == "space.get_cell_vol" and grid:
                what = "position/grid-get_cell_vol-ignores-position"
            snap = light(c)
            res = cx.judge(6, what, name, "%s with position %s (%s) on %s" % (name, ptxt, form, space_text(sp)), lambda: f(pos),
                           key=False, state=(lambda: light(c)) if kind == "c" else None, form=form, position=ptxt,
                           space=space_text(sp), nspecies=S)
            if kind == "c" and light(c) != snap:
                ch = [int(k) for k in np.nonzero(c.state.value != A.tags)[0][:4]]
                cc = [int(k) for k in np.nonzero(c.chemostats != A.ctags)[0][:4]]
                cx.add(6, "position/other-entry-written", name, repro="%s with position %s (%s) on %s" % (name, ptxt, form, space_text(sp)),
                       state_entries_changed=ch, chemostat_entries_changed=cc, raised=bool(res), form=form)
                A.restore()
        if grid and okb:
            cx.judge(6, "position/out-of-range-accepted", "space.is_within_bounds", "is_within_bounds(%s) (%s) on %s" % (ptxt, form, space_text(sp)),
                     lambda: G.is_within_bounds(pos), key=False, ok_return=lambda v: type(v).__name__ in ("bool", "bool_") and not v,
                     form=form, position=ptxt)
    cx.cnt("c6_whole_object_checks")
    if (deep(system), deep(tr)) != before:
        cx.add(6, "state-changed/position-sweep", "system / trajectory", repro="after the sweep of rejected positions on %s" % space_text(sp))


def space_text(sp):
    if sp["type"] == "grid":
        return "grid %dx%dx%d %s" % (sp["w"], sp["h"], sp["d"], "".join("p" if sp["bc"].get(a) == "periodical" else "r" for a in "xyz"))
    return "graph of %d nodes, %d edges" % (len(sp["nodes"]), len(sp["edges"]))


def bad_species(A, r):
    st, np = A.st, A.np
    S, n = A.S, A.n
    labels = A.labels
    fresh = "Q" + "".join(labels)
    out = [("unknown label", fresh), ("unknown label", labels[0] + "x"), ("unknown label", "")]
    for l in labels:
        for v in (l.lower(), l.upper()):
            if v not in labels:
                out.append(("label in another case", v))
                break
    for k in sorted({S, S + 1, S * n, S * n + 1, -1, -S, -S - 1}):
        out.append(("index out of range", k))
    for k in (S, -1, -S):
        out += [("np.int64 out of range", np.int64(k)), ("np.int32 out of range", np.int32(k)), ("integral float out of range", float(k))]
    out.append(("Species object not in the network", st.Species(fresh)))
    out.append(("Species object not in the network", st.Species(fresh + "2", D=1.5, density="2 µM", chstt=True)))
    return out


def sweep_species(cx, A, r, thorough):
    """class 7"""
    from strengths import kinetics
    st, np, desc, system, c, tr = A.st, A.np, A.desc, A.system, A.c, A.tr
    S, n = A.S, A.n
    sp = desc["space"]
    net = system.network
    pos = lambda: r.randrange(n)
    calls = [("RDSystem.get_state_index", "c", lambda s: c.get_state_index(s, pos())),
             ("RDSystem.get_state", "c", lambda s: c.get_state(s, pos())),
             ("RDSystem.get_chemostat", "c", lambda s: c.get_chemostat(s, pos())),
             ("RDSystem.set_state", "c", lambda s: c.set_state(s, pos(), 777.5)),
             ("RDSystem.set_chemostat", "c", lambda s: c.set_chemostat(s, pos(), 1)),
             ("kinetics.compute_dspeciesdt", None, lambda s: kinetics.compute_dspeciesdt(system, s, pos())),
             ("RDTrajectory.get_trajectory", None, lambda s: tr.get_trajectory(s, pos())),
             ("RDTrajectory.get_trajectory(merge=True)", None, lambda s: tr.get_trajectory(s, pos(), merge=True)),
             ("RDTrajectory.get_state", None, lambda s: tr.get_state(s, r.randrange(A.ns))),
             ("RDTrajectory.get_trajectory_point", None, lambda s: tr.get_trajectory_point(s, r.randrange(A.ns), pos()))]
    if A.pair is not None:
        i, j = A.pair
        calls.append(("kinetics.compute_diffusion_rates", None, lambda s: kinetics.compute_diffusion_rates(system, s, i, j)))
    usable = []
    for name, kind, f in calls:
        ok, _ = cx.twin(7, lambda: f(r.choice(A.species_forms(r.randrange(S)))[1]), name + "(valid species)")
        A.restore()
        if ok:
            usable.append((name, kind, f))
    before = (deep(system), deep(tr))
    for form, s in bad_species(A, r):
        stxt = short(s.label if type(s).__name__ == "Species" else s, 30)
        cx.keys.setdefault(7, []).append(chash([form, stxt])[:10])
        for name, kind, f in usable:
            snap = light(c)
            res = cx.judge(7, "species/unknown-species-accepted", name, "%s with species %s (%s); the network has %r" % (name, stxt, form, A.labels),
                           lambda: f(s), key=False, state=(lambda: light(c)) if kind == "c" else None, form=form, species=stxt,
                           nspecies=S, ncells=n)
            if kind == "c" and light(c) != snap:
                ch = [int(k) for k in np.nonzero(c.state.value != A.tags)[0][:4]]
                cc = [int(k) for k in np.nonzero(c.chemostats != A.ctags)[0][:4]]
                cx.add(7, "species/other-entry-written", name, repro="%s with species %s (%s)" % (name, stxt, form),
                       state_entries_changed=ch, chemostat_entries_changed=cc, raised=bool(res), form=form)
                A.restore()
        cx.judge(7, "species/unknown-species-accepted", "RDNetwork.get_species_index", "network.get_species_index(%s) (%s)" % (stxt, form),
                 lambda: net.get_species_index(s), key=False, ok_return=lambda v: v is None, form=form)
    # a reaction handed over as an object that names a species the network does not have (apply_reaction resolves its argument
    # against the network: an unknown label, or a species outside it, is an unknown species all the same)
    for eq in ("%s -> Zq9" % A.labels[0], "%s + Zq9 -> %s" % (A.labels[0], A.labels[-1]), "Zq9 -> "):
        snap = light(c)
        cx.judge(7, "species/unknown-species-accepted", "RDSystem.apply_reaction", "system.apply_reaction(Reaction(%r)); the network has %r" % (eq, A.labels),
                 lambda: c.apply_reaction(st.Reaction(eq), position=0, update=True), key=["apply_reaction object", eq], state=lambda: light(c))
        if light(c) != snap:
            A.restore()
    if (deep(system), deep(tr)) != before:
        cx.add(7, "state-changed/species-sweep", "system / trajectory", repro="after the sweep of unknown species")


# ---------------------------------------------------------------------------
# cases

def gen_pos(case):
    """model for the position sweep: the space is fixed by the case (grid shape x boundary mix, or graph size)"""
    sd = case["seed"]
    if case["space"] == "grid":
        w, h, d, bci = case["w"], case["h"], case["d"], case["bc"]
        r = gen.rng_for(sd, "C20pos", w, h, d, bci)
    else:
        r = gen.rng_for(sd, "C20posg", case["n"], case["variant"])
    net = gen.rand_network(r, {"nspecies": (2, 3), "nenv": (1, 3), "nreactions": (1, 2), "chstt": 0.3})
    hh = net["h"]
    ne = len(net["envs"])
    if case["space"] == "grid":
        n = w * h * d
        space = {"type": "grid", "w": w, "h": h, "d": d, "cell_env": [r.randrange(ne) for _ in range(n)],
                 "cell_vol": hh ** 3 * r.uniform(0.5, 2.0), "bc": dict(gen.BCS[bci])}
    else:
        space = gen.rand_graph(r, ne, hh, nodes=(case["n"], case["n"]), simple=case["variant"] % 2 == 0, p_edge=0.6)
    N = gen.ncells(space) * len(net["species"])
    return {"envs": net["envs"], "species": net["species"], "reactions": net["reactions"], "space": space,
            "state": [r.uniform(0, 200) for _ in range(N)], "chemostats": [int(r.random() < 0.3) for _ in range(N)] if r.random() < 0.5 else None,
            "h": hh}


def run_case(case):
    use_repo()
    import numpy as np
    import strengths as st
    cx = Cx(case)
    thorough = case.get("tier") == "thorough"
    sd, kind = case["seed"], case["kind"]
    if kind == "model":
        desc = gen_model(sd, case["idx"], "grid" if case["idx"] % 2 == 0 else "graph")
        r = gen.rng_for(sd, "C20r", case["idx"])
    else:
        desc = gen_pos(case)
        r = gen.rng_for(sd, "C20pr", canon_case(case))
    sp = desc["space"]
    S, n = len(desc["species"]), gen.ncells(sp)
    cx.model = chash(desc)
    cx.nontrivial = bool(S >= 2 or n >= 2)
    info = {"kind": kind, "space": space_text(sp), "nspecies": S, "ncells": n, "nreactions": len(desc["reactions"]),
            "envs": desc["envs"], "explicit_state": desc["state"] is not None, "explicit_chemostats": desc["chemostats"] is not None}
    try:
        rd = gen.Rendering(r)
        P = make_plan(desc, rd, st)
        O = {"network": b_network(st, P), "space": b_space(st, P)}
        O["system"] = b_system(st, P, network=O["network"], space=O["space"])
        O["script_kw"] = script_kw(st, O["system"], r)
        O["script"] = st.RDScript(**O["script_kw"])
    except Exception as e:
        cx.cnt("valid_models_rejected")
        cx.twin_errors.append("valid model through constructors: " + err(e))
        return result(cx, info)
    cx.cnt("valid_models_accepted")
    if kind == "model":
        sdict = script_dict(desc, gen.Rendering(r))
        DF = DictForm(cx, st, desc, sdict)
        DF.class1(r, thorough)
        DF.class2(r)
        DF.class3(r, thorough)
        DF.class4(r, thorough)
        DF.class5(r, thorough)
        class23_objects(cx, st, r, desc, P, O, thorough)
        class45_objects(cx, st, r, desc, P, O, thorough)
        class8(cx, st, r, desc, P, thorough)
        cx.cnt("dictionary_levels", len(DF.levels))
    A = Accessors(st, np, desc, O["system"], r)
    sweep_species(cx, A, r, thorough)
    if kind == "pos" or sp["type"] == "graph" or thorough or case["idx"] % 4 == 0:
        sweep_positions(cx, A, r, thorough)
    return result(cx, info)


def canon_case(case):
    return json.dumps({k: case[k] for k in sorted(case) if k not in ("tier",)}, sort_keys=True)


def result(cx, info):
    return {"model": cx.model, "nontrivial": cx.nontrivial, "keys": {str(k): v for k, v in cx.keys.items()}, "counts": cx.counts,
            "bad": cx.bad, "samples": {str(k): dict(v, model=info) for k, v in cx.samples.items()}, "twin_errors": cx.twin_errors,
            "info": info}


def replay(path):
    w = json.load(open(path))
    case = w["witness"]["case"]
    res = run_case(case)
    print(json.dumps({"bad": res["bad"], "counts": res["counts"], "twin_errors": res["twin_errors"], "info": res["info"]},
                     indent=1, default=str, ensure_ascii=False))
    return 1 if res["bad"] else 0


NOT_JUDGED = [
    "non-integral floats as positions / species indices / grid sizes (the code documents int(...) casts) - except grid sizes whose cast is not positive (0.5, -0.5 ...): a grid without cells, judged",
    "booleans as indices; None as a species (type error, not an 'unknown species')",
    "numpy integers inside a coarse-graining map (the valid twin is refused; floats, integral or not, ARE judged: the documented rule is 'only integers')",
    "unknown environment label inside a per-environment dictionary (density / D / k / chstt): silently unused, not in the statement",
    "comma-joined environment keys 'a, b', surrounding whitespace, the 'um' -> 'µm' replacements: documented features",
    "init_state_processing = 'floor': named by the RDScript docstring although the setter refuses it",
    "keys the documentation names but the readers refuse (reaction 'environments', system 'chstt_map', 'stoechiometry')",
    "a units string other than 'default' / 'inherit'; a space 'type' other than grid / graph (refused today; not a class of the statement)",
    "graph edges whose endpoint is not a node, duplicated edges (RDGraphSpace.check() is never called): a graph-structure rule, "
    "not a 'cell position' given to an accessor; not generated",
    "state / chemostat arrays of the wrong length; negative or too large SAMPLE indices of trajectory accessors; duplicated environment names",
    "RDTrajectory.get_trajectory(merge=True) with a position outside the space (documented as ignored)",
    "dimensionless strings ('5') in dimensioned fields",
]


def main():
    if len(sys.argv) > 2 and sys.argv[1] == "--replay":
        return replay(sys.argv[2])
    thorough = tier() == "thorough"
    skip = skip_patterns()
    run = Run("C20",
              rule="mutation operators on valid generated models (vf.gen.rand_system: 1-4 species, 0-3 reactions, 1-3 environments, grids up to "
                   "3x3x3 / graphs of 1-6 nodes, explicit or default state and chemostats; every nesting level in its own unit system; "
                   "constructor form and dictionary form with random aliases). Classes 1-5 and 8: every site of every model (environment "
                   "indices: constructor form every cell of grids up to 6 cells, else 6 cells; dictionary form 3 cells in quick). Class 6: every linear index in [-n-2, max(2n, S n)+2] "
                   "outside [0, n) (int; numpy ints / integral floats for a sample) and every coordinate triple of the box grown by one step "
                   "(tuple, list, object; ndarray / numpy / float triples for a sample) on %s grid shapes 1..4^3 x boundary mix and graphs of "
                   "1-9 nodes, through every accessor. Class 7: unknown labels, out-of-range indices (int, numpy, integral float), foreign "
                   "Species objects through every accessor. A case is one mutated input (class 6 / 7: one invalid position / species, all "
                   "accessors); distinct by hash of (model, operator, site, value); it counts only when its valid twin was accepted; "
                   "non-trivial: the model has >= 2 species or >= 2 cells." % ("all 512" if thorough else "64 (every shape, one seeded mix)"),
              assumptions=["'rejected' = any exception; is_within_bounds returning False and get_species_index returning None are rejections "
                           "(documented return values)",
                           "'point of use' of an environment index is the construction of the RDSystem (first place where map and list meet)",
                           "key tables / mandatory keys are my transcription of json_and_dict_doc.rst and the readers",
                           "object state = deep snapshot of the instance dictionary (arrays and floats bit-exact)",
                           "not judged: " + "; ".join(NOT_JUDGED),
                           "skipped families this run (VERIF_C20_SKIP): " + (", ".join(skip) or "none")])
    run.max_samples = 12
    for k in range(1, 9):
        run.require("c%d_applied" % k)
    sd = seed()
    n_models = 1600 if thorough else 160
    cases = [{"kind": "model", "seed": sd, "idx": i, "tier": tier()} for i in range(n_models)]
    rs = gen.rng_for(sd, "C20shapes")
    pos = []
    for w in range(1, 5):
        for h in range(1, 5):
            for d in range(1, 5):
                for bci in (range(8) if thorough else [rs.randrange(8)]):
                    pos.append({"kind": "pos", "space": "grid", "seed": sd, "w": w, "h": h, "d": d, "bc": bci, "tier": tier()})
    pos.sort(key=lambda c: -(c["w"] * c["h"] * c["d"]))
    for nn in range(1, 10):
        for variant in (range(6) if thorough else range(2)):
            pos.append({"kind": "pos", "space": "graph", "seed": sd, "n": nn, "variant": variant, "tier": tier()})
    cases = pos + cases
    res = pmap("vf.checks.c20:run_case", cases, cpu_budget=600 if thorough else 240, share_size=8 if thorough else 2)
    shown = set()
    twin_errors = []
    grids_done = 0
    for c, r_ in zip(cases, res):
        cc = {k: v for k, v in c.items()}
        if r_["status"] != "ok":
            if r_["status"] == "exception":
                run.violation("harness exception", {"case": cc, "error": r_.get("error"), "tb": r_.get("tb")},
                              mech={"what": "harness exception", "error": r_.get("error", "")})
            elif r_["status"] in ("crash", "hang"):
                run.violation("python " + r_["status"], {"case": cc, "result": {k: r_[k] for k in r_ if k != "i"}},
                              mech={"what": "python " + r_["status"]})
            else:
                run.inconclusive_because("case %s: %s" % (cc, r_["status"]))
            continue
        v = r_["value"]
        if c["kind"] == "pos" and c["space"] == "grid":
            grids_done += 1
        for cls, keys in v["keys"].items():
            for i, k in enumerate(keys):
                smp = None
                if i == 0 and cls not in shown and v["nontrivial"] and cls in v["samples"]:
                    smp = v["samples"][cls]
                if run.case("%s:%s%s" % (v["model"], cls, k), nontrivial=v["nontrivial"], sample=smp) and smp is not None:
                    shown.add(cls)
        for k, n_ in v["counts"].items():
            run.count(k, n_)
        twin_errors += v["twin_errors"]
        for b in v["bad"]:
            run.violation(b["what"], b, mech={"what": b["what"], "site": b["site"], "cls": b["cls"], "via": b.get("via"),
                                              "form": b.get("form"), "variant": b.get("variant")})
    m = run.monitors
    run.note("per_class", {"%d %s" % (k, CLASS_NAMES[k]): {
        "mutations_applied": m.get("c%d_applied" % k, 0), "rejected_as_required": m.get("c%d_rejected" % k, 0),
        "accepted_invalid": m.get("c%d_accepted_invalid" % k, 0), "valid_twin_runs_accepted": m.get("c%d_twins_accepted" % k, 0),
        "valid_twin_runs_rejected": m.get("c%d_twins_rejected" % k, 0), "skipped_twin_rejected": m.get("c%d_skipped_twin_rejected" % k, 0),
        "state_unchanged_checks": m.get("c%d_state_checks" % k, 0)} for k in range(1, 9)})
    run.note("skipped_by_env", {k[len("skipped_by_env:"):]: n_ for k, n_ in m.items() if k.startswith("skipped_by_env:")})
    run.note("grid_shapes_swept", grids_done)
    if twin_errors:
        run.note("valid_twins_rejected_examples", sorted(set(twin_errors))[:8])
    run.note("not_judged", NOT_JUDGED)
    return run.finish()


if __name__ == "__main__":
    sys.exit(main())
