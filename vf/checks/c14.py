"""C14 - Initial-state processing yields a valid molecular state with the right totals.

Every case is one set-up of a script (sample 0 is read back) of a rectangular, asymmetric
state (species x cells) under one of the four processing modes, on one of the three engines,
grid or graph.  Exact integer arithmetic decides totals (floor is judged only when the exact
rational sum and the float sums in both orders agree); Poisson mode is decided entry-wise
(zero stays zero) and statistically (Ville mean test + randomised-PIT/DKW shape test against
Poisson(amount of that very species in that very cell)), with a stated false-alarm bound.
Termination is decided by the sandbox on CPU time.
"""
import math
import random
import sys
from fractions import Fraction as Fr

import numpy as np

from vf import gen, si, engines, simhelp, stats
from vf.common import Run, seed, tier, use_repo, chash
from vf.sandbox import pmap

MODES = ["auto", "redist", "Poisson", "none"]


def make_state(r, fam, S, n):
    """species-major list of real amounts (molecules)"""
    st = []
    for s in range(S):
        if fam == "below-one":
            row = [r.choice([0.0, r.uniform(0.01, 0.95) / n]) for _ in range(n)]
        elif fam == "integers":
            row = [float(r.choice([0, 0, 1, 2, 5, 17, 99, 100, 101, 250])) for _ in range(n)]
        elif fam == "fractional":
            row = [r.choice([0.0, r.uniform(0.05, 8.0), r.randint(0, 6) + 0.5, r.uniform(90, 110)]) for _ in range(n)]
        elif fam == "around-100":
            row = [r.choice([0.0, r.uniform(95, 105), 99.999, 100.0, 100.001]) for _ in range(n)]
        elif fam == "large":
            row = [r.choice([0.0, r.uniform(200, 5000), 10 ** r.uniform(3, 6)]) for _ in range(n)]
        elif fam == "twins":
            # every species gets the SAME amounts in the same cells: their draws are still independent of one another
            if s == 0:
                twin_row = [r.uniform(3.0, 30.0) for _ in range(n)]
                make_state.twin_row = twin_row
            row = list(make_state.twin_row)
        elif fam == "wide-4096":
            row = [r.choice([0.0, 0.0, r.uniform(0.05, 8.0), float(r.randint(1, 9))]) for _ in range(n)]
        elif fam == "dilute-wide":
            # a few molecules (or less than one) spread over more than a thousand cells
            tot = r.choice([0.51, 0.93, 2.88, 7.3])
            pop = [i for i in range(n) if r.random() < 0.6]
            row = [0.0] * n
            for i in pop:
                row[i] = tot / len(pop)
        else:  # sparse: one species concentrated in few cells, others empty -> a transposition scrambles the zero pattern
            row = [0.0] * n
            if s % 2 == 0:
                for _ in range(max(1, n // 4)):
                    row[r.randrange(n)] = r.uniform(3, 60)
        st += row
    if fam == "wide-4096":
        for k in (4095, 4096, 8191, 8192, len(st) - 1):      # entries at the ends of 4096-item blocks
            if k < len(st):
                st[k] = r.uniform(3.0, 9.0)
    if not any(st):
        st[r.randrange(len(st))] = r.uniform(0.2, 5.0)
    return st


def build(sd, idx):
    use_repo()
    import strengths as st
    r = gen.rng_for(sd, "C14", idx)
    kind_ = r.choice(engines.KINDS)
    mode = r.choice(MODES)
    fam = r.choice(["below-one", "integers", "fractional", "around-100", "large", "sparse", "sparse", "fractional"])
    if idx % 40 == 29:
        fam = "twins"
        mode = "Poisson"
    if idx % 400 == 11:
        fam = "wide-4096"
    elif idx % 400 == 211:
        fam = "dilute-wide"
    S = r.randint(1, 5)
    if fam == "twins":
        S = r.randint(2, 4)
    if fam in ("wide-4096", "dilute-wide"):
        S = r.randint(1, 2)
        if r.random() < 0.75:
            w, h, d = r.choice([(17, 17, 17), (70, 70, 1), (4100, 1, 1), (65, 8, 8)]) if fam == "wide-4096" else r.choice([(12000, 1, 1), (60, 50, 1), (20, 20, 20)])
            space = st.RDGridSpace(w=w, h=h, d=d, cell_vol=r.uniform(0.5, 2.0))
            n, sp = w * h * d, "grid"
        else:
            # (graph sizes kept where the Python-side set-up stays within the hang budget of this check)
            n = 2100 if fam == "wide-4096" else r.choice([1200, 1800])
            if fam == "wide-4096":
                S = 2
            nodes = [st.RDGraphSpaceNode(volume=r.uniform(0.5, 2.0)) for _ in range(n)]
            edges = [st.RDGraphSpaceEdge(i, i + 1, surface=1.0, distance=1.0) for i in range(n - 1) if r.random() < 0.7]
            space = st.RDGraphSpace(nodes, edges)
            sp = "graph"
    elif r.random() < 0.5:
        w, h, d = r.choice([(1, 1, 1), (2, 1, 1), (3, 2, 1), (5, 1, 1), (2, 3, 2), (4, 3, 1), (6, 5, 2), (7, 1, 1), (3, 1, 2)])
        space = st.RDGridSpace(w=w, h=h, d=d, cell_vol=r.uniform(0.5, 2.0))
        n = w * h * d
        sp = "grid"
    else:
        n = r.choice([1, 2, 3, 4, 7, 11, 30, 60])
        nodes = [st.RDGraphSpaceNode(volume=r.uniform(0.5, 2.0)) for _ in range(n)]
        edges = [st.RDGraphSpaceEdge(i, i + 1, surface=1.0, distance=1.0) for i in range(n - 1) if r.random() < 0.7]
        space = st.RDGraphSpace(nodes, edges)
        sp = "graph"
    state = make_state(r, fam, S, n)
    labels = ["A", "B", "C", "E", "F"][:S]
    net = st.RDNetwork([st.Species(l, D=r.choice([0.0, 1.0]), density=0) for l in labels],
                       [st.Reaction("%s -> %s" % (labels[0], labels[-1]), kf=0.1)] if r.random() < 0.5 else [])
    qunit = r.choice(["molecule", "molecule", "molecule", "fmol", "nmol"]) if fam not in ("integers", "around-100") else "molecule"
    qs = float(si.QUANTITY[qunit])
    system = st.RDSystem(net, space, state=st.UnitArray([x / qs for x in state], qunit))
    sseed = r.choice([0, 0, 1, 2 ** 31 - 1, 2 ** 32 - 1]) if r.random() < 0.2 else r.randrange(2 ** 31)   # 0 is a valid explicit seed
    script = st.RDScript(system, t_sample=[0, 1], time_step=0.1, sampling_policy="on_t_sample", rng_seed=simhelp.seed_form(r, sseed),
                         init_state_processing=mode)
    if r.random() < 0.2:
        # the same script read from its dictionary form; a mode left at the documented default ("auto") is left OUT of the
        # dictionary, as a hand-written file would: omitted and spelled out mean the same
        d_ = st.rdscript_to_dict(script)
        if mode == "auto":
            for k_ in [k_ for k_ in d_ if "init_state" in k_]:
                d_.pop(k_)
        # (a hand-written file may use any of the documented names of a key)
        for canon_, names_ in (("rng_seed", ["rng_seed", "rng seed", "seed"]),):
            if canon_ in d_:
                d_[r.choice(names_)] = d_.pop(canon_)
        script = st.rdscript_from_dict(d_)
        system = script.system
    # the real-valued amounts as the engine receives them (molecules), cross-checked against the description
    recv = [float(x) for x in system.state.convert("molecule").value]
    if script.rng_seed != sseed:
        raise AssertionError("RDScript does not keep the seed it was given: gave %r, holds %r" % (sseed, script.rng_seed))
    return kind_, mode, fam, S, n, sp, state, recv, script, qunit


def setup_and_read(kind_, script, S, n):
    e = simhelp.kept_engine(kind_)
    e.setup(script)
    out = e.get_output()
    e.finalize()
    d = np.array(out.data.convert("molecule").value, dtype=float) if False else None
    # engine works in molecules for stochastic kinds; for euler in the script's quantity unit (molecule here)
    raw = np.array(out.data.value, dtype=float)
    t = np.array(out.t.value, dtype=float)
    cp = script.copy()
    for holder, name in ((out.script, "the script stored in the trajectory"), (cp, "script.copy()")):
        if holder.init_state_processing != script.init_state_processing or holder.rng_seed != script.rng_seed:
            raise StoredScriptDiffers("%s has init_state_processing=%r seed=%r, the script that was run has %r / %r" % (
                name, holder.init_state_processing, holder.rng_seed, script.init_state_processing, script.rng_seed))
    return t, raw


class StoredScriptDiffers(Exception):
    pass


def floor_total(vals):
    """floor of the sum, or None when exact and float evaluations disagree"""
    ex = math.floor(sum(Fr(v) for v in vals))
    f1 = math.floor(sum(vals))
    f2 = math.floor(sum(reversed(vals)))
    acc = 0.0
    for v in vals:
        acc += v
    f3 = math.floor(acc)
    return ex if ex == f1 == f2 == f3 else None


def run_case(case):
    use_repo()
    engines.install()
    sd, idx = case["seed"], case["idx"]
    try:
        kind_, mode, fam, S, n, sp, state, recv, script, qunit = build(sd, idx)
    except AssertionError as e:
        return {"key": chash([idx]), "nontrivial": False, "counts": {}, "obs": [], "sample": None,
                "bad": [{"what": "the script does not keep the seed it was given", "error": str(e), "case": {"seed": sd, "idx": idx}}]}
    ctx = {"case": {"seed": sd, "idx": idx}, "engine": kind_, "mode": mode, "family": fam, "S": S, "n": n, "space": sp}
    bad, counts, obs = [], {}, []

    def cnt(k, n_=1):
        counts[k] = counts.get(k, 0) + n_
    for a, b in zip(recv, state):
        if abs(a - b) > 1e-12 * abs(b):
            bad.append({"what": "state handed to the engine is not the described amount", "got": a, "expected": b, **ctx})
            break
    try:
        t, x = setup_and_read(kind_, script, S, n)
    except StoredScriptDiffers as e:
        return {"key": chash([idx, kind_, mode, fam]), "nontrivial": False, "counts": counts, "obs": [], "sample": None,
                "bad": [{"what": "a copy of the script (stored in the trajectory / script.copy()) lost the processing mode or the seed",
                         "error": str(e), **ctx}]}
    # "for a given seed, reproducible": the second run uses a script built afresh from the same arguments
    try:
        script_again = build(sd, idx)[8]
    except AssertionError as e:
        bad.append({"what": "the script does not keep the seed it was given", "error": str(e), **ctx})
        script_again = script
    t2, x2 = setup_and_read(kind_, script_again, S, n)
    cnt("setups", 2)
    cnt("mode_" + mode)
    cnt("engine_" + kind_)
    if x.tobytes() != x2.tobytes() or t.tobytes() != t2.tobytes():
        bad.append({"what": "processing is not reproducible for a given seed", **ctx})
    if len(t) < 1 or t[0] != 0.0 or x.size < S * n:
        bad.append({"what": "no record at t=0", "nsamples": int(len(t)), **ctx})
        return {"key": chash([idx, kind_, mode, fam]), "nontrivial": False, "counts": counts, "bad": bad, "obs": [], "sample": None}
    x0 = x[:S * n]
    stochastic = kind_ in ("tauleap", "gillespie")
    eff = mode
    if mode == "auto":
        eff = "redist" if stochastic else "none"
    cnt("effective_" + eff)
    if eff == "none":
        want = np.array(recv, dtype=float)
        cnt("passthrough_checks")
        if kind_ == "euler":
            ok = x0.tobytes() == want.tobytes()
        else:
            ok = x0.tobytes() == want.tobytes()
        if not ok:
            bad.append({"what": "'none' mode (or Euler's auto) does not pass the state through unchanged",
                        "got": x0.tolist()[:10], "expected": recv[:10], **ctx})
    else:
        cnt("integrality_checks", S * n)
        if np.any(x0 < 0) or np.any(x0 != np.floor(x0)):
            k = int(np.argmax((x0 < 0) | (x0 != np.floor(x0))))
            bad.append({"what": "t=0 entry is negative or not an integer", "entry": k, "value": float(x0[k]), **ctx})
        # zero stays zero
        for k in range(S * n):
            if recv[k] == 0.0:
                cnt("zero_amount_entries")
                if x0[k] != 0.0:
                    bad.append({"what": "a molecule was placed in an entry whose real-valued amount is 0",
                                "entry": k, "species": k // n, "cell": k % n, "value": float(x0[k]),
                                "amount_at_transposed_position": recv[(k % S) * n + (k // S)] if (k % S) * n + (k // S) < S * n else None,
                                **ctx})
                    break
        if eff == "redist":
            for s in range(S):
                fl = floor_total(recv[s * n:(s + 1) * n])
                if fl is None:
                    cnt("totals_skipped_rounding_ambiguous")
                    continue
                cnt("total_checks")
                got = float(x0[s * n:(s + 1) * n].sum())
                if got != fl:
                    bad.append({"what": "species total after redistribution is not floor(real total)", "species": s,
                                "got": got, "expected": fl, "real_total": float(sum(recv[s * n:(s + 1) * n])), **ctx})
                    break
        elif eff == "Poisson":
            vr = gen.rng_for(sd, "C14pit", idx)
            for k in range(S * n):
                lam = recv[k]
                if 0 < lam <= 2000:
                    obs.append((float(x0[k]), lam, vr.random()))
            cnt("poisson_entries_observed", len(obs))
            if fam == "twins":
                # independence between species: with equal means, two species' draws coincide in one cell with probability
                # sum_k pmf(k)^2 (about 1 / (2 sqrt(pi lambda))); that they coincide in EVERY cell has the product of these
                # probabilities - judged when that product is below 1e-13
                logp = 0.0
                for i_ in range(n):
                    lam = recv[i_]
                    if lam > 0:
                        pe = sum(stats.poisson_pmf_cdf(k_, lam)[1] ** 2 for k_ in range(int(lam + 12 * math.sqrt(lam) + 20)))
                        logp += math.log(min(1.0, pe))
                if logp < math.log(1e-13):
                    cnt("poisson_independence_checks")
                    rows = [x0[s_ * n:(s_ + 1) * n].tolist() for s_ in range(S)]
                    for s_ in range(1, S):
                        if rows[s_] == rows[0]:
                            bad.append({"what": "Poisson mode: two species with equal amounts got identical draws in every cell (the entries are not drawn independently)",
                                        "species": [0, s_], "cells": n, "log_probability_of_coincidence": logp, "draws_head": rows[0][:8], **ctx})
                            break
    key = chash([idx, kind_, mode, fam, S, n, sp])
    return {"key": key, "nontrivial": S >= 2 and n >= 2 and S != n, "counts": counts, "bad": bad[:4], "obs": obs,
            "sample": {"seed": sd, "idx": idx, "engine": kind_, "mode": mode, "family": fam, "species": S, "cells": n, "space": sp,
                       "quantity_unit": qunit, "amounts_head": recv[:6], "t0_head": x0.tolist()[:6]}}


def main():
    if len(sys.argv) > 2 and sys.argv[1] == "--replay":
        import json
        w = json.load(open(sys.argv[2]))["witness"]
        res = run_case(w["case"])
        res.pop("obs", None)
        print(json.dumps(res, indent=1, default=str))
        return 1 if res["bad"] else 0
    run = Run("C14",
              rule="states of S in 1..5 species x n in {1..60} cells (rectangular, asymmetric; families: totals below one molecule, "
                   "exact integers incl. 99/100/101, fractional, around the Poisson/normal switch at 100, large, sparse with empty "
                   "species/cells) x 4 modes x 3 engines x grid/graph x seeds, state given in molecule / fmol / nmol. Each case: "
                   "two set-ups with one seed, t=0 record read back. Non-trivial: S >= 2, n >= 2 and S != n (a missing "
                   "species<->cell transposition cannot hide).",
              assumptions=["Poisson-mode counts are tested against Poisson(amount) with Ville (mean) and PIT+DKW (shape) monitors, "
                           "false-alarm probability <= 3e-12 per run",
                           "floor(total) is judged only when exact-rational and float sums agree"])
    run.require("setups", "passthrough_checks", "integrality_checks", "total_checks", "zero_amount_entries",
                "poisson_entries_observed")
    thorough = tier() == "thorough"
    n_total = 100000 if thorough else 16000
    cases = [{"seed": seed(), "idx": i} for i in range(n_total)]
    res = pmap("vf.checks.c14:run_case", cases, cpu_budget=15.0, wall_budget=900)
    ville = stats.Ville("poisson-mode mean: sum(count) vs sum(amount)")
    pit = stats.PIT("poisson-mode shape")
    for c, r_ in zip(cases, res):
        if r_["status"] != "ok":
            if r_["status"] in ("crash", "hang"):
                try:
                    kind_, mode, fam, S, n, sp, *_ = build(c["seed"], c["idx"])
                    info = {"engine": kind_, "mode": mode, "family": fam, "S": S, "n": n, "space": sp}
                except Exception:
                    info = {}
                run.violation("set-up does not return" if r_["status"] == "hang" else "crash during set-up",
                              {"case": c, **info, "cpu_s": r_.get("cpu"), "signal": r_.get("signal")},
                              mech={"what": r_["status"], **info})
            elif r_["status"] == "exception":
                run.violation("exception on a valid script", {"case": c, "error": r_.get("error"), "tb": r_.get("tb")},
                              mech={"what": "exception"})
            else:
                run.inconclusive_because("case %s: %s" % (c, r_["status"]))
            continue
        v = r_["value"]
        run.case(v["key"], nontrivial=v["nontrivial"], sample=v.get("sample"))
        for k, n_ in v["counts"].items():
            run.count(k, n_)
        for b in v["bad"]:
            run.violation(b["what"][:70], b, mech={"what": b["what"], "mode": b.get("mode"), "family": b.get("family")})
        for (y, lam, u) in v["obs"]:
            ville.add_poisson(y, lam)
            lo, f = stats.poisson_pmf_cdf(int(y), lam) if y >= 0 and float(y).is_integer() else (0.0, 0.0)
            pit.add(lo, f, u)
    run.note("statistical_monitors", [ville.summary(), pit.summary()])
    run.note("false_alarm_budget", 3e-12)
    if ville.n >= 200 and ville.alarm():
        run.violation("Poisson mode: mean of the drawn counts is not the real-valued amount (Ville test)", ville.summary(),
                      mech={"what": "poisson-mean"})
    if pit.alarm():
        run.violation("Poisson mode: counts are not Poisson distributed (PIT + DKW)", pit.summary(), mech={"what": "poisson-shape"})
    if ville.n < 200:
        run.inconclusive_because("too few Poisson-mode observations for the statistical monitors (%d)" % ville.n)
    # a key left out of a dictionary means the constructor's documented default, in the object's own units (vf/history.py)
    from vf.sandbox import run_extra as _rxd
    from vf.common import seed as _sdd, tier as _trd
    _wd = ['script']
    _rxd(run, "vf.history:h_dict_defaults", [{"seed": _sdd(), "idx": _i, "which": _wd[_i % len(_wd)]} for _i in range(1200 if _trd() == "thorough" else 120)],
         cpu_budget=60, kind_prefix="history: ")
    return run.finish()


if __name__ == "__main__":
    sys.exit(main())
