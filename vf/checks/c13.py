"""C13 - Default state and chemostat map: density x volume, species-major layout.

Every generated system is built WITHOUT an explicit state / chemostat map, with species,
network, space, nodes and system each rendered in its own unit system.  Monitors, for every
(species, cell) pair:

  A  system.state[s*ncells+i] (turned into molecules through vf.si) == density_s(env_i|default|0) * V_i,
     system.chemostats[s*ncells+i] == flag_s(env_i|default|0)          (oracle: vf.gen.default_state / _chemostats)
  B  get_state / get_chemostat / get_state_index, species by label / index / Species object x cell by linear
     index / (x,y,z) tuple, list, ndarray / object with x,y,z: return exactly entry s*ncells+i.  Entries are made
     distinguishable by *tagging* a deep copy (in-place write of distinct numbers into the arrays), so that
     "another entry with the same value" cannot hide.
  C  set_state / set_chemostat on the tagged copy: whole-array snapshot before / after; only the addressed entry
     changes and it holds the written value (bare number = the system's units_system quantity unit, string with
     explicit unit, UnitValue in another unit); the getter reads it back.
  D  editing a species' density / chstt through the property setters, then set_default_state() /
     set_default_chemostats(): the arrays equal the defaults of the edited description; blocks of the other
     species are bitwise what the original system held.

Out of the statement (not generated): override dictionaries of set_default_* and reset_state().
"""
import copy
import itertools
import math
import sys

from vf import gen, ref, si
from vf.common import Run, seed, tier, use_repo, chash
from vf.sandbox import pmap

TOL = 1e-12
Q = (0, 0, 1)

# grid shapes with w, h, d pairwise different (a transposition of any two axes changes the index map)
ASYM = sorted({p for t in itertools.combinations(range(1, 7), 3) if t[0] * t[1] * t[2] <= 60
               for p in itertools.permutations(t)})


class Coord:
    def __init__(self, x, y, z):
        self.x, self.y, self.z = x, y, z


class DistinctRendering(gen.Rendering):
    """every nesting level gets a unit system of its own (never inherited from the parent)"""

    def level(self, name, parent):
        s = self.sys_draw(self.r)
        while parent is not None and s == parent:
            s = self.sys_draw(self.r)
        self.log[name] = s
        return s


def nontrivial(desc):
    sp = desc["space"]
    n = gen.ncells(sp)
    hetero = len(set(gen.cell_envs(sp))) >= 2 or len(set(gen.cell_vols(sp))) >= 2
    return bool(len(desc["species"]) >= 2 and n >= 2 and hetero)


def gen_case(sd, idx):
    r = gen.rng_for(sd, "C13", idx)
    kind = "grid" if idx % 2 == 0 else "graph"
    opts = {"space": kind, "explicit_state": 0, "explicit_chstt": 0,
            "net": {"nspecies": (1, 1) if r.random() < 0.06 else (2, 5),
                    "nenv": (1, 1) if r.random() < 0.1 else (2, 4),
                    "chstt": 0.6, "nreactions": (0, 1)},
            "grid": {"dims": (1, 4), "max_cells": 40},
            "graph": {"nodes": (1, 1) if r.random() < 0.05 else (2, 9), "simple": True}}
    desc = gen.rand_system(r, opts)
    if kind == "grid" and r.random() < 0.85:
        w, h, d = r.choice(ASYM)
        n = w * h * d
        ne = len(desc["envs"])
        env = [r.randrange(ne)] * n if r.random() < 0.15 else [r.randrange(ne) for _ in range(n)]
        desc["space"] = {"type": "grid", "w": w, "h": h, "d": d, "cell_env": env,
                         "cell_vol": desc["h"] ** 3 * r.uniform(0.5, 2.0), "bc": dict(r.choice(gen.BCS))}
    assert desc["state"] is None and desc["chemostats"] is None
    return desc


def lookup_case(v, env):
    if not isinstance(v, dict):
        return "scalar"
    if env in v:
        return "env"
    return "default" if "default" in v else "missing"


def close(g, w):
    if not isinstance(g, float) or not math.isfinite(g):
        return False
    if w == 0:
        return g == 0
    return abs(g - w) <= TOL * abs(w)


def qscale(units):
    """molecules per one unit of a quantity-dimension Units object (through the SI table, not the library)"""
    return float(si.QUANTITY[units.sys["quantity"]])


def species_forms(system, s, label, np):
    return [("label", label), ("index", s), ("object", system.network.species[s]), ("npint", np.int64(s))]


def position_forms(sp, i, np):
    if sp["type"] == "grid":
        x, y, z = ref.grid_coords(sp, i)
        return [("int", i), ("tuple", (x, y, z)), ("xyz_object", Coord(x, y, z)), ("list", [x, y, z]),
                ("ndarray", np.array([x, y, z])), ("npint", np.int64(i))]
    return [("int", i), ("npint", np.int64(i)), ("float", float(i))]


class Stage:
    """collects witnesses; at most a few per kind so that one defect does not flood the report"""

    def __init__(self, ctx):
        self.bad = []
        self.ctx = ctx
        self.kinds = {}

    def add(self, what, **kw):
        k = self.kinds.get(what, 0)
        self.kinds[what] = k + 1
        if k < 2 and len(self.bad) < 12:
            self.bad.append({"what": what, **kw, **self.ctx})


def err(e):
    return "%s: %s" % (type(e).__name__, e)


def run_large_default(case):
    """default state and chemostat map of systems with 4100-5300 cells (every nesting level in its own units): entry by entry
    against density x volume / the per-environment flags of the description"""
    use_repo()
    import numpy as np
    sd, idx = case["seed"], case["idx"]
    r = gen.rng_for(sd, "C13large", idx)
    desc = gen.large_system(r, reactions=False)
    V = desc["h"] ** 3
    for sp_ in desc["species"]:
        sp_["density"] = gen.per_env(r, desc["envs"], lambda: r.uniform(1.0, 200.0) / V, p_scalar=0.2)
        sp_["chstt"] = r.choice([False, True, {desc["envs"][0]: True}, {desc["envs"][1]: True, "default": False}])
    desc["state"], desc["chemostats"] = None, None
    bad, counts = [], {"large_default_systems": 1}
    try:
        if r.random() < 0.5:
            system = gen.render_system(desc, gen.Rendering(r))
        else:
            import strengths as st
            system = st.rdsystem_from_dict(gen.system_dict(desc, gen.Rendering(r)))
    except Exception as e:
        return {"bad": [{"what": "valid system rejected", "error": err(e), "case": case}], "counts": counts, "key": None}
    want, wantc = gen.default_state(desc), gen.default_chemostats(desc)
    qs = qscale(system.state.units)
    got = [float(x) * qs for x in system.state.value]
    gotc = [int(bool(x)) for x in system.chemostats]
    if len(got) != len(want) or len(gotc) != len(wantc):
        bad.append({"what": "large system: default state / chemostat map has the wrong length", "got": [len(got), len(gotc)], "expected": len(want), "case": case})
    else:
        for k, (g, w) in enumerate(zip(got, want)):
            counts["large_default_entries"] = counts.get("large_default_entries", 0) + 1
            if not close(g, w):
                bad.append({"what": "large system: default state entry is not density x volume", "entry": k, "got_molecules": g, "expected_molecules": w,
                            "cells": gen.ncells(desc["space"]), "case": case})
                break
        for k, (g, w) in enumerate(zip(gotc, wantc)):
            if g != w:
                bad.append({"what": "large system: default chemostat flag differs from the species' per-environment flag", "entry": k, "got": g, "expected": w, "case": case})
                break
    return {"bad": bad[:3], "counts": counts, "key": chash(["large-default", sd, idx]), "nontrivial": True,
            "sample": {"seed": sd, "idx": idx, "cells": gen.ncells(desc["space"]), "species": len(desc["species"])}}


def run_case(case):
    use_repo()
    import numpy as np
    import strengths as st
    sd, idx = case["seed"], case["idx"]
    desc = gen_case(sd, idx)
    r = gen.rng_for(sd, "C13r", idx)
    wide = r.random() < 0.3
    rd_cls = DistinctRendering if r.random() < 0.75 else gen.Rendering
    rd = rd_cls(r, sys_draw=gen.rand_sys if wide else gen.mild_sys)
    sp = desc["space"]
    S, n = len(desc["species"]), gen.ncells(sp)
    labels = [s["label"] for s in desc["species"]]
    envs = desc["envs"]
    ce, cv = gen.cell_envs(sp), gen.cell_vols(sp)
    ctx = {"case": {"seed": sd, "idx": idx}, "space": sp["type"]}
    stg = Stage(ctx)
    counts = {}

    def cnt(name, k=1):
        counts[name] = counts.get(name, 0) + k

    info = {"key": chash(desc), "nontrivial": nontrivial(desc), "counts": counts}
    shape = (sp["w"], sp["h"], sp["d"]) if sp["type"] == "grid" else None
    info["sample"] = {"seed": sd, "idx": idx, "space": sp["type"], "shape": shape, "ncells": n, "species": labels,
                      "envs": envs, "cell_env": ce[:12], "densities_SI": [s["density"] for s in desc["species"]][:3],
                      "chstt": [s["chstt"] for s in desc["species"]][:3]}
    try:
        if r.random() < 0.35:
            # the same description as a dictionary (units declared or inherited at every level under any of the key aliases,
            # run-time strings): node, edge, species and space levels each in their own units
            system = st.rdsystem_from_dict(gen.system_dict(desc, rd))
            cnt("systems_from_dictionaries")
        else:
            system = gen.render_system(desc, rd)
    except Exception as e:
        stg.add("valid system rejected", error=err(e))
        info["bad"] = stg.bad
        return info
    info["sample"]["units"] = {k: rd.log[k] for k in ("system", "network", "species0", "space", "node0") if k in rd.log}
    want = gen.default_state(desc)
    wantc = gen.default_chemostats(desc)

    # ---- A: the default arrays -------------------------------------------------------
    ok_state = False
    try:
        stt = system.state
        if type(stt).__name__ != "UnitArray":
            stg.add("state: not a UnitArray", got=type(stt).__name__)
        elif si.dim_of(stt.units.dim) != Q:
            stg.add("state: dimension is not quantity", dim=si.dim_of(stt.units.dim))
        elif len(stt) != S * n or len(stt.value) != S * n:
            stg.add("state: length is not nspecies*ncells", got=len(stt.value), expected=S * n)
        else:
            ok_state = True
            qs = qscale(stt.units)
            entries = []
            for s in range(S):
                for i in range(n):
                    k = s * n + i
                    g = float(stt.value[k]) * qs
                    lc = lookup_case(desc["species"][s]["density"], envs[ce[i]])
                    cnt("state_entries")
                    cnt("state_entries_" + lc)
                    if len(entries) < 3 and want[k] != 0:
                        entries.append({"species": labels[s], "cell": i, "env": envs[ce[i]], "lookup": lc,
                                        "expected_molecules": want[k], "got_molecules": g})
                    if not close(g, want[k]):
                        stg.add("state: entry differs from density x volume", species=s, cell=i, entry=k,
                                env=envs[ce[i]], lookup=lc, got_molecules=g, expected_molecules=want[k],
                                state_units=si.sys_of(stt.units.sys), units=dict(rd.log))
            info["sample"]["entries"] = entries
    except Exception as e:
        stg.add("state: exception", error=err(e))
    ok_chem = False
    try:
        ch = system.chemostats
        if len(ch) != S * n:
            stg.add("chemostats: length is not nspecies*ncells", got=len(ch), expected=S * n)
        else:
            ok_chem = True
            for s in range(S):
                for i in range(n):
                    k = s * n + i
                    lc = lookup_case(desc["species"][s]["chstt"], envs[ce[i]])
                    cnt("chemostat_entries")
                    cnt("chemostat_entries_" + lc)
                    if not (ch[k] == wantc[k] and int(ch[k]) == wantc[k]):
                        stg.add("chemostats: entry differs from the species flag", species=s, cell=i, entry=k,
                                env=envs[ce[i]], lookup=lc, got=repr(ch[k]), expected=wantc[k],
                                chstt=desc["species"][s]["chstt"])
    except Exception as e:
        stg.add("chemostats: exception", error=err(e))
    if not (ok_state and ok_chem):
        info["bad"] = stg.bad
        return info

    # ---- B: getters on the system as built, one form combination per pair ------------
    stt = system.state
    qs = qscale(stt.units)
    for s in range(S):
        for i in range(n):
            k = s * n + i
            sf, sv = r.choice(species_forms(system, s, labels[s], np))
            pf, pv = r.choice(position_forms(sp, i, np))
            try:
                v = system.get_state(sv, pv)
                cnt("getter_calls")
                if type(v).__name__ != "UnitValue" or si.dim_of(v.units.dim) != Q:
                    stg.add("get_state: result is not a UnitValue of quantity dimension", species_form=sf,
                            position_form=pf, got=repr(v))
                elif not close(float(v.value) * qscale(v.units), want[k]):
                    stg.add("get_state: differs from density x volume", species_form=sf, position_form=pf,
                            species=s, cell=i, got_molecules=float(v.value) * qscale(v.units),
                            expected_molecules=want[k])
                c_ = system.get_chemostat(sv, pv)
                cnt("getter_calls")
                if not (c_ == wantc[k]):
                    stg.add("get_chemostat: differs from the species flag", species_form=sf, position_form=pf,
                            species=s, cell=i, got=repr(c_), expected=wantc[k])
            except Exception as e:
                stg.add("getter: exception on an in-range position", species_form=sf, position_form=pf,
                        species=s, cell=i, error=err(e))

    # ---- B': every form combination on a tagged deep copy ---------------------------
    c = copy.deepcopy(system)
    tags = np.arange(S * n, dtype=float) + 1.25
    ctags = np.arange(S * n, dtype=int) + 2
    c.state.value[:] = tags
    c.chemostats[:] = ctags
    if c.state.value.tobytes() != tags.tobytes() or not np.array_equal(c.chemostats, ctags):
        raise RuntimeError("harness: tagging the arrays of the copy did not stick")
    if system.state.value.tobytes() == tags.tobytes():
        raise RuntimeError("harness: deep copy shares the state array")
    cu = si.sys_of(c.state.units.sys)
    for s in range(S):
        sforms = species_forms(c, s, labels[s], np)
        for i in range(n):
            k = s * n + i
            pforms = position_forms(sp, i, np)
            for sf, sv in sforms:
                for pf, pv in pforms:
                    try:
                        v = c.get_state(sv, pv)
                        cnt("getter_calls")
                        cnt("tagged_getter_calls")
                        if type(v).__name__ != "UnitValue" or si.dim_of(v.units.dim) != Q:
                            stg.add("get_state: result is not a UnitValue of quantity dimension", species_form=sf,
                                    position_form=pf, got=repr(v))
                        else:
                            same_u = si.sys_of(v.units.sys)[2] == cu[2]
                            hit = (float(v.value) == tags[k]) if same_u else \
                                close(float(v.value) * qscale(v.units), float(tags[k]) * qscale(c.state.units))
                            if not hit:
                                stg.add("get_state: returns another entry", species_form=sf, position_form=pf,
                                        species=s, cell=i, expected_entry=k, got=repr(v),
                                        got_entry=_entry_of(float(v.value), 1.25, S * n), shape=shape, nspecies=S, ncells=n)
                        g = c.get_chemostat(sv, pv)
                        cnt("getter_calls")
                        cnt("tagged_getter_calls")
                        if not (g == ctags[k]):
                            stg.add("get_chemostat: returns another entry", species_form=sf, position_form=pf,
                                    species=s, cell=i, expected_entry=k, got_entry=_entry_of(float(g), 2, S * n),
                                    shape=shape, nspecies=S, ncells=n)
                    except Exception as e:
                        stg.add("getter: exception on an in-range position", species_form=sf, position_form=pf,
                                species=s, cell=i, error=err(e))
            sf, sv = r.choice(sforms)
            pf, pv = r.choice(pforms)
            try:
                gi = c.get_state_index(sv, pv)
                cnt("index_calls")
                if gi != k:
                    stg.add("get_state_index: not species*ncells+cell", species_form=sf, position_form=pf,
                            species=s, cell=i, got=int(gi), expected=k, shape=shape, nspecies=S, ncells=n)
            except Exception as e:
                stg.add("get_state_index: exception on an in-range position", species_form=sf, position_form=pf,
                        error=err(e))

    # ---- C: setters on the tagged copy, whole-array snapshots ------------------------
    sysu = rd.log["system"]
    pairs = [(s, i) for s in range(S) for i in range(n)]
    r.shuffle(pairs)

    def snap():
        return (si.sys_of(c.state.units.sys), si.dim_of(c.state.units.dim), np.array(c.state.value, dtype=float),
                np.array(c.chemostats))

    def others_same(a, b, k):
        if a.shape != b.shape:
            return False
        m = np.ones(len(a), dtype=bool)
        m[k] = False
        if a.dtype.kind == "f" and b.dtype.kind == "f":
            return a[m].tobytes() == b[m].tobytes()
        return bool(np.array_equal(a[m], b[m]))

    for (s, i) in pairs:
        k = s * n + i
        sf, sv = r.choice(species_forms(c, s, labels[s], np))
        pf, pv = r.choice(position_forms(sp, i, np))
        # -- set_state
        vform = r.choice(["bare_float", "bare_float", "bare_int", "bare_npfloat", "str", "uv", "uv"])
        own = sysu if vform.startswith("bare") else (gen.rand_sys(r) if wide else gen.mild_sys(r))
        num = r.choice([float(r.randint(0, 500)), r.uniform(0.0, 500.0), 10 ** r.uniform(-6, 6)])
        if vform == "bare_int":
            num = r.randint(0, 500)
        expected = float(num) * float(si.QUANTITY[own[2]])
        if vform == "str":
            val = "%r %s" % (num, own[2])
        elif vform == "uv":
            val = st.UnitValue(num, own[2])
        elif vform == "bare_npfloat":
            val = np.float64(num)
        else:
            val = num
        w = {"species_form": sf, "position_form": pf, "value_form": vform, "species": s, "cell": i, "entry": k,
             "value": repr(val), "system_units": sysu, "network_units": rd.log["network"]}
        try:
            b4 = snap()
            c.set_state(sv, pv, val)
            af = snap()
            cnt("setter_calls")
            cnt("set_state_" + vform)
            cnt("frame_checks")
            if af[1] != Q or af[2].shape != b4[2].shape:
                stg.add("set_state: state dimension / length changed", **w)
            else:
                qa, qb = float(si.QUANTITY[af[0][2]]), float(si.QUANTITY[b4[0][2]])
                if af[0][2] == b4[0][2]:
                    frame = others_same(b4[2], af[2], k)
                else:
                    frame = all(close(float(x) * qa, float(y) * qb) for j, (x, y) in enumerate(zip(af[2], b4[2])) if j != k)
                if not frame:
                    ch_ = [j for j in range(S * n) if j != k and af[2][j].tobytes() != b4[2][j].tobytes()]
                    stg.add("set_state: an entry other than the addressed one changed", changed=ch_[:5], **w)
                if not np.array_equal(b4[3], af[3]):
                    stg.add("set_state: chemostat map changed", **w)
                got = float(af[2][k]) * qa
                if not close(got, expected):
                    stg.add("set_state: addressed entry does not hold the written value", got_molecules=got,
                            expected_molecules=expected, entry_unchanged=bool(af[2][k] == b4[2][k]),
                            state_units=af[0], **w)
                sf2, sv2 = r.choice(species_forms(c, s, labels[s], np))
                pf2, pv2 = r.choice(position_forms(sp, i, np))
                back = c.get_state(sv2, pv2)
                cnt("read_after_write")
                if not close(float(back.value) * qscale(back.units), expected):
                    stg.add("get_state after set_state: not the written value", got=repr(back),
                            expected_molecules=expected, **w)
        except Exception as e:
            stg.add("set_state: exception on a valid call", error=err(e), **w)
        # -- set_chemostat
        cform, cval = r.choice([("True", True), ("False", False), ("1", 1), ("0", 0), ("np.True_", np.bool_(True)),
                                ("np.int64(0)", np.int64(0))])
        w = {"species_form": sf, "position_form": pf, "value_form": cform, "species": s, "cell": i, "entry": k}
        try:
            b4 = snap()
            c.set_chemostat(sv, pv, cval)
            af = snap()
            cnt("setter_calls")
            cnt("frame_checks")
            if af[3].shape != b4[3].shape or not others_same(b4[3], af[3], k):
                stg.add("set_chemostat: an entry other than the addressed one changed", **w)
            elif not (af[3][k] == int(bool(cval))):
                stg.add("set_chemostat: addressed entry does not hold the written flag", got=repr(af[3][k]),
                        expected=int(bool(cval)), **w)
            if af[0] != b4[0] or af[2].tobytes() != b4[2].tobytes():
                stg.add("set_chemostat: state changed", **w)
            g = c.get_chemostat(sv, pv)
            cnt("read_after_write")
            if not (g == int(bool(cval))):
                stg.add("get_chemostat after set_chemostat: not the written flag", got=repr(g), **w)
        except Exception as e:
            stg.add("set_chemostat: exception on a valid call", error=err(e), **w)

    # ---- D: edit a species, regenerate the defaults ---------------------------------
    V = desc["h"] ** 3
    # baseline for the frame condition: the defaults as the library itself generates them (the system may have been built
    # from a per-species dictionary holding the same amounts in other units, equal only up to rounding)
    sys_state_before = np.array(system.state.value, dtype=float).tobytes()
    try:
        c.set_default_state()
    except Exception:
        pass
    orig_state = np.array(c.state.value, dtype=float)
    orig_units = si.sys_of(c.state.units.sys)
    orig_chem = np.array(system.chemostats)
    d2 = copy.deepcopy(desc)
    for rnd in range(2):
        k_s = r.randrange(S)
        ssys = rd.log["species%d" % k_s]
        newd = gen.per_env(r, envs, lambda: r.uniform(1.0, 200.0) / V, p_scalar=0.3)
        if r.random() < 0.5:
            newc = r.random() < 0.5
        else:
            newc = {e: r.random() < 0.5 for e in envs if r.random() < 0.7}
            if r.random() < 0.4:
                newc["default"] = r.random() < 0.5
        d2["species"][k_s]["density"] = newd
        d2["species"][k_s]["chstt"] = newc
        edited = {k_s} if rnd == 0 else edited | {k_s}
        w2 = gen.default_state(d2)
        wc2 = gen.default_chemostats(d2)
        w = {"edited_species": k_s, "round": rnd}
        try:
            c.network.species[k_s].density = rd.per_env(newd, gen.DENS_DIM, ssys)
            c.set_default_state()
            cnt("regen_checks")
            stt = c.state
            if type(stt).__name__ != "UnitArray" or si.dim_of(stt.units.dim) != Q or len(stt.value) != S * n:
                stg.add("set_default_state: result is not a quantity UnitArray of nspecies*ncells", **w)
            else:
                qs = qscale(stt.units)
                for s in range(S):
                    blk = slice(s * n, (s + 1) * n)
                    cnt("regen_entries", n)
                    for i in range(n):
                        g = float(stt.value[s * n + i]) * qs
                        if not close(g, w2[s * n + i]):
                            stg.add("set_default_state after editing a species: entry is not the new default"
                                    if s in edited else
                                    "set_default_state after editing a species: entry of another species is not its default",
                                    species=s, cell=i, got_molecules=g, expected_molecules=w2[s * n + i],
                                    old_default_molecules=want[s * n + i], new_density_SI=newd if s == k_s else None, **w)
                            break
                    if s not in edited:
                        cnt("frame_checks")
                        if si.sys_of(stt.units.sys)[2] == orig_units[2] and \
                                np.array(stt.value[blk], dtype=float).tobytes() != orig_state[blk].tobytes():
                            stg.add("set_default_state after editing a species: block of another species changed",
                                    species=s, **w)
                cnt("regen_changed_entries", sum(1 for a_, b_ in zip(w2, want) if a_ != b_))
        except Exception as e:
            stg.add("set_default_state after editing a species: exception", error=err(e), new_density_SI=newd, **w)
        try:
            c.network.species[k_s].chstt = dict(newc) if isinstance(newc, dict) else newc
            c.set_default_chemostats()
            cnt("regen_checks")
            ch = c.chemostats
            if len(ch) != S * n:
                stg.add("set_default_chemostats: length is not nspecies*ncells", **w)
            else:
                for s in range(S):
                    cnt("regen_entries", n)
                    for i in range(n):
                        if not (ch[s * n + i] == wc2[s * n + i]):
                            stg.add("set_default_chemostats after editing a species: entry is not the new flag"
                                    if s in edited else
                                    "set_default_chemostats after editing a species: entry of another species changed",
                                    species=s, cell=i, got=repr(ch[s * n + i]), expected=wc2[s * n + i],
                                    new_chstt=newc if s == k_s else None, **w)
                            break
                    if s not in edited:
                        cnt("frame_checks")
                        if not np.array_equal(np.array(ch[s * n:(s + 1) * n]), orig_chem[s * n:(s + 1) * n]):
                            stg.add("set_default_chemostats after editing a species: block of another species changed",
                                    species=s, **w)
                cnt("regen_changed_flags", sum(1 for a_, b_ in zip(wc2, wantc) if a_ != b_))
        except Exception as e:
            stg.add("set_default_chemostats after editing a species: exception", error=err(e), new_chstt=newc, **w)
    # the original system must not have been touched by what was done to its deep copy (harness sanity)
    if np.array(system.state.value, dtype=float).tobytes() != sys_state_before:
        raise RuntimeError("harness: original system changed while working on the copy")
    info["bad"] = stg.bad
    return info


def _entry_of(v, offset, size):
    k = v - offset
    return int(k) if k == int(k) and 0 <= k < size else None


def replay(path):
    import json
    w = json.load(open(path))["witness"]
    cs = w["case"]
    res = run_case({"seed": cs["seed"], "idx": cs["idx"]})
    print(json.dumps(res, indent=1, default=str, ensure_ascii=False))
    return 1 if res["bad"] else 0


def main():
    if len(sys.argv) > 2 and sys.argv[1] == "--replay":
        return replay(sys.argv[2])
    run = Run("C13",
              rule="random systems built without explicit state / chemostats (vf.gen.rand_system, explicit_state=0, "
                   "explicit_chstt=0): 1-5 species with scalar / per-environment / 'default'-fallback / missing densities "
                   "and bool or per-environment chemostat flags, 1-4 environments; even idx: grids (85% with pairwise "
                   "different w,h,d, up to 60 cells, random environment map), odd idx: graphs of 1-9 nodes with per-node "
                   "volumes and environments; system, network, each species, space and each node rendered in its own "
                   "random unit system (75% never inherited; 30% over the whole unit table), values as bare numbers / "
                   "strings / UnitValues. Every (species, cell) pair of every system is checked. A system is distinct by "
                   "the hash of its SI description; non-trivial: >= 2 species and >= 2 cells with >= 2 distinct "
                   "environments or volumes.",
              assumptions=["vf.gen.default_state / default_chemostats on the SI description and the SI table vf/si.py are the oracle",
                           "positions in range (out-of-range ones belong to C15/C20); a bare number given to set_state is in "
                           "the system's units_system (RDSystem.units_system documentation)",
                           "set_default_*(override dict) and reset_state() are outside the statement and not exercised"])
    run.require("state_entries", "chemostat_entries", "tagged_getter_calls", "setter_calls", "frame_checks", "regen_checks")
    thorough = tier() == "thorough"
    n_total = 10000 if thorough else 1200
    cases = [{"seed": seed(), "idx": i} for i in range(n_total)]
    res = pmap("vf.checks.c13:run_case", cases, cpu_budget=120)
    for cs, r_ in zip(cases, res):
        if r_["status"] != "ok":
            if r_["status"] == "exception":
                run.violation("harness exception", {"case": cs, "error": r_.get("error"), "tb": r_.get("tb")},
                              mech={"what": "harness exception", "error": r_.get("error", "")})
            elif r_["status"] in ("crash", "hang"):
                run.violation("python " + r_["status"], {"case": cs, "result": {k: r_[k] for k in r_ if k != "i"}})
            else:
                run.inconclusive_because("case %s: %s" % (cs, r_["status"]))
            continue
        v = r_["value"]
        run.case(v["key"], nontrivial=v["nontrivial"], sample=v.get("sample"))
        for k_, n_ in v["counts"].items():
            run.count(k_, n_)
        for b in v["bad"]:
            run.violation(b["what"].split(":")[0], b,
                          mech={"what": b["what"], "space": b.get("space"), "lookup": b.get("lookup"),
                                "species_form": b.get("species_form"), "position_form": b.get("position_form"),
                                "value_form": b.get("value_form"), "error": b.get("error", "")})
    # ---- history workloads: objects used, modified through their setters / re-used, used again (vf/history.py) ----
    from vf.sandbox import run_extra as _run_extra
    from vf.common import seed as _seed, tier as _tier
    _run_extra(run, "vf.history:h_space_edits", [{"seed": _seed(), "idx": _i} for _i in range(2400 if _tier() == "thorough" else 240)], cpu_budget=60, kind_prefix="history: ")
    _run_extra(run, "vf.checks.c13:run_large_default", [{"seed": _seed(), "idx": _i} for _i in range(60 if _tier() == "thorough" else 6)], cpu_budget=300)
    run.require("large_default_entries")
    # objects built with default arguments do not share them (vf/history.py: h_default_isolation)
    from vf.sandbox import run_extra as _rx
    from vf.common import seed as _sd0, tier as _tr0
    _w = ['species', 'system', 'grid', 'graphnode']
    _rx(run, "vf.history:h_default_isolation", [{"seed": _sd0(), "idx": _i, "which": _w[_i % len(_w)]} for _i in range(1400 if _tr0() == "thorough" else 140)],
        cpu_budget=60, kind_prefix="history: ")
    # a key left out of a dictionary means the constructor's documented default, in the object's own units (vf/history.py)
    from vf.sandbox import run_extra as _rxd
    from vf.common import seed as _sdd, tier as _trd
    _wd = ['node', 'grid', 'species', 'edge']
    _rxd(run, "vf.history:h_dict_defaults", [{"seed": _sdd(), "idx": _i, "which": _wd[_i % len(_wd)]} for _i in range(1200 if _trd() == "thorough" else 120)],
         cpu_budget=60, kind_prefix="history: ")
    return run.finish()


if __name__ == "__main__":
    sys.exit(main())
