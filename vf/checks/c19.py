"""C19 - Reaction equations: stoichiometry, order and rate-constant dimensions.

Workload: an equation is a *structured list* of (coefficient, label) terms per side.  It is
rendered to text with arbitrary spacing (spaces / tabs, possibly none, around '+' and '->',
at least one between a coefficient and its label; coefficient 1 implicit or explicit) and
given to strengths.Reaction.  The oracle is the structured list itself (repeats summed) and the
exact rational SI table vf.si for the rate constants.

Monitors (counters in the evidence):
  parse       substrates/products/ssto/psto/dsto/order/rorder/get_*_stoichiometry of Reaction(text)
  roundtrip   Reaction(r.to_string()) == r on ssto/psto over the label list
  listform    Reaction([subs, prods]) gives the same reaction
  bare_k      a bare number gets amount^(1-n).length^(3n-3)/time in the reaction's units system (SI value)
  units_k     right dimension in other units (str / UnitValue / per-environment dict): accepted, SI unchanged
  wrong_dim   another dimension: rejected (any exception)
  split       two irreversible reactions, sides swapped, same constants (SI)
  K           kf/kr in SI, dimension = ratio, per environment (+ 'default'), None when kr == 0
  network_*   RDNetwork accepts the valid network, refuses an undeclared species / duplicate species
              label / duplicate reaction label (a refusal counts only if the corresponding valid
              network was accepted)
"""
import json
import math
import string
import sys
from fractions import Fraction as Fr

from vf import si, gen
from vf.common import Run, seed, tier, use_repo, chash
from vf.sandbox import pmap

REL = Fr(1, 10 ** 12)        # constants are stored, never converted
REL_K = Fr(1, 10 ** 10)      # K = kf/kr involves one float conversion with exponents up to 3n
K_LOG_LIMIT = 250.0          # |log10| of every intermediate float of kf/kr must stay below (double range)

# ---------------------------------------------------------------------------
# labels

PUNCT = "".join(c for c in string.punctuation if c != "+")          # contains '-' and '>' (never as '->')
NONASCII = "αβγλπΩµÅéñüçøßЖдяЩ中水素あア한بج٣६①Ⅳℵ½²😀🧪"
ALPHABETS = {
    "letters": string.ascii_letters,
    "alnum": string.ascii_letters + string.digits + "_",
    "punct": PUNCT,
    "nonascii": NONASCII,
    "all": string.ascii_letters + string.digits + PUNCT + NONASCII,
}
for _a in ALPHABETS.values():
    assert not any(c.isspace() for c in _a) and "+" not in _a
NUMLIKE = ["2", "10", "007", "3.5", "1e3", "-1", "٣", "0", "1", "9", "1_0", ".5", "12", "६", "-0", "1.", "0x1F"]
CLASSES = ["letters", "alnum", "punct", "nonascii", "all", "numlike", "mixed"]
ENVS = ["cyt", "mem", "nuc", "ext", "a", "B2", "π", "", "2"]      # "" is the stock environment of a network

WS_SEP = ["", "", " ", " ", "  ", "\t", " \t", "\t ", "   "]   # around '+', '->', at the ends
WS_REQ = [" ", " ", "\t", "  ", " \t", "\t\t "]                   # between a coefficient and its label
COEFS = [0] * 2 + [1] * 9 + [2] * 5 + [3] * 3 + [4, 5, 6, 7, 8, 9]


def valid_label(l):
    """the documented label rules (whitespace taken as str.isspace)"""
    return bool(l) and "+" not in l and "->" not in l and not any(c.isspace() for c in l)


def numeric_looking(l):
    """a term consisting of this label alone could be read as a coefficient: always written with one"""
    for f in (int, float):
        try:
            f(l)
            return True
        except ValueError:
            pass
    return all(c.isdigit() or c.isnumeric() for c in l)


def rand_label(r, cls):
    if cls == "mixed":
        cls = r.choice(CLASSES[:-1])
    if cls == "numlike":
        return r.choice(NUMLIKE)
    alpha = ALPHABETS[cls]
    while True:
        l = "".join(r.choice(alpha) for _ in range(r.choice([1, 1, 2, 2, 3, 4, 6])))
        if valid_label(l):
            return l


def rand_pool(r, cls, n, avoid=()):
    pool = []
    guard = 0
    while len(pool) < n:
        guard += 1
        l = rand_label(r, cls if guard < 200 else "all")    # (a small class can run out of new labels)
        if l not in pool and l not in avoid:
            pool.append(l)
    return pool


# ---------------------------------------------------------------------------
# equations

def rand_side(r, pool, cap):
    while True:
        nt = r.choice([0, 1, 1, 1, 2, 2, 2, 3, 3, 4])
        terms = [[r.choice(COEFS), r.choice(pool)] for _ in range(nt)]
        if cap is None or sum(c for c, _ in terms) <= cap:
            return terms


def rand_equation(r, pool):
    cap = 8 if r.random() < 0.85 else None
    return rand_side(r, pool, cap), rand_side(r, pool, cap)


def render_side(r, terms):
    out = ""
    for i, (c, l) in enumerate(terms):
        if i:
            out += r.choice(WS_SEP) + "+" + r.choice(WS_SEP)
        if c == 1 and not numeric_looking(l) and r.random() < 0.6:
            out += l
        else:
            out += str(c) + r.choice(WS_REQ) + l
    return out


def render_eq(r, sub, prod):
    return (r.choice(WS_SEP) + render_side(r, sub) + r.choice(WS_SEP) + "->" + r.choice(WS_SEP)
            + render_side(r, prod) + r.choice(WS_SEP))


def summed(terms):
    d = {}
    for c, l in terms:
        d[l] = d.get(l, 0) + c
    return d


def nontrivial(sub, prod):
    return (len(sub) >= 2 or len(prod) >= 2 or sum(c for c, _ in sub) >= 2 or sum(c for c, _ in prod) >= 2)


# ---------------------------------------------------------------------------
# rate constants: descriptions (JSON-able), rendering, expected SI

def rand_num(r, allow_zero=True):
    c = r.random()
    if allow_zero and c < 0.15:
        return r.choice([0, 0.0])
    if c < 0.35:
        return r.choice([1, 2, 3, 10, 1.0, 0.5, 2.5])
    if c < 0.7:
        return r.uniform(0.01, 100.0)
    return 10 ** r.uniform(-6, 6)


def rand_entry(r, rsys, allow_zero=True, forms=("bare", "bare", "str", "uv", "uvu")):
    form = r.choice(forms)
    own = rsys if form == "bare" or r.random() < 0.25 else gen.rand_sys(r)
    return {"form": form, "num": rand_num(r, allow_zero), "sys": list(own), "style": r.choice([0, 1]),
            "ws": r.choice([" ", "  ", "\t"])}


def rand_const(r, envs, rsys, p_zero=0.0):
    if r.random() < 0.6:
        if r.random() < p_zero:
            return {"kind": "scalar", "entry": {"form": "bare", "num": 0, "sys": list(rsys), "style": 0, "ws": " "}}
        return {"kind": "scalar", "entry": rand_entry(r, rsys)}
    keys = [e for e in envs if r.random() < 0.7]
    if r.random() < 0.5 or not keys:
        keys.append("default")
    r.shuffle(keys)
    entries = {k: rand_entry(r, rsys) for k in keys}
    joined = []
    named = [k for k in keys if k != "default"]
    if len(named) >= 2 and r.random() < 0.35:
        # documented shorthand: one key naming two, three or more environments that share a constant
        grp = r.sample(named, r.randint(2, len(named)))
        for k in grp[1:]:
            entries[k] = entries[grp[0]]
        joined.append(grp)
    return {"kind": "dict", "entries": entries, "joined": joined, "sep": r.choice([",", ", ", " , "])}


def entries_of(desc):
    return {None: desc["entry"]} if desc["kind"] == "scalar" else desc["entries"]


def render_entry(st, e, dim):
    dim = tuple(e.get("dim", dim))
    if e["form"] == "bare":
        return e["num"]
    s3 = tuple(e["sys"])
    ustr = si.unit_string(s3, dim, style=e["style"])
    if e["form"] == "str":
        return "%r%s%s" % (e["num"], e["ws"], ustr)
    if e["form"] == "uv":
        return st.UnitValue(e["num"], ustr)
    return st.UnitValue(e["num"], st.Units(st.UnitsSystem(**si.sys_dict(s3)),
                                            st.UnitsDimensions(space=dim[0], time=dim[1], quantity=dim[2])))


def render_const(st, desc, dim):
    if desc["kind"] == "scalar":
        return render_entry(st, desc["entry"], dim)
    out = {k: render_entry(st, e, dim) for k, e in desc["entries"].items()}
    for grp in desc.get("joined", []):
        if any(k not in out for k in grp) or any(desc["entries"][k] != desc["entries"][grp[0]] for k in grp):
            continue          # (a variant of the description changed one member of the group: written key by key)
        first = out[grp[0]]
        for k in grp:
            del out[k]
        out[desc.get("sep", ",").join(grp)] = first
    return out


def entry_si(e, dim):
    return Fr(e["num"]) * si.scale(tuple(e["sys"]), dim)


def lookup(desc, env):
    """reference per-environment lookup: entry, else 'default', else None (= zero)"""
    if desc["kind"] == "scalar":
        return desc["entry"]
    if env in desc["entries"]:
        return desc["entries"][env]
    return desc["entries"].get("default")


def wrong_dim(r, right, other):
    right = tuple(right)
    while True:
        c = r.random()
        if c < 0.25 and tuple(other) != right:
            d = tuple(other)                      # the dimension that fits the other direction
        elif c < 0.35:
            d = r.choice([(0, 0, 0), gen.DENS_DIM, gen.D_DIM, (0, 1, 0)])
        else:
            d = list(right)
            for _ in range(r.choice([1, 1, 2])):
                d[r.randrange(3)] += r.choice([-2, -1, 1, 2])
            d = tuple(d)
        if d != right:
            return d


def sf(fr):
    """float for messages; a decimal-exponent string when outside the double range"""
    if fr is None:
        return None
    try:
        return float(fr)
    except OverflowError:
        return "%s1e%+d" % ("-" if fr < 0 else "", int(_lg(abs(fr))))


def close(got, exact, rel):
    return abs(got - exact) <= abs(exact) * rel


def uv_si(v):
    """(exact SI value, dim3, sys3) of a strengths UnitValue"""
    d3 = si.dim_of(v.units.dim)
    s3 = si.sys_of(v.units.sys)
    x = float(v.value)
    if math.isnan(x) or math.isinf(x):
        return None, d3, s3
    return Fr(x) * si.scale(s3, d3), d3, s3


def _lg(fr):
    return math.log10(fr.numerator) - math.log10(fr.denominator)


def stored_sys(got, key, rsys):
    """units system in which the library holds a constant (a unit string leaves the bases it does not
    mention at their defaults); only used to decide whether kf/kr is representable, never for a value"""
    v = got.get(key, got.get("default")) if isinstance(got, dict) else got
    try:
        return si.sys_of(v.units.sys)
    except Exception:
        return tuple(rsys)


def k_in_float_range(numf, sysf, numr, sysr, dimr):
    """kf/kr as floats: 1/kr in kr's own system, converted to kf's system, times kf.  True when every
    intermediate stays far inside the double range (otherwise the comparison is skipped, not failed)."""
    acc = 0.0
    for kind, a, b, e in zip(si.KINDS, sysr, sysf, dimr):
        step = -e * _lg(si.BASE[kind][a] / si.BASE[kind][b])
        acc += step
        if abs(step) > K_LOG_LIMIT or abs(acc) > K_LOG_LIMIT:
            return False
    acc -= math.log10(abs(numr))
    if abs(acc) > K_LOG_LIMIT:
        return False
    if numf != 0 and abs(acc + math.log10(abs(numf))) > K_LOG_LIMIT:
        return False
    return True


# ---------------------------------------------------------------------------
# one equation

class Ctx:
    def __init__(self, base):
        self.base = base
        self.bad = []
        self.counts = {}

    def fail(self, what, **kw):
        if len(self.bad) < 12:
            self.bad.append({"what": what, **kw, **self.base})

    def count(self, name, n=1):
        self.counts[name] = self.counts.get(name, 0) + n


def err(e):
    return "%s: %s" % (type(e).__name__, str(e)[:200])


def check_sto(cx, tag, R, es, ep, L):
    """R's stoichiometry against the summed expected dictionaries es/ep over label list L"""
    ok = True

    def bad(what, **kw):
        nonlocal ok
        ok = False
        cx.fail("%s: %s" % (tag, what), **kw)
    try:
        for name, got, want in (("substrates", R.substrates, es), ("products", R.products, ep)):
            for l in set(got) | set(want):
                if got.get(l, 0) != want.get(l, 0):
                    bad(name, label=l, got=got.get(l, 0), expected=want.get(l, 0))
                    break
        ws = [es.get(l, 0) for l in L]
        wp = [ep.get(l, 0) for l in L]
        wd = [p - s for s, p in zip(ws, wp)]
        for name, f, want in (("ssto", R.ssto, ws), ("psto", R.psto, wp), ("dsto", R.dsto, wd)):
            got = [int(x) for x in f(list(L))]
            if got != want:
                bad(name, labels=list(L), got=got, expected=want)
        n, m = sum(es.values()), sum(ep.values())
        if R.order() != n:
            bad("order", got=R.order(), expected=n)
        if R.rorder() != m:
            bad("rorder", got=R.rorder(), expected=m)
        for l in L:
            if R.get_substrate_stoichiometry(l) != es.get(l, 0):
                bad("get_substrate_stoichiometry", label=l, got=R.get_substrate_stoichiometry(l), expected=es.get(l, 0))
                break
            if R.get_product_stoichiometry(l) != ep.get(l, 0):
                bad("get_product_stoichiometry", label=l, got=R.get_product_stoichiometry(l), expected=ep.get(l, 0))
                break
    except Exception as e:
        bad("exception while reading the stoichiometry", error=err(e))
    return ok


def check_const(cx, name, got, desc, dim, rsys):
    """stored constant `got` against its description: form, key set, dimension, SI value"""
    nb = ne = 0
    if desc["kind"] == "scalar":
        if type(got).__name__ != "UnitValue":
            cx.fail("constants: %s is not a UnitValue" % name, got=repr(got)[:100])
            return False
        pairs = [(None, got, desc["entry"])]
    else:
        if not isinstance(got, dict) or set(got) != set(desc["entries"]):
            cx.fail("constants: %s dictionary keys" % name, got=repr(got)[:200], expected=sorted(desc["entries"]))
            return False
        pairs = [(k, got[k], e) for k, e in desc["entries"].items()]
    ok = True
    for k, v, e in pairs:
        if type(v).__name__ != "UnitValue":
            cx.fail("constants: %s entry is not a UnitValue" % name, key=k, got=repr(v)[:100])
            ok = False
            continue
        val, d3, s3 = uv_si(v)
        if e["form"] == "bare":
            nb += 1
            tag = "bare number"
        else:
            ne += 1
            tag = "explicit units"
        if d3 != tuple(dim):
            cx.fail("constants: %s %s has the wrong dimension" % (name, tag), key=k, got=d3, expected=dim, entry=e)
            ok = False
            continue
        if val is None or not close(val, entry_si(e, dim), REL):
            cx.fail("constants: %s %s SI value" % (name, tag), key=k, got=sf(val),
                    expected=sf(entry_si(e, dim)), stored=str(v), entry=e, reaction_units=rsys)
            ok = False
        if e["form"] == "bare" and any(d and a != b for a, b, d in zip(s3, rsys, dim)):
            cx.fail("constants: %s bare number not in the reaction's units system" % name, key=k, got=s3, expected=rsys)
            ok = False
    cx.count("bare_k_checks", nb)
    cx.count("units_k_checks", ne)
    return ok


def same_const(cx, what, got, desc, dim):
    """constant of a split() half against the description of the parent's constant (SI, per key)"""
    ents = entries_of(desc)
    if desc["kind"] == "scalar":
        if type(got).__name__ != "UnitValue":
            cx.fail(what + ": not a UnitValue", got=repr(got)[:100])
            return
        pairs = [(None, got)]
    else:
        if not isinstance(got, dict) or set(got) != set(ents):
            cx.fail(what + ": keys differ", got=repr(got)[:200], expected=sorted(ents))
            return
        pairs = list(got.items())
    for k, v in pairs:
        val, d3, _ = uv_si(v)
        if d3 != tuple(dim):
            cx.fail(what + ": dimension", key=k, got=d3, expected=dim)
        elif val is None or not close(val, entry_si(ents[k], dim), REL):
            cx.fail(what + ": SI value differs", key=k, got=sf(val),
                    expected=sf(entry_si(ents[k], dim)))


def is_zero_const(v):
    if isinstance(v, dict):
        return all(type(x).__name__ == "UnitValue" and x.value == 0 for x in v.values())
    return type(v).__name__ == "UnitValue" and v.value == 0


def build(st, how, sto, kf, kr, us, label=None):
    if how == "ctor":
        return st.Reaction(sto, kf=kf, kr=kr, label=label, units_system=us)
    if how.startswith("dict"):
        # dictionary form, every key under one of its documented names (chosen by the suffix of `how`), the reaction's own
        # units system declared under a parent that has another one
        k_ = int(how[4:])
        d = {["stoichiometry", "eq", "sto", "equation"][k_ % 4]: sto, ["k+", "kf"][k_ % 2]: kf, ["k-", "kr"][(k_ // 2) % 2]: kr,
             ["units", "units_system", "units system", "u"][(k_ // 4) % 4]: (us if isinstance(us, dict) else {c_: us[c_] for c_ in ("space", "time", "quantity")})}
        if label is not None:
            d[["label", "l"][(k_ // 16) % 2]] = label
        return st.reaction_from_dict(d, parent_units_system=st.UnitsSystem(space="km", time="h", quantity="kmol"))
    R = st.Reaction(sto, label=label, units_system=us)
    if how == "set_k":
        R.set_k(kf, kr)
    else:
        R.kr = kr
        R.kf = kf
    return R


def check_one(st, sd, block, j):
    r = gen.rng_for(sd, "C19", block, j)
    cls = r.choice(CLASSES)
    pool = rand_pool(r, cls, r.choice([1, 2, 2, 3, 3, 4, 5]))
    sub, prod = rand_equation(r, pool)
    text = render_eq(r, sub, prod)
    es, ep = summed(sub), summed(prod)
    n, m = sum(es.values()), sum(ep.values())
    extras = rand_pool(r, cls, r.choice([0, 1, 2]), avoid=pool)
    L = pool + extras
    r.shuffle(L)
    L2 = [r.choice(L) for _ in range(r.randint(0, 4))]
    cx = Ctx({"case": {"seed": sd, "block": block, "j": j}, "text": text, "sub": sub, "prod": prod})
    info = {"key": chash([sub, prod]), "nontrivial": nontrivial(sub, prod),
            "sample": {"text": text, "substrates": sub, "products": prod, "label_class": cls, "orders": [n, m]}}

    # ---- parse ---------------------------------------------------------
    try:
        R = st.Reaction(text)
    except Exception as e:
        cx.fail("parse: exception on a valid equation", error=err(e))
        return info, cx
    check_sto(cx, "parse", R, es, ep, L)
    if L2:
        check_sto(cx, "parse", R, es, ep, L2)
    cx.count("parse_checks")

    # ---- print / parse back -------------------------------------------------
    try:
        printed = R.to_string()
        R2 = st.Reaction(printed)
        for name, a, b in (("ssto", R2.ssto(list(L)), R.ssto(list(L))), ("psto", R2.psto(list(L)), R.psto(list(L)))):
            if [int(x) for x in a] != [int(x) for x in b]:
                cx.fail("roundtrip: %s of Reaction(r.to_string()) differs from r" % name, printed=printed,
                        labels=list(L), got=[int(x) for x in a], expected=[int(x) for x in b])
        check_sto(cx, "roundtrip", R2, {l: c for l, c in es.items() if c}, {l: c for l, c in ep.items() if c}, L)
        cx.count("roundtrip_checks")
    except Exception as e:
        cx.fail("roundtrip: exception", error=err(e))

    # ---- list / dict constructor form ---------------------------------------
    try:
        pair = [dict(es), dict(ep)]
        R3 = st.Reaction(tuple(pair) if r.random() < 0.2 else pair)
        check_sto(cx, "listform", R3, es, ep, L)
        R4 = st.Reaction(R3.to_string())
        if [int(x) for x in R4.ssto(list(L))] != [es.get(l, 0) for l in L] or \
                [int(x) for x in R4.psto(list(L))] != [ep.get(l, 0) for l in L]:
            cx.fail("roundtrip: list-form reaction printed and parsed back differs", printed=R3.to_string())
        cx.count("listform_checks")
    except Exception as e:
        cx.fail("listform: exception on a valid [substrates, products] pair", error=err(e))

    # ---- rate constants -----------------------------------------------------
    rsys = r.choice(si.ALL_SYSTEMS)
    us = st.UnitsSystem(**si.sys_dict(rsys)) if r.random() < 0.75 else si.sys_dict(rsys)
    envs = r.sample(ENVS, r.randint(1, 3))
    dimf, dimr = gen.K_DIM(n), gen.K_DIM(m)
    kfd = rand_const(r, envs, rsys)
    krd = rand_const(r, envs, rsys, p_zero=0.3)
    how = r.choice(["ctor", "ctor", "set_k", "prop", "dict%d" % r.randrange(64)])
    sto = text if (r.random() < 0.6 or how.startswith("dict")) else [dict(es), dict(ep)]
    info["sample"].update({"units_system": rsys, "kf": kfd, "kr": krd})
    cx.base["constants"] = {"units_system": rsys, "kf": kfd, "kr": krd, "how": how,
                            "sto_form": "text" if isinstance(sto, str) else "list"}
    Rk = None
    try:
        Rk = build(st, how, sto, render_const(st, kfd, dimf), render_const(st, krd, dimr), us)
    except Exception as e:
        cx.fail("constants: exception on constants of the right dimension", error=err(e))
    if Rk is not None:
        try:
            check_const(cx, "kf", Rk.kf, kfd, dimf, rsys)
            check_const(cx, "kr", Rk.kr, krd, dimr, rsys)
        except Exception as e:
            cx.fail("constants: exception while reading kf/kr", error=err(e))

    # a constant of another dimension must be refused
    which = r.choice(["kf", "kr"])
    wdesc = json.loads(json.dumps(kfd if which == "kf" else krd))
    ents = entries_of(wdesc)
    wk = r.choice(sorted(ents, key=str))
    wd = wrong_dim(r, dimf if which == "kf" else dimr, dimr if which == "kf" else dimf)
    ents[wk].update({"form": r.choice(["str", "uv", "uvu"]), "dim": list(wd), "num": rand_num(r, allow_zero=False)})
    whow = r.choice(["ctor", "set_k", "prop"])
    wobj = render_const(st, wdesc, dimf if which == "kf" else dimr)
    good_other = render_const(st, krd, dimr) if which == "kf" else render_const(st, kfd, dimf)
    try:
        if which == "kf":
            out = build(st, whow, sto, wobj, good_other, us)
        else:
            out = build(st, whow, sto, good_other, wobj, us)
        cx.fail("constants: %s of another dimension accepted" % which, wrong_dim=wd,
                right_dim=dimf if which == "kf" else dimr, given=repr(wobj)[:200], how=whow,
                stored=str(getattr(out, which)))
    except Exception:
        cx.count("wrong_dim_rejections")

    if Rk is not None:
        # ---- split ------------------------------------------------------------
        try:
            halves = Rk.split()
            if len(halves) != 2:
                cx.fail("split: does not return two reactions", got=len(halves))
            else:
                fwd, rev = halves
                check_sto(cx, "split forward", fwd, es, ep, L)
                check_sto(cx, "split reverse", rev, ep, es, L)
                same_const(cx, "split: forward kf vs kf", fwd.kf, kfd, dimf)
                same_const(cx, "split: reverse kf vs kr", rev.kf, krd, dimr)
                if not is_zero_const(fwd.kr) or not is_zero_const(rev.kr):
                    cx.fail("split: a half is not irreversible", fwd_kr=str(fwd.kr), rev_kr=str(rev.kr))
                cx.count("split_checks")
        except Exception as e:
            cx.fail("split: exception", error=err(e))

        # ---- equilibrium constant ---------------------------------------------
        both_scalar = kfd["kind"] == "scalar" and krd["kind"] == "scalar"
        want_keys = {None} if both_scalar else set(kfd.get("entries", {})) | set(krd.get("entries", {})) | {"default"}
        zero_entry = {"form": "bare", "num": 0, "sys": list(rsys)}

        def representable(key):
            ef, er = lookup(kfd, key), lookup(krd, key)
            if er is None or er["num"] == 0:
                return True
            return k_in_float_range((ef or zero_entry)["num"], stored_sys(Rk.kf, key, rsys), er["num"],
                                    stored_sys(Rk.kr, key, rsys), dimr)
        use_property = r.random() < 0.5
        try:
            try:
                K = Rk.K if use_property else Rk.equilibrium_constant()
            except (OverflowError, ZeroDivisionError):
                if all(representable(k_) for k_ in want_keys):
                    raise
                # some kf/kr of this reaction is not a double in kf's units: no verdict on this one
                cx.count("K_skipped_float_range")
                K = None
                want_keys = set()
                both_scalar = False
            dimK = tuple(a - b for a, b in zip(dimf, dimr))
            if both_scalar:
                items = [(None, K)]
            elif not want_keys:
                items = []
            else:
                if not isinstance(K, dict) or not want_keys <= set(K):
                    cx.fail("K: per-environment keys", got=repr(K)[:200], expected=sorted(want_keys))
                    items = []
                else:
                    items = list(K.items())
            for key, kv in items:
                ef, er = lookup(kfd, key), lookup(krd, key)
                if er is None or er["num"] == 0:
                    if kv is not None:
                        cx.fail("K: not None although kr is 0", key=key, got=str(kv))
                    cx.count("K_none_checks")
                    continue
                if kv is None:
                    cx.fail("K: None although kr is not 0", key=key)
                    continue
                if ef is None:
                    ef = zero_entry
                if not representable(key):
                    cx.count("K_skipped_float_range")
                    continue
                val, d3, _ = uv_si(kv)
                exact = entry_si(ef, dimf) / entry_si(er, dimr)
                if d3 != dimK:
                    cx.fail("K: dimension is not dim(kf)/dim(kr)", key=key, got=d3, expected=dimK)
                elif val is None or not close(val, exact, REL_K):
                    cx.fail("K: SI value is not kf/kr", key=key, got=sf(val),
                            expected=sf(exact), K=str(kv))
                cx.count("K_checks")
        except Exception as e:
            cx.fail("K: exception", error=err(e))

    # ---- networks ---------------------------------------------------------------
    if r.random() < 0.25:
        network_stage(st, r, cx, cls, pool, (sub, prod, text))
    return info, cx


def network_stage(st, r, cx, cls, pool, first):
    pool2 = pool + rand_pool(r, cls, r.choice([0, 1, 2]), avoid=pool)
    eqs = [first]
    for _ in range(r.choice([1, 1, 2])):
        s_, p_ = rand_equation(r, pool2)
        eqs.append((s_, p_, render_eq(r, s_, p_)))
    named = []
    for s_, p_, _ in eqs:
        for _, l in s_ + p_:
            if l not in named:
                named.append(l)
    species = named + rand_pool(r, cls, r.choice([0, 1, 2]) if named else 1, avoid=named + pool2)
    r.shuffle(species)
    fresh = rand_pool(r, cls, len(eqs) + 2, avoid=species)
    rlabels = [None if r.random() < 0.4 else fresh[i] for i in range(len(eqs))]
    forms = [r.random() < 0.6 for _ in eqs]

    sp_cache, rx_cache = {}, {}

    def species_obj(l, new=False):
        if new or l not in sp_cache:
            o = st.Species(label=l, density=r.choice([0, 1, 2.5]), D=r.choice([0, 1]))
            if new:
                return o
            sp_cache[l] = o
        return sp_cache[l]

    def reaction_obj(i, lab):
        if (i, lab) not in rx_cache:
            s_, p_, t = eqs[i]
            rx_cache[(i, lab)] = st.Reaction(t if forms[i] else [summed(s_), summed(p_)], kf=1, kr=r.choice([0, 1]), label=lab)
        return rx_cache[(i, lab)]

    def mk(species_labels, reaction_labels, same_object=False):
        """the same Species / Reaction objects serve every variant; a repeated label gets an object of its own - or, with
        same_object, the very same object listed twice (one object, still two entries with one label)"""
        seen, sp = set(), []
        for l in species_labels:
            sp.append(species_obj(l, new=(l in seen) and not same_object))
            seen.add(l)
        rs = [reaction_obj(i, lab) for i, lab in enumerate(reaction_labels)]
        if same_object:
            first = {}
            for i_, lab_ in enumerate(reaction_labels):
                if lab_ is not None and lab_ in first:
                    rs[i_] = rs[first[lab_]]
                first.setdefault(lab_, i_)
        return st.RDNetwork(species=sp, reactions=rs)

    ctx = {"network": {"species": species, "equations": [t for _, _, t in eqs], "reaction_labels": rlabels}}

    def must_accept(what, sl, rl):
        try:
            net = mk(sl, rl)
            if list(net.species_labels()) != list(sl) or net.nreactions() != len(eqs):
                cx.fail("network: accepted network has other species / reactions", variant=what, **ctx)
                return False
            return True
        except Exception as e:
            cx.fail("network: valid network refused", variant=what, species_given=sl, labels_given=rl, error=err(e), **ctx)
            return False

    def must_refuse(what, counter, sl, rl, **kw):
        for same in ((False, True) if "duplicate" in what else (False,)):
            try:
                mk(sl, rl, same_object=same)
                cx.fail("network: " + what + (" (the same object listed twice)" if same else "") + " accepted", species_given=sl, labels_given=rl, **kw, **ctx)
            except Exception:
                pass
            cx.count(counter)

    if not must_accept("base", species, rlabels):
        return
    cx.count("network_valid")

    # undeclared species (named with a coefficient >= 1; only as substrate / only as product / both)
    in_sub = {l for s_, _, _ in eqs for _, l in s_}
    in_prod = {l for _, p_, _ in eqs for _, l in p_}
    pos = {l for s_, p_, _ in eqs for c, l in s_ + p_ if c >= 1}
    cats = {"substrate": sorted(pos & in_sub - in_prod), "product": sorted(pos & in_prod - in_sub),
            "both": sorted(pos & in_sub & in_prod)}
    cats = {k: v for k, v in cats.items() if v}
    if cats:
        cat = r.choice(sorted(cats))
        gone = r.choice(cats[cat])
        must_refuse("reaction naming an undeclared species", "network_undeclared_refused",
                    [l for l in species if l != gone], rlabels, undeclared=gone, named_as=cat)
        cx.count("network_undeclared_" + cat)

    # duplicate species label
    dup = r.choice(species)
    at = r.randint(0, len(species))
    other = fresh[-1]
    if must_accept("extra species with a new label", species[:at] + [other] + species[at:], rlabels):
        must_refuse("duplicate species label", "network_dup_species_refused",
                    species[:at] + [dup] + species[at:], rlabels, duplicated=dup)

    # duplicate reaction label
    i, k = r.sample(range(len(eqs)), 2)
    lab = rlabels[i] if rlabels[i] is not None else fresh[len(eqs)]
    ok_labels = list(rlabels)
    ok_labels[i] = lab
    ok_labels[k] = r.choice([None, fresh[len(eqs) + 1] if fresh[len(eqs) + 1] != lab else None])
    dup_labels = list(ok_labels)
    dup_labels[k] = lab
    if must_accept("distinct reaction labels", species, ok_labels):
        must_refuse("duplicate reaction label", "network_dup_reaction_refused", species, dup_labels, duplicated=lab)


# ---------------------------------------------------------------------------

def run_block(case):
    use_repo()
    import strengths as st
    keys, nt, bad, counts = [], [], [], {}
    nbad = 0
    sample = None
    js = [case["j"]] if "j" in case else range(case["n"])
    for j in js:
        info, cx = check_one(st, case["seed"], case["block"], j)
        keys.append(info["key"])
        if info["nontrivial"]:
            nt.append(info["key"])
            if sample is None and j >= case.get("sample_from", 0):
                sample = (info["key"], info["sample"])
        for k, v in cx.counts.items():
            counts[k] = counts.get(k, 0) + v
        nbad += len(cx.bad)
        if len(bad) < 12:
            bad.extend(cx.bad[:4])
    return {"keys": keys, "nontrivial": nt, "bad": bad[:12], "nbad": nbad, "counts": counts, "sample": sample}


def replay(path):
    w = json.load(open(path, encoding="utf-8"))["witness"]
    c = w["case"]
    res = run_block({"seed": c["seed"], "block": c["block"], "j": c["j"]})
    print(json.dumps({"bad": res["bad"], "counts": res["counts"]}, indent=1, default=str, ensure_ascii=False))
    return 1 if res["bad"] else 0


REQUIRED = ["parse_checks", "roundtrip_checks", "listform_checks", "bare_k_checks", "units_k_checks",
            "wrong_dim_rejections", "split_checks", "K_checks", "K_none_checks", "network_valid",
            "network_undeclared_refused", "network_undeclared_product", "network_undeclared_substrate",
            "network_dup_species_refused", "network_dup_reaction_refused"]


def main():
    if len(sys.argv) > 2 and sys.argv[1] == "--replay":
        return replay(sys.argv[2])
    run = Run("C19",
              rule="random equations = structured lists of (coefficient 0..9, label) terms, 0..4 terms per side, species "
                   "drawn from a pool of 1..5 labels (so repeats are common); labels of 1..6 characters over ASCII letters / "
                   "digits / all ASCII punctuation except '+' / non-ASCII letters, digits and symbols / number-looking labels, "
                   "never containing whitespace, '+' or '->'; rendered with random spaces/tabs (possibly none) around '+' and "
                   "'->', coefficient 1 implicit or explicit (a number-looking label always carries its coefficient). 85% of "
                   "the equations have orders <= 8 per side. Each equation: parse, print/parse back, [subs, prods] form; "
                   "constants in a random one of the 1100 unit systems as bare numbers / strings / UnitValue / per-environment "
                   "dictionaries (constructor, set_k or property), one constant of another dimension, split(), K; a quarter of "
                   "the equations also build RDNetworks (valid, undeclared species, duplicate species / reaction label). "
                   "Distinct = distinct structured equation; non-trivial = >= 2 terms or order >= 2 on some side.",
              assumptions=["the structured (coefficient, label) list is the oracle for the stoichiometry; vf/si.py for the constants",
                           "whitespace in the label rule is read as str.isspace (no-break space etc. are not generated)",
                           "a term made of a single number-looking token is ambiguous text and is not generated",
                           "K is compared only when kf/kr stays within 1e+-250 as doubles (counter K_skipped_float_range)"])
    run.require(*REQUIRED)
    thorough = tier() == "thorough"
    nblocks, per = (500, 1000) if thorough else (160, 400)   # ~0.3 CPU-min per 1000 equations (library deepcopies)
    cases = [{"seed": seed(), "block": b, "n": per, "sample_from": (b * 37) % per} for b in range(nblocks)]
    res = pmap("vf.checks.c19:run_block", cases, cpu_budget=900)
    for c, r_ in zip(cases, res):
        if r_["status"] != "ok":
            if r_["status"] == "exception":
                run.violation("harness exception", {"case": c, "error": r_.get("error"), "tb": r_.get("tb")})
            elif r_["status"] in ("crash", "hang"):
                run.violation("interpreter " + r_["status"], {"case": c, "result": {k: r_[k] for k in r_ if k != "i"}})
            else:
                run.inconclusive_because("block %s: %s" % (c["block"], r_["status"]))
            continue
        v = r_["value"]
        nts = set(v["nontrivial"])
        smp = v["sample"]
        for h in v["keys"]:
            run.case(h, nontrivial=h in nts, sample=None)
        if smp is not None and len(run.samples) < run.max_samples:
            run.samples.append(smp[1])
        for k_, n_ in v["counts"].items():
            run.count(k_, n_)
        if v["nbad"] > len(v["bad"]):
            run.count("violations_not_written_out", v["nbad"] - len(v["bad"]))
        for b in v["bad"]:
            run.violation(b["what"].split(":")[0], b, mech={"what": b["what"], "error": b.get("error", "")})
    # ---- history workloads: objects used, modified through their setters / re-used, used again (vf/history.py) ----
    from vf.sandbox import run_extra as _run_extra
    from vf.common import seed as _seed, tier as _tier
    _run_extra(run, "vf.history:h_reaction_setters", [{"seed": _seed(), "idx": _i} for _i in range(800 if _tier() == "thorough" else 80)], cpu_budget=120, kind_prefix="history: ")
    # objects built with default arguments do not share them (vf/history.py: h_default_isolation)
    from vf.sandbox import run_extra as _rx
    from vf.common import seed as _sd0, tier as _tr0
    _w = ['reaction', 'network']
    _rx(run, "vf.history:h_default_isolation", [{"seed": _sd0(), "idx": _i, "which": _w[_i % len(_w)]} for _i in range(1400 if _tr0() == "thorough" else 140)],
        cpu_budget=60, kind_prefix="history: ")
    # a key left out of a dictionary means the constructor's documented default, in the object's own units (vf/history.py)
    from vf.sandbox import run_extra as _rxd
    from vf.common import seed as _sdd, tier as _trd
    _wd = ['reaction']
    _rxd(run, "vf.history:h_dict_defaults", [{"seed": _sdd(), "idx": _i, "which": _wd[_i % len(_wd)]} for _i in range(1200 if _trd() == "thorough" else 120)],
         cpu_budget=60, kind_prefix="history: ")
    return run.finish()


if __name__ == "__main__":
    sys.exit(main())
