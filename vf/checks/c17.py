"""C17 - Trajectory accessors all read the same array consistently.

Workload
  * "shape" cases: RDTrajectory objects built directly from known arrays, for every shape
    (nsamples, nspecies, ncells) of the sweep, on every ordered factorisation w*h*d = ncells (non-cubic grids)
    and on a graph, with self-identifying data[n,s,c] = 1e6*n + 1e3*s + c and with random floats, data and
    times in random unit systems.
  * "sim" cases: trajectories produced by the Euler engine (in children) on random systems.

Monitors (all against values known before the repository code runs)
  point / state / per-cell trajectory == data[n*S*C + s*C + c], same number (bitwise) and the data's units;
  get_state(None, n) == the contiguous block; merged trajectory == sum over cells; species by label / index /
  Species object and cells by index / (x,y,z) tuple / object with x,y,z resolve as the row-major oracle says;
  get_sample_index(t, policy) == brute force over exact rationals.
"""
import json
import math
import sys
from fractions import Fraction as Fr

from vf import gen, ref, si
from vf.common import Run, seed, tier, use_repo, chash
from vf.sandbox import pmap

POLICIES = ("closest", "infeq", "supeq")
REL = Fr(1, 10 ** 9)          # a converted query this close to a decision boundary is not judged
CONV_REL = Fr(1, 10 ** 12)    # conversion accuracy that C06 grants
MAX_BAD = 6
T_DIM = (0, 1, 0)
Q_DIM = (0, 0, 1)


class Coord:
    """object with x, y, z members (the 'Coord like' form of a grid position)"""

    def __init__(self, x, y, z):
        self.x, self.y, self.z = x, y, z

    def __repr__(self):
        return "Coord(%d,%d,%d)" % (self.x, self.y, self.z)


# ---------------------------------------------------------------------------
# oracles

def lookup_oracle(policy, q, T):
    """over exact rationals; T strictly increasing.  Short lists: plain scan (the definition itself).  Long lists: the same
    answer by bisection on the exact values, cross-checked against the scan on the neighbouring samples."""
    if len(T) <= 64:
        return _lookup_scan(policy, q, T, range(len(T)))
    import bisect
    k = bisect.bisect_left(T, q)                  # T[k-1] < q <= T[k]
    window = range(max(0, k - 2), min(len(T), k + 2))
    if policy == "infeq" and k >= len(T):
        return len(T) - 1
    if policy == "supeq" and k >= len(T):
        return None
    return _lookup_scan(policy, q, T, window)


def _lookup_scan(policy, q, T, idxs):
    if policy == "closest":
        best = None
        for i in idxs:
            d = abs(q - T[i])
            if best is None or d < best[0]:      # strict: a tie keeps the earlier sample
                best = (d, i)
        return best[1]
    if policy == "infeq":
        c = [i for i in idxs if T[i] <= q]
        return max(c) if c else None
    c = [i for i in idxs if T[i] >= q]
    return min(c) if c else None


def factorizations(C):
    return [(w, h, C // (w * h)) for w in range(1, C + 1) if C % w == 0
            for h in range(1, C // w + 1) if (C // w) % h == 0]


def representable(q):
    try:
        return Fr(float(q)) == q
    except OverflowError:
        return False


# ---------------------------------------------------------------------------
# generation

def gen_times(r, N, mode):
    """strictly increasing sample times (exact Fractions of the floats handed over), time unit, and for
    mode 'grid' the lattice step: every time, midpoint and quarter point is a small dyadic multiple of it,
    so sums / differences / halves of them are exact in binary64 whatever way they are computed."""
    u = r.choice(list(si.TIME))
    if mode == "grid":
        partners = [v for v in si.TIME if v != u and (si.TIME[v] / si.TIME[u]).denominator == 1
                    and si.TIME[v] / si.TIME[u] <= 10 ** 6]
        partner = r.choice(partners) if partners and r.random() < 0.8 else None
        F = si.TIME[partner] / si.TIME[u] if partner else Fr(1)
        g = Fr(1, 2 ** r.randint(0, 6))
        start = r.choice([0, 0, r.randint(1, 400), -r.randint(1, 400)]) * 4 * g
        T = [start]
        regular = r.random() < 0.4        # evenly spaced samples (what a fixed-step run records) as well as irregular ones
        inc = 4 * g * r.randint(1, 60)
        for _ in range(N - 1):
            T.append(T[-1] + (inc if regular else 4 * g * r.randint(1, 60)))
        xs = Fr(1)
        if r.random() < 0.1:
            xs = Fr(2) ** r.choice([-600, -900, 500, 800])       # extreme but exactly representable time scales
        if N <= 12 and N >= 2 and r.random() < 0.15:
            # repeated times (an explicit sample() right after an automatic record gives two records at one time): the
            # time axis is then non-decreasing only; every policy is still defined by its wording
            for _ in range(r.randint(1, 2)):
                k = r.randrange(1, N)
                T[k] = T[k - 1]
            T.sort()
        T = [F * t * xs for t in T]
        for t in T:
            assert representable(t)
        return {"mode": mode, "unit": u, "T": T, "lattice": F * g * xs, "partner": partner}
    scale = 10 ** r.uniform(-3, 3)
    t0 = r.choice([0.0, r.uniform(0, 50) * scale, -r.uniform(0, 50) * scale])
    fl = [t0]
    for _ in range(N - 1):
        fl.append(fl[-1] + r.uniform(0.01, 10) * scale)
    assert all(a < b for a, b in zip(fl, fl[1:]))
    return {"mode": mode, "unit": u, "T": [Fr(x) for x in fl], "lattice": None, "partner": None}


def gen_positions(r, tm):
    """query positions (tag, exact value in the trajectory's time unit, bare_only)"""
    T = tm["T"]
    only = tm.get("only_samples")
    span = T[-1] - T[0]
    if tm["lattice"] is not None:
        step = 4 * tm["lattice"] * r.randint(1, 9)
    else:
        step = span / max(1, len(T) - 1) if span else (abs(T[0]) or Fr(1))
        step = Fr(float(step * Fr(r.randint(1, 16), 8)))
    pos = [("before", T[0] - step, False), ("far_before", T[0] - 1024 * (span + step), False)]
    for i, t in enumerate(T):
        if only is not None and i not in only:
            continue
        pos.append(("on", t, False))
        f = float(t)
        pos.append(("just_below", Fr(math.nextafter(f, -math.inf)), True))
        pos.append(("just_above", Fr(math.nextafter(f, math.inf)), True))
        if i + 1 < len(T):
            d = T[i + 1] - t
            pos.append(("mid", t + d / 2, False))
            if tm["lattice"] is not None and d != 0:
                # a hair (2^-22 of the interval) on either side of the middle: strictly closer to one sample, no tie
                pos.append(("past_mid", t + d / 2 + d / 2 ** 22, False))
                pos.append(("before_mid", t + d / 2 - d / 2 ** 22, False))
            pos.append(("between", t + d / 4, False))
            pos.append(("between", t + 3 * d / 4, False))
    pos.append(("after", T[-1] + step, False))
    pos.append(("far_after", T[-1] + 1024 * (span + step), False))
    out = []
    for tag, q, bare_only in pos:
        if not representable(q):          # float mode: take the nearest float, its exact value is the query
            q = Fr(float(q))
        out.append((tag, q, bare_only))
    return out


# ---------------------------------------------------------------------------
# monitors

class Ctx:
    def __init__(self, case):
        self.case = case
        self.bad = []
        self.counts = {}
        self.extra = {}

    def count(self, name, n=1):
        self.counts[name] = self.counts.get(name, 0) + n

    def report(self, what, **kw):
        if len(self.bad) < MAX_BAD:
            w = {"what": what}
            w.update(self.extra)
            w.update(kw)
            w["case"] = self.case
            self.bad.append(w)

    def full(self):
        return len(self.bad) >= MAX_BAD


def same_float(a, b):
    try:
        return float(a).hex() == float(b).hex()
    except Exception:
        return False


def units_match(units, want):
    """want = {"sys": sys3 or None, "sym": symbol of the non-zero base, "dim": dim3}"""
    try:
        d = si.dim_of(units.dim)
        s = si.sys_of(units.sys)
    except Exception:
        return False
    if tuple(d) != tuple(want["dim"]):
        return False
    if want.get("sys") is not None:
        return tuple(s) == tuple(want["sys"])
    k = [i for i, e in enumerate(want["dim"]) if e][0]
    return s[k] == want["sym"]


def udesc(units):
    try:
        return {"sys": list(si.sys_of(units.sys)), "dim": list(si.dim_of(units.dim))}
    except Exception:
        return repr(units)


def check_accessors(st, np, tr, info, r, cx):
    """info: N, S, C, flat (list of floats, the data in memory order), space (description), labels,
    dunits (expected units of the data), exact_sum (bool)"""
    N, S, C, flat = info["N"], info["S"], info["C"], info["flat"]
    sp = info["space"]
    isgrid = sp["type"] == "grid"
    full = N * S * C <= 125 and info.get("all_forms", True)
    species_objs = list(tr.system.network.species)

    def sforms(s, k=None):
        forms = [("index", s), ("label", info["labels"][s]), ("object", species_objs[s])]
        if k is not None:
            return [forms[k % 3]]
        return forms

    def cforms(c, k=None):
        if not isgrid:
            return [("index", c)]
        x, y, z = ref.grid_coords(sp, c)
        forms = [("index", c), ("tuple", (x, y, z)), ("object", Coord(x, y, z))]
        if k is not None:
            return [forms[k % 3]]
        return forms

    def at(n, s, c):
        return flat[n * S * C + s * C + c]

    def combos_of(s, c, k):
        """every species form with the linear cell index + every other cell form with the species index,
        or (large shapes, second data variant) one rotating combination"""
        if full:
            return [(a, cforms(c)[0]) for a in sforms(s)] + [(sforms(s)[0], b) for b in cforms(c)[1:]]
        return [(sforms(s, k)[0], cforms(c, k // 3)[0])]

    def note_forms(sf, cf):
        if sf != "index":
            cx.count("species_%s_checks" % sf)
        if cf is not None and cf != "index":
            cx.count("cell_%s_checks" % cf)

    # sizes
    try:
        dims = (tr.nsamples(), tr.nspecies(), tr.ncells())
        if dims != (N, S, C):
            cx.report("nsamples/nspecies/ncells differ from the trajectory's shape", got=list(dims), expected=[N, S, C])
    except Exception as e:
        cx.report("exception on valid call", call="nsamples/nspecies/ncells", error="%s: %s" % (type(e).__name__, e))
    k = r.randrange(9)
    # (1) point accessor
    for n in range(N):
        for s in range(S):
            for c in range(C):
                k += 1
                for (sf, sv), (cf, cv) in combos_of(s, c, k):
                    try:
                        v = tr.get_trajectory_point(sv, n, cv)
                        cx.count("point_checks")
                        note_forms(sf, cf)
                        if not (hasattr(v, "value") and same_float(v.value, at(n, s, c))):
                            cx.report("get_trajectory_point differs from data[n*S*C + s*C + c]", accessor="point",
                                      species=s, sample=n, cell=c, species_form=sf, cell_form=cf,
                                      got=repr(getattr(v, "value", v)), expected=at(n, s, c))
                        elif not units_match(v.units, info["dunits"]):
                            cx.report("get_trajectory_point: units are not the data's units", accessor="point_units",
                                      got=udesc(v.units), expected=info["dunits"])
                    except Exception as e:
                        cx.report("exception on valid call", call="get_trajectory_point", species_form=sf, cell_form=cf,
                                  species=s, sample=n, cell=c, error="%s: %s" % (type(e).__name__, e))
                    if cx.full():
                        return
    # (2) per-sample state of a species
    for n in range(N):
        for s in range(S):
            for sf, sv in sforms(s):
                try:
                    a = tr.get_state(sv, n)
                    cx.count("state_checks")
                    note_forms(sf, None)
                    vals = [float(x) for x in a.value]
                    want = [at(n, s, c) for c in range(C)]
                    if len(vals) != C or any(not same_float(x, y) for x, y in zip(vals, want)):
                        cx.report("get_state(s, n) differs from data[n, s, :]", accessor="state", species=s, sample=n,
                                  species_form=sf, got=vals[:12], expected=want[:12])
                    elif not units_match(a.units, info["dunits"]):
                        cx.report("get_state: units are not the data's units", accessor="state_units",
                                  got=udesc(a.units), expected=info["dunits"])
                except Exception as e:
                    cx.report("exception on valid call", call="get_state", species_form=sf, species=s, sample=n,
                              error="%s: %s" % (type(e).__name__, e))
                if cx.full():
                    return
    # (3) whole state
    for n in range(N):
        try:
            a = tr.get_state(None, n)
            cx.count("whole_state_checks")
            vals = [float(x) for x in a.value]
            want = flat[n * S * C:(n + 1) * S * C]
            if len(vals) != S * C or any(not same_float(x, y) for x, y in zip(vals, want)):
                cx.report("get_state(None, n) is not the sample's contiguous block", accessor="whole_state", sample=n,
                          got=vals[:16], expected=want[:16])
            elif not units_match(a.units, info["dunits"]):
                cx.report("get_state(None): units are not the data's units", accessor="whole_state_units",
                          got=udesc(a.units), expected=info["dunits"])
        except Exception as e:
            cx.report("exception on valid call", call="get_state(None)", sample=n, error="%s: %s" % (type(e).__name__, e))
        if cx.full():
            return
    # (4) per-cell trajectory of a species
    for s in range(S):
        for c in range(C):
            k += 1
            for (sf, sv), (cf, cv) in combos_of(s, c, k):
                try:
                    a = tr.get_trajectory(sv, cv)
                    cx.count("trajectory_checks")
                    note_forms(sf, cf)
                    vals = [float(x) for x in a.value]
                    want = [at(n, s, c) for n in range(N)]
                    if len(vals) != N or any(not same_float(x, y) for x, y in zip(vals, want)):
                        cx.report("get_trajectory(s, c) differs from data[:, s, c]", accessor="trajectory", species=s,
                                  cell=c, species_form=sf, cell_form=cf, got=vals[:12], expected=want[:12])
                    elif not units_match(a.units, info["dunits"]):
                        cx.report("get_trajectory: units are not the data's units", accessor="trajectory_units",
                                  got=udesc(a.units), expected=info["dunits"])
                except Exception as e:
                    cx.report("exception on valid call", call="get_trajectory", species_form=sf, cell_form=cf,
                              species=s, cell=c, error="%s: %s" % (type(e).__name__, e))
                if cx.full():
                    return
    # (5) merged trajectory
    for s in range(S):
        for sf, sv in sforms(s):
            for with_pos in (False, True):
                try:
                    if with_pos:
                        cf, cv = cforms(r.randrange(C), r.randrange(3))[0]
                        a = tr.get_trajectory(sv, cv, merge=True)
                    else:
                        a = tr.get_trajectory(sv, merge=True)
                    cx.count("merge_checks")
                    note_forms(sf, None)
                    vals = [float(x) for x in a.value]
                    ok = len(vals) == N
                    want = []
                    for n in range(N):
                        row = [Fr(at(n, s, c)) for c in range(C)]
                        ex = sum(row)
                        want.append(float(ex))
                        if not ok:
                            continue
                        if info["exact_sum"]:
                            ok = same_float(vals[n], float(ex))
                        else:
                            tol = C * Fr(1, 2 ** 52) * sum(abs(x) for x in row)
                            ok = math.isfinite(vals[n]) and abs(Fr(vals[n]) - ex) <= tol
                    if not ok:
                        cx.report("get_trajectory(s, merge=True) is not the sum over cells", accessor="merge", species=s,
                                  species_form=sf, position_given=with_pos, got=vals[:12], expected=want[:12])
                    elif not units_match(a.units, info["dunits"]):
                        cx.report("merged trajectory: units are not the data's units", accessor="merge_units",
                                  got=udesc(a.units), expected=info["dunits"])
                except Exception as e:
                    cx.report("exception on valid call", call="get_trajectory(merge=True)", species_form=sf, species=s,
                              error="%s: %s" % (type(e).__name__, e))
                if cx.full():
                    return
    # the accessors must not have touched the array
    now = [float(x) for x in np.asarray(tr.data.value).reshape(-1)]
    cx.count("data_untouched_checks")
    if len(now) != len(flat) or any(not same_float(x, y) for x, y in zip(now, flat)):
        cx.report("trajectory data changed while reading it", accessor="data")


def check_lookup(st, tr, tm, r, cx, samples=None):
    """tm: unit, T (exact), lattice (Fraction or None), partner"""
    T = tm["T"]
    u = tm["unit"]
    mids = [(a + b) / 2 for a, b in zip(T, T[1:])]
    lattice = tm["lattice"]

    import bisect
    mids_set, T_set = set(mids), set(T)
    t_units = tr.t.units          # (read once: the accessor hands out a copy of the whole time array)

    def near(q, bnds):
        # bnds is sorted: only its members next to q can be within the relative distance
        k = bisect.bisect_left(bnds, q)
        return any(abs(q - b) <= REL * max(abs(q), abs(b)) for b in bnds[max(0, k - 2):k + 2])

    def on_lattice(q):
        # (a 2^24 times finer lattice than the samples': the hair's-breadth queries around the middles sit on it; everything
        # stays an integer multiple below 2^50, i.e. sums, differences and halves are exact in binary64)
        fine = lattice / 2 ** 24 if lattice is not None else None
        return fine is not None and (q / fine).denominator == 1 and abs(q / fine) < 2 ** 50

    others = [v for v in si.TIME if v != u]
    for tag, pos, bare_only in gen_positions(r, tm):
        queries = []     # (form, argument, exact value in u, conversion known exact?)
        f = float(pos)
        arg = int(f) if (f == int(f) and abs(f) < 2 ** 53 and r.random() < 0.5) else f
        queries.append(("number", arg, pos, True))
        if not bare_only:
            picks = [r.choice(others + [u])]
            if tm["partner"] is not None and tag in ("on", "mid", "between", "before", "after"):
                picks.append(tm["partner"])
            for u2 in picks:
                fac = si.TIME[u2] / si.TIME[u]
                v2 = float(pos / fac)
                if not math.isfinite(v2):
                    continue
                q = Fr(v2) * fac
                form = r.choice(["str", "UnitValue(str units)", "UnitValue(Units)"])
                if form == "str":
                    a = "%r %s" % (v2, u2)
                elif form == "UnitValue(str units)":
                    a = st.UnitValue(v2, u2)
                else:
                    s3 = (r.choice(list(si.SPACE)), u2, r.choice(list(si.QUANTITY)))
                    a = st.UnitValue(v2, st.Units(st.UnitsSystem(**si.sys_dict(s3)), st.UnitsDimensions(*T_DIM)))
                # what the library's own conversion makes of it (units.py is C06's subject, not C17's)
                try:
                    qlib = float(st.UnitValue(v2, u2).convert(t_units).value)
                except Exception:
                    qlib = None
                if qlib is None or not math.isfinite(qlib) or abs(Fr(qlib) - q) > CONV_REL * abs(q):
                    cx.count("lookup_skipped_conversion_off")
                    continue
                exact = u2 == u or (representable(q) and Fr(qlib) == q)
                queries.append((form, a, q, exact))
        for form, a, q, exact in queries:
            for pol in POLICIES:
                bnds = mids if pol == "closest" else T
                isnear = near(q, bnds)
                if isnear:
                    # decidable only if the query value is exactly what the function sees, and for 'closest'
                    # if the distances themselves are exact in binary64
                    if not exact or (pol == "closest" and not on_lattice(q)):
                        cx.count("lookup_skipped_near_boundary")
                        continue
                want = lookup_oracle(pol, q, T)
                try:
                    if pol == "closest" and r.random() < 0.3:
                        got = tr.get_sample_index(a)
                    else:
                        got = tr.get_sample_index(a, pol)
                except Exception as e:
                    cx.report("exception on valid call", call="get_sample_index", policy=pol, position=tag, form=form,
                              query=repr(a), times=[float(t) for t in T], t_unit=u,
                              error="%s: %s" % (type(e).__name__, e))
                    if cx.full():
                        return
                    continue
                cx.count("lookup_" + pol)
                cx.count("lookup_form_" + {"number": "number", "str": "str"}.get(form, "unitvalue"))
                if want is None:
                    cx.count("lookup_none_expected")
                if pol == "closest" and q in mids_set:
                    cx.count("lookup_exact_ties")
                if pol != "closest" and q in T_set:
                    cx.count("lookup_on_sample")
                if isnear and form != "number":
                    cx.count("lookup_converted_on_boundary")
                ok = (got is None) if want is None else \
                    (got is not None and not isinstance(got, bool) and isinstance(got, (int, np_integer())) and int(got) == want)
                if samples is not None and len(samples) < 4 and tag in ("mid", "on", "before", "after"):
                    samples.append({"times": [float(t) for t in T], "t_unit": u, "query": repr(a), "policy": pol,
                                    "position": tag, "expected": want, "got": got})
                if not ok:
                    cx.report("get_sample_index differs from brute force", accessor="lookup", policy=pol, position=tag,
                              form=form, query=repr(a), query_in_t_unit=float(q), times=[float(t) for t in T], t_unit=u,
                              got=repr(got), expected=want)
                    if cx.full():
                        return


def check_lookup_infinite(st, tr, tm, r, cx):
    """times beyond every sample, taken to the limit: +inf is after the last sample and -inf before the first one, in any
    time unit ('closest' is left out: every sample is equally far)"""
    T, u = tm["T"], tm["unit"]
    for sign, v in (("+inf", math.inf), ("-inf", -math.inf)):
        u2 = r.choice(list(si.TIME))
        form = r.choice(["number", "str", "UnitValue"])
        a = v if form == "number" else ("%r %s" % (v, u2) if form == "str" else st.UnitValue(v, u2))
        for pol in ("infeq", "supeq"):
            want = (len(T) - 1 if pol == "infeq" else None) if v > 0 else (None if pol == "infeq" else 0)
            try:
                got = tr.get_sample_index(a, pol)
            except Exception as e:
                cx.report("exception on valid call", call="get_sample_index", policy=pol, position=sign, form=form, query=repr(a),
                          error="%s: %s" % (type(e).__name__, e))
                continue
            cx.count("lookup_infinite_times")
            ok = (got is None) if want is None else (got is not None and not isinstance(got, bool) and int(got) == want)
            if not ok:
                cx.report("get_sample_index differs from brute force", accessor="lookup", policy=pol, position=sign, form=form,
                          query=repr(a), got=repr(got), expected=want, nsamples=len(T))


_NPI = []


def np_integer():
    if not _NPI:
        import numpy as np
        _NPI.append(np.integer)
    return _NPI[0]


# ---------------------------------------------------------------------------
# cases

def make_space(r, nenv, h, C, kind, whd=None):
    if kind == "grid":
        w, hh, d = whd
        return {"type": "grid", "w": w, "h": hh, "d": d, "cell_env": [r.randrange(nenv) for _ in range(C)],
                "cell_vol": h ** 3 * r.uniform(0.5, 2.0), "bc": dict(r.choice(gen.BCS))}
    return gen.rand_graph(r, nenv, h, nodes=(C, C), simple=True)


def make_units(st, r, sys3, dim3, sym):
    """Units object (full system known) or a bare unit string (only the symbol is known)"""
    if r.random() < 0.7:
        return st.Units(st.UnitsSystem(**si.sys_dict(sys3)), st.UnitsDimensions(*dim3)), \
            {"sys": list(sys3), "sym": sym, "dim": list(dim3)}
    return sym, {"sys": None, "sym": sym, "dim": list(dim3)}


def run_shape(case):
    use_repo()
    import numpy as np
    import strengths as st
    N, S, C = case["N"], case["S"], case["C"]
    sd, idx = case["seed"], case["idx"]
    r = gen.rng_for(sd, "C17", idx, N, S, C)
    cx = Ctx({k: case[k] for k in ("kind", "N", "S", "C", "seed", "idx", "more_lookups") if k in case})
    net = gen.rand_network(r, {"nspecies": (S, S), "nreactions": (0, 2)})
    labels = [s["label"] for s in net["species"]]
    facs = factorizations(C)
    if len(facs) > 9:
        r.shuffle(facs)
        facs = sorted(facs, key=lambda f: -sum(1 for x in f if x > 1))[:9]
    spaces = [("grid", f) for f in facs] + [("graph", None)]
    written = []
    lookup_samples = []
    ntraj = 0
    for j, (kind, whd) in enumerate(spaces):
        sp = make_space(r, len(net["envs"]), net["h"], C, kind, whd)
        desc = {"envs": net["envs"], "species": net["species"], "reactions": net["reactions"], "space": sp,
                "state": None, "chemostats": None, "h": net["h"]}
        try:
            system = gen.render_system(desc, gen.Rendering(r))
        except Exception as e:
            cx.report("valid system rejected", space=_space_brief(sp), error="%s: %s" % (type(e).__name__, e))
            continue
        for variant in ("selfid", "random"):
            if variant == "selfid":
                flat = [1e6 * n + 1e3 * s + c for n in range(N) for s in range(S) for c in range(C)]
            else:
                flat = [r.choice([0.0, r.uniform(0, 1), r.uniform(0, 1000) * 10 ** r.uniform(-6, 6), float(r.randint(0, 500))])
                        for _ in range(N * S * C)]
            dsys = gen.rand_sys(r)
            dunits, dwant = make_units(st, r, dsys, Q_DIM, dsys[2])
            tm = gen_times(r, N, "grid" if (j + (variant == "random")) % 2 == 0 else "float")
            tsys = (r.choice(list(si.SPACE)), tm["unit"], r.choice(list(si.QUANTITY)))
            tunits, twant = make_units(st, r, tsys, T_DIM, tm["unit"])
            tfl = [float(t) for t in tm["T"]]
            cx.extra = {"shape": [N, S, C], "space": _space_brief(sp), "data_variant": variant, "data_units": dwant,
                        "t_unit": tm["unit"]}
            try:
                data = st.UnitArray(flat if r.random() < 0.5 else np.array(flat, dtype=float), dunits)
                tarr = st.UnitArray(tfl, tunits)
                tr = st.RDTrajectory(data=data, t_sample=tarr, system=system)
            except Exception as e:
                cx.report("exception on valid call", call="RDTrajectory(...)", error="%s: %s" % (type(e).__name__, e))
                continue
            ntraj += 1
            # the object holds what it was given
            cx.count("construction_checks")
            got_d = [float(x) for x in np.asarray(tr.data.value).reshape(-1)]
            got_t = [float(x) for x in np.asarray(tr.t.value).reshape(-1)]
            if len(got_d) != len(flat) or any(not same_float(a, b) for a, b in zip(got_d, flat)) \
                    or not units_match(tr.data.units, dwant):
                cx.report("trajectory.data is not the array handed to the constructor", accessor="data")
                continue
            if len(got_t) != N or any(not same_float(a, b) for a, b in zip(got_t, tfl)) or not units_match(tr.t.units, twant):
                cx.report("trajectory.t is not the array handed to the constructor", accessor="t")
                continue
            info = {"N": N, "S": S, "C": C, "flat": flat, "space": sp, "labels": labels, "dunits": dwant,
                    "exact_sum": variant == "selfid", "all_forms": variant == "selfid"}
            check_accessors(st, np, tr, info, r, cx)
            if j == 0 or (kind == "graph" and case.get("more_lookups")):
                check_lookup(st, tr, tm, r, cx, lookup_samples)
                check_lookup_infinite(st, tr, tm, r, cx)
            if len(written) < 2:
                s_, n_, c_ = r.randrange(S), r.randrange(N), r.randrange(C)
                written.append({"space": _space_brief(sp), "data_variant": variant, "data_units": dwant,
                                "times": tfl, "t_unit": tm["unit"], "species": labels,
                                "probe": {"species": s_, "sample": n_, "cell": c_, "flat_index": n_ * S * C + s_ * C + c_,
                                          "data_value": flat[n_ * S * C + s_ * C + c_]}})
            if cx.full():
                break
        if cx.full():
            break
    cx.count("built_trajectories", ntraj)
    return {"key": "shape-%d-%d-%d" % (N, S, C), "nontrivial": sum(1 for x in (N, S, C) if x >= 2) >= 2,
            "bad": cx.bad, "counts": cx.counts,
            "sample": {"kind": "built", "shape": [N, S, C], "spaces": [_space_brief2(k, f) for k, f in spaces],
                       "trajectories": written, "lookups": lookup_samples[:3]}}


def _space_brief(sp):
    if sp["type"] == "grid":
        return {"type": "grid", "w": sp["w"], "h": sp["h"], "d": sp["d"]}
    return {"type": "graph", "nodes": len(sp["nodes"]), "edges": len(sp["edges"])}


def _space_brief2(kind, f):
    return "grid %dx%dx%d" % f if kind == "grid" else "graph"


def run_sim(case):
    use_repo()
    from vf import engines, simhelp
    engines.install()
    import numpy as np
    import strengths as st
    sd, idx = case["seed"], case["idx"]
    r = gen.rng_for(sd, "C17sim", idx)
    cx = Ctx({k: case[k] for k in ("kind", "seed", "idx")})
    kind = r.choice(["grid", "graph"])
    opts = {"space": kind, "net": {"nspecies": (1, 4), "nreactions": (0, 2)},
            "grid": {"dims": (1, 3), "max_cells": 12}, "graph": {"nodes": (1, 6), "simple": True}}
    desc = gen.rand_system(r, opts)
    sp = desc["space"]
    S, C = len(desc["species"]), gen.ncells(sp)
    labels = [s["label"] for s in desc["species"]]
    out_info = {"key": "sim-%s" % chash(desc), "nontrivial": False, "counts": cx.counts, "bad": cx.bad, "sample": None}
    try:
        system = gen.render_system(desc, gen.Rendering(r))
    except Exception as e:
        cx.report("valid system rejected", error="%s: %s" % (type(e).__name__, e))
        return out_info
    state = gen.state_of(desc)
    _, mag = ref.rate_law(desc, state, None)
    maxrate = ref.max_rate(desc, state)
    dt = 0.02 / maxrate
    nsamp = r.randint(1, 6)
    policy = r.choice(["on_iteration", "on_t_sample", "on_interval"])
    osys = gen.mild_sys(r)
    kw = {"dt_si": dt, "policy": policy, "usys": osys}
    if policy == "on_iteration":
        kw.update(t_sample_si=[0.0, 1000 * dt], t_max_si=1000 * dt)
        max_iter = nsamp - 1
    elif policy == "on_t_sample":
        ks = sorted(r.sample(range(0, 14), nsamp))
        kw.update(t_sample_si=[k * dt for k in ks])
        max_iter = 40
    else:
        step = r.randint(1, 3)
        kw.update(t_sample_si=[0.0, dt], interval_si=step * dt, t_max_si=(step * (nsamp - 1) + 0.5) * dt)
        max_iter = 40
    cx.extra = {"space": _space_brief(sp), "nspecies": S, "ncells": C, "sampling": policy}
    try:
        script = simhelp.make_script(system, r, **kw)
        eng = engines.get("euler")
        eng.setup(script)
        if max_iter > 0:
            simhelp.drive(eng, max_iter)
        tr = eng.get_output()
        eng.finalize()
    except Exception as e:
        cx.report("exception on valid call", call="euler simulation", error="%s: %s" % (type(e).__name__, e))
        return out_info
    cx.count("sim_trajectories")
    try:
        tvals = [float(x) for x in np.asarray(tr.t.value).reshape(-1)]
        flat = [float(x) for x in np.asarray(tr.data.value).reshape(-1)]
        N = len(tvals)
    except Exception as e:
        cx.report("exception on valid call", call="trajectory.t / .data", error="%s: %s" % (type(e).__name__, e))
        return out_info
    cx.extra["nsamples"] = N
    if N < 1 or len(flat) != N * S * C:
        cx.report("simulated trajectory: data length is not nsamples*nspecies*ncells", accessor="sim_shape",
                  data_length=len(flat), nsamples=N)
        return out_info
    dwant = {"sys": None, "sym": si.sys_of(tr.data.units.sys)[2], "dim": list(Q_DIM)}
    if si.dim_of(tr.data.units.dim) != Q_DIM or si.dim_of(tr.t.units.dim) != T_DIM:
        cx.report("simulated trajectory: data / t do not have amount / time dimensions", accessor="sim_units",
                  data_units=udesc(tr.data.units), t_units=udesc(tr.t.units))
        return out_info
    dwant["sys"] = list(si.sys_of(tr.data.units.sys))
    info = {"N": N, "S": S, "C": C, "flat": flat, "space": sp, "labels": labels, "dunits": dwant, "exact_sum": False}
    if all(math.isfinite(x) for x in flat):
        check_accessors(st, np, tr, info, r, cx)
    else:
        cx.count("sim_nonfinite_skipped")
    if all(math.isfinite(x) for x in tvals) and all(a < b for a, b in zip(tvals, tvals[1:])):
        tm = {"mode": "sim", "unit": si.sys_of(tr.t.units.sys)[1], "T": [Fr(x) for x in tvals], "lattice": None, "partner": None}
        lk = []
        check_lookup(st, tr, tm, r, cx, lk)
        cx.count("sim_lookup_trajectories")
    else:
        lk = []
        cx.count("sim_times_not_strictly_increasing")
    out_info["key"] = "sim-%d-%d-%d-%s" % (N, S, C, sp["type"])
    out_info["nontrivial"] = sum(1 for x in (N, S, C) if x >= 2) >= 2
    out_info["sample"] = {"kind": "simulated (euler)", "shape": [N, S, C], "space": _space_brief(sp), "sampling": policy,
                          "times": tvals, "t_unit": si.sys_of(tr.t.units.sys)[1], "data_units": dwant,
                          "first_values": flat[:6], "lookups": lk[:2]}
    return out_info


def run_wide(case):
    """Grids of 130..2000 cells (more cells than an 8-bit coordinate type can count): the cell given as (x, y, z) in every
    container and integer type a caller may hold - tuple, list, numpy arrays and scalars from int8 / uint8 up to uint64,
    an object with numpy-scalar members, a numpy integer as linear index - read through the point and per-cell accessors
    against data[n, s, c] = 1e6 n + 1e3 s + c / 4096 (exact)."""
    use_repo()
    import numpy as np
    import strengths as st
    sd, idx = case["seed"], case["idx"]
    r = gen.rng_for(sd, "C17wide", idx)
    cx = Ctx({k: case[k] for k in ("kind", "seed", "idx")})
    while True:
        w, hh, d = r.randint(1, 40), r.randint(1, 40), r.randint(1, 6)
        C = w * hh * d
        if 130 <= C <= 2000:
            break
    N, S = 2, r.randint(1, 2)
    labels = ["A", "B"][:S]
    net = st.RDNetwork([st.Species(l, density=0) for l in labels], [])
    bc = r.choice([{"x": "reflecting", "y": "reflecting", "z": "reflecting"}, {"x": "periodical", "y": "periodical", "z": "periodical"},
                   {"x": "periodical", "y": "reflecting", "z": "periodical"}])
    space = st.RDGridSpace(w=w, h=hh, d=d, boundary_conditions=bc)
    system = st.RDSystem(net, space)
    flat = [1e6 * n + 1e3 * s + c / 4096.0 for n in range(N) for s in range(S) for c in range(C)]
    tr = st.RDTrajectory(data=st.UnitArray(np.array(flat), "molecule"), t_sample=st.UnitArray([0.0, 1.0], "s"), system=system)
    sp = {"w": w, "h": hh, "d": d}
    dtypes = ["int8", "uint8", "int16", "uint16", "int32", "uint32", "int64", "uint64"]
    cells = {0, C - 1} | {r.randrange(C) for _ in range(40)} | {r.randrange(max(1, C - 130), C) for _ in range(20)}
    for c in sorted(cells):
        x, y, z = ref.grid_coords(sp, c)
        fit = [t for t in dtypes if max(x, y, z) <= np.iinfo(t).max]
        forms = [("tuple", (x, y, z)), ("list", [x, y, z])]
        for t in r.sample(fit, min(3, len(fit))) + fit[:2]:
            forms.append(("array of " + t, np.array([x, y, z], dtype=t)))
            forms.append(("object with %s members" % t, Coord(getattr(np, t)(x), getattr(np, t)(y), getattr(np, t)(z))))
            forms.append(("tuple of " + t, tuple(getattr(np, t)(v) for v in (x, y, z))))
        for t in [t for t in dtypes if c <= np.iinfo(t).max][:3]:
            forms.append(("index as " + t, getattr(np, t)(c)))
        s_ = r.randrange(S)
        n_ = r.randrange(N)
        want_pt = flat[n_ * S * C + s_ * C + c]
        want_tr = [flat[n * S * C + s_ * C + c] for n in range(N)]
        for fname, pos in forms:
            cx.count("wide_grid_position_checks")
            cx.count("wide_grid_form:" + fname.split(" ")[0])
            try:
                v = tr.get_trajectory_point(labels[s_], n_, pos)
                a = tr.get_trajectory(s_, pos)
                got_tr = [float(q) for q in a.value]
                if not same_float(float(v.value), want_pt) or got_tr != want_tr:
                    cx.report("a cell given by coordinates reads another cell than the same coordinates as plain integers",
                              accessor="point/trajectory", cell_form=fname, grid=[w, hh, d], cell=c, coordinates=[x, y, z],
                              got=[float(v.value), got_tr], expected=[want_pt, want_tr])
            except Exception as e:
                cx.report("exception on valid call", call="get_trajectory_point/get_trajectory", cell_form=fname, grid=[w, hh, d],
                          cell=c, coordinates=[x, y, z], error="%s: %s" % (type(e).__name__, e))
            if cx.full():
                break
        if cx.full():
            break
    return {"key": "wide-%d-%d-%d" % (w, hh, d), "nontrivial": True, "bad": cx.bad, "counts": cx.counts,
            "sample": {"kind": "wide grid", "grid": [w, hh, d], "cells": C, "probed_cells": len(cells)}}


def run_long(case):
    """trajectories of 1024 .. 2049 samples (a look-up that switches to bisection beyond some length must still
    answer like the scan): the three policies around the first, the last, samples 1023 / 1024 and a few others, in all query forms"""
    use_repo()
    import numpy as np
    import strengths as st
    sd, idx = case["seed"], case["idx"]
    r = gen.rng_for(sd, "C17long", idx)
    cx = Ctx({k: case[k] for k in ("kind", "seed", "idx")})
    N = [1025, 1100, 1600, 1030, 2049, 1024][idx % 6]      # (the library's look-up costs ~0.1 ms per sample and query: sizes kept moderate)
    net = st.RDNetwork([st.Species("A", density=0)], [])
    system = st.RDSystem(net, st.RDGridSpace(w=1, h=1, d=1))
    tm = gen_times(r, N, "grid" if idx % 2 == 0 else "float")
    tm["only_samples"] = {0, N - 1, 1023 % N, 1024 % N, 256} | {r.randrange(N) for _ in range(3)}
    tsys = (r.choice(list(si.SPACE)), tm["unit"], r.choice(list(si.QUANTITY)))
    tunits, twant = make_units(st, r, tsys, T_DIM, tm["unit"])
    tr = st.RDTrajectory(data=st.UnitArray(np.arange(N, dtype=float), "molecule"), t_sample=st.UnitArray([float(t) for t in tm["T"]], tunits), system=system)
    cx.extra = {"samples": N, "t_unit": tm["unit"]}
    check_lookup(st, tr, tm, r, cx)
    cx.count("long_lookup_trajectories")
    return {"key": "long-%d-%d" % (N, idx), "nontrivial": True, "bad": cx.bad, "counts": cx.counts, "sample": {"kind": "long look-up", "samples": N}}


def run_case(case):
    if case["kind"] == "long":
        return run_long(case)
    if case["kind"] == "wide":
        return run_wide(case)
    return run_sim(case) if case["kind"] == "sim" else run_shape(case)


def replay(path):
    w = json.load(open(path))["witness"]
    res = run_case(w["case"])
    print(json.dumps({"bad": res["bad"], "counts": res["counts"]}, indent=1, default=str, ensure_ascii=False))
    return 1 if res["bad"] else 0


def mech_of(b):
    m = {"what": b["what"]}
    for k in ("accessor", "policy", "position", "form", "species_form", "cell_form", "call"):
        if k in b:
            m[k] = b[k]
    if "error" in b:
        m["error"] = b["error"].split(":")[0]
    return m


def main():
    if len(sys.argv) > 2 and sys.argv[1] == "--replay":
        return replay(sys.argv[2])
    thorough = tier() == "thorough"
    hi = 7 if thorough else 5
    run = Run("C17",
              rule="(1) every shape (nsamples, nspecies, ncells) in 1..%d^3 (exhaustive over the triples): RDTrajectory built "
                   "directly on every ordered factorisation w*h*d = ncells (non-cubic grids) and on a graph, data[n,s,c] = "
                   "1e6 n + 1e3 s + c and a random-float variant, data and times in random unit systems; every (species, "
                   "sample, cell) triple through get_trajectory_point / get_state / get_trajectory with species as index / "
                   "label / Species object and cell as index / (x,y,z) / object with x,y,z, bitwise against the known array; "
                   "get_state(None), merge=True; get_sample_index for closest / infeq / supeq against brute force over exact "
                   "rationals, queries before / on / one ulp around / midway (exact ties on dyadic lattices) / between / "
                   "after the samples as numbers, unit strings and UnitValues in other time units. (2) %s"
                   "(3) trajectories simulated with the Euler engine, same monitors against trajectory.data. "
                   "A case is a shape; non-trivial when at least two of the three extents are >= 2."
                   % (hi, "random larger shapes (up to 12 x 8 x 60); " if thorough else ""),
              assumptions=["sample times non-decreasing (repeats allowed in short built trajectories) and finite, nsamples >= 1",
                           "a query given in another unit is judged near a decision boundary (1e-9 relative) only when its "
                           "conversion is exact (rational value representable and reproduced by UnitValue.convert); "
                           "'closest' is judged at exact ties only on dyadic lattices where the distances are exact",
                           "merged trajectory of random floats compared with the exact sum within ncells*2^-52*sum|x|",
                           "SI time table vf/si.py is the oracle for query units"])
    run.require("point_checks", "state_checks", "trajectory_checks", "whole_state_checks", "merge_checks",
                "species_label_checks", "species_object_checks", "cell_tuple_checks", "cell_object_checks",
                "lookup_closest", "lookup_infeq", "lookup_supeq", "lookup_exact_ties", "lookup_on_sample",
                "lookup_none_expected", "lookup_form_number", "lookup_form_str", "lookup_form_unitvalue",
                "sim_trajectories", "sim_lookup_trajectories", "wide_grid_position_checks", "long_lookup_trajectories")
    sd = seed()
    cases = []
    sweep = [(n, s, c) for n in range(1, hi + 1) for s in range(1, hi + 1) for c in range(1, hi + 1)]
    for i, (n, s, c) in enumerate(sweep):
        cases.append({"kind": "shape", "N": n, "S": s, "C": c, "seed": sd, "idx": i, "sweep": True,
                      "more_lookups": thorough})
    if thorough:
        rr = gen.rng_for(sd, "C17big")
        for i in range(160):
            cases.append({"kind": "shape", "N": rr.randint(1, 12), "S": rr.randint(1, 8),
                          "C": rr.choice([8, 9, 10, 12, 16, 18, 20, 24, 27, 30, 36, 48, 60, rr.randint(8, 60)]),
                          "seed": sd, "idx": 100000 + i, "sweep": False})
    nsim = 800 if thorough else 192
    for i in range(nsim):
        cases.append({"kind": "sim", "seed": sd, "idx": i})
    for i in range(400 if thorough else 60):
        cases.append({"kind": "wide", "seed": sd, "idx": i})
    for i in range(48 if thorough else 8):
        cases.append({"kind": "long", "seed": sd, "idx": i})
    # heavy first so that the round-robin shares are balanced
    order = sorted(range(len(cases)), key=lambda k: -(cases[k].get("N", 3) * cases[k].get("S", 2) * cases[k].get("C", 3)))
    cases = [cases[k] for k in order]
    res = pmap("vf.checks.c17:run_case", cases, cpu_budget=600)
    sweep_done = set()
    for c, r_ in zip(cases, res):
        if r_["status"] != "ok":
            if r_["status"] in ("crash", "hang"):
                run.violation("engine " + r_["status"] if c["kind"] == "sim" else r_["status"],
                              {"case": c, "result": {k: r_[k] for k in r_ if k != "i"}},
                              mech={"what": r_["status"], "case_kind": c["kind"]})
            elif r_["status"] == "exception":
                run.violation("harness exception", {"case": c, "error": r_.get("error"), "tb": r_.get("tb")},
                              mech={"what": "harness exception"})
            else:
                run.inconclusive_because("case %s: %s" % (c, r_["status"]))
            continue
        v = r_["value"]
        run.case(v["key"], nontrivial=v["nontrivial"], sample=v.get("sample"))
        if c.get("sweep"):
            sweep_done.add((c["N"], c["S"], c["C"]))
        for k, n in v["counts"].items():
            run.count(k, n)
        for b in v["bad"]:
            run.violation(b["what"], b, mech=mech_of(b))
    complete = sweep_done == set(sweep)
    if not complete:
        run.inconclusive_because("shape sweep incomplete: %d of %d triples executed" % (len(sweep_done), len(sweep)))
    run.exhaustive = False
    run.note("shape_sweep", {"range": "nsamples, nspecies, ncells in 1..%d" % hi, "triples": len(sweep),
                             "executed": len(sweep_done), "exhaustive": complete,
                             "nontrivial_triples": sum(1 for t in sweep if sum(1 for x in t if x >= 2) >= 2)})
    run.note("exhaustive_part", "all %d shape triples in 1..%d, each on all ordered grid factorisations of ncells and a graph, "
                                "all (species, sample, cell) triples x species forms x cell forms; the input space itself "
                                "(shapes, times, queries) is unbounded, hence exhaustive=false overall" % (len(sweep), hi))
    # ---- history workloads: objects used, modified through their setters / re-used, used again (vf/history.py) ----
    from vf.sandbox import run_extra as _run_extra
    from vf.common import seed as _seed, tier as _tier
    _run_extra(run, "vf.history:h_species_reorder", [{"seed": _seed(), "idx": _i} for _i in range(2400 if _tier() == "thorough" else 240)], cpu_budget=60, kind_prefix="history: ")
    _run_extra(run, "vf.history:h_traj_outputs", [{"seed": _seed(), "idx": _i} for _i in range(2400 if _tier() == "thorough" else 240)], cpu_budget=60, kind_prefix="history: ")
    return run.finish()


if __name__ == "__main__":
    sys.exit(main())
