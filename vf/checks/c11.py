"""C11 - The native engine is memory-safe on every valid script.

The engine sources of the working tree are compiled twice with instrumentation and driven
through the normal Python API by the workloads of the other checks (sampling scripts of C09,
initial-state scripts of C14, conservation scripts of C02 incl. graphs with self-loops and
parallel edges, stochastic scripts of C07, lifecycle sequences of C10):

  asan  clang++-14 -fsanitize=address,undefined,float-cast-overflow -fsanitize-recover=all, runtime
        preloaded into the stock interpreter (so the ctypes buffers are red-zoned too); reports go to
        log files, one defect does not mask the rest; report blocks are parsed and de-duplicated by
        kind + first engine frame.
  hard  g++ -D_GLIBCXX_ASSERTIONS: aborts on vector index / front / back violations that stay inside an
        allocation and on library preconditions (distribution parameters).

A clean run is "no report on K scripts", not a proof of memory safety.
"""
import glob
import os
import re
import shutil
import sys

from vf import build, engines, simhelp
from vf.common import Run, seed, tier, use_repo, chash
from vf.sandbox import pmap

ENGINE_DIR_MARK = "strengths_engine/src"


def lifecycle_case(case):
    """valid single-engine lifecycle sequences (C10's model checks them too; here only the sanitizer watches)"""
    from vf.checks import c10
    return c10.run_one_sequence(case)


def degenerate_case(case):
    """degenerate shapes: 1-cell grids, periodic axes of length 1 and 2, isolated nodes, self-loops, parallel edges,
    networks without reactions / without species-reactions overlap, all policies, empty tails of the sample list"""
    use_repo()
    engines.install()
    import strengths as st
    from vf import gen
    r = gen.rng_for(case["seed"], "C11deg", case["idx"])
    kind_ = r.choice(engines.KINDS)
    S = r.randint(1, 3)
    labels = ["A", "B", "C"][:S]
    species = [st.Species(l, D=r.choice([0.0, 1.0, {"e0": 1.0, "e1": 0.0}]), density=0, chstt=r.random() < 0.2) for l in labels]
    rx = []
    if r.random() < 0.7:
        rx.append(st.Reaction("%s -> %s" % (labels[0], labels[-1]), kf=r.choice([0.0, 0.5]), kr=r.choice([0.0, 0.2])))
    if r.random() < 0.3:
        rx.append(st.Reaction(" -> %s" % labels[0], kf=0.5))
    if r.random() < 0.3:
        rx.append(st.Reaction("2 %s -> " % labels[0], kf=0.01))
    if r.random() < 0.35:
        # high orders on either side (the statement covers every valid script): the reverse direction of "A -> 4 B" is a
        # fifth-... order channel even when its constant is zero
        a, b = labels[0], labels[-1]
        eq = r.choice(["%s -> 4 %s" % (a, b), "2 %s + 3 %s -> %s" % (a, b, a), "%s -> 3 %s + 2 %s" % (a, a, b), "5 %s -> 6 %s" % (a, b),
                       "4 %s + 4 %s -> " % (a, b)])
        kf_ = r.choice([0.0, 1e-6])
        if a == b and eq.startswith("5 "):
            kf_ = 0.0        # quintic autocatalysis '5 A -> 6 A' from 150 molecules explodes within three steps (tau-leap then sits in the known overflow)
        rx.append(st.Reaction(eq, kf=kf_, kr=r.choice([0.0, 0.0, 1e-9])))
    if r.random() < 0.12:
        # many reactions (33..140 objects, i.e. 66..280 one-way channels): more than a small fixed-size table holds
        for j in range(r.randint(33, 140)):
            a, b = r.choice(labels), r.choice(labels)
            rx.append(st.Reaction("%d %s -> %d %s" % (1 + j % 3, a, 1 + (j // 3) % 3, b), kf=r.choice([0.0, 1e-4]), kr=r.choice([0.0, 1e-5])))
    net = st.RDNetwork(species, rx, environments=["e0", "e1"])
    if r.random() < 0.5:
        w, h, d = r.choice([(1, 1, 1), (2, 1, 1), (1, 2, 1), (1, 1, 2), (2, 2, 1), (3, 1, 1), (2, 2, 2), (1, 3, 2)])
        bc = {"x": r.choice(["reflecting", "periodical"]), "y": r.choice(["reflecting", "periodical"]),
              "z": r.choice(["reflecting", "periodical"])}
        n = w * h * d
        space = st.RDGridSpace(w=w, h=h, d=d, cell_env=[r.randrange(2) for _ in range(n)], boundary_conditions=bc)
    else:
        n = r.randint(1, 5)
        nodes = [st.RDGraphSpaceNode(volume=r.uniform(0.5, 2), environment=r.randrange(2)) for _ in range(n)]
        edges = []
        for _ in range(r.randint(0, 6)):
            i, j = r.randrange(n), r.randrange(n)      # self-loops and parallel edges welcome
            edges.append(st.RDGraphSpaceEdge(i, j, surface=r.uniform(0.5, 2), distance=r.uniform(0.5, 2)))
        space = st.RDGraphSpace(nodes, edges)
    state = [float(r.choice([0, 0, 1, 3, 20, 150])) for _ in range(S * n)]
    system = st.RDSystem(net, space, state=state)
    pol = r.choice(["on_t_sample", "on_t_sample", "on_interval", "on_iteration", "no_sampling"])
    ts = sorted(r.choice([0.0, 0.01, 0.02, 0.035, 0.05]) for _ in range(r.randint(1, 5)))
    tmax = r.choice(["default", 0.0, 0.02, 0.08])
    if r.random() < 0.12:
        ts, tmax = [], r.choice([0.02, 0.08])        # no requested time at all (records by hand or by another policy), explicit end
    isp = r.choice(["auto", "none", "redist", "Poisson"])
    kw = dict(system=system, t_sample=ts, time_step=0.01, sampling_policy=pol, sampling_interval=r.choice([0.005, 0.02, 0.02, 1e-22, 1e-300]),
              rng_seed=r.randrange(2 ** 31), init_state_processing=isp)
    if tmax != "default":
        kw["t_max"] = tmax
    script = st.RDScript(**kw)
    e = simhelp.kept_engine(kind_)
    e.setup(script)
    if r.random() < 0.5:
        # the caller goes on using ITS script object for something else: the running simulation must not notice
        tiny = st.RDSystem(st.RDNetwork([st.Species("Z")], []), st.RDGridSpace(w=1, h=1, d=1), state=[1.0])
        script.system = tiny
        script.t_sample = [0.0]
        script.sampling_policy = "on_iteration"
    for _ in range(r.randint(0, 3)):
        c = r.choice(["it", "n", "run", "sample", "out", "prog"])
        if c == "it":
            e.iterate()
        elif c == "n":
            e.iterate_n(r.choice([0, 1, 7]))
        elif c == "run":
            e.run(0)
        elif c == "sample":
            e.sample()
        elif c == "out":
            e.get_output()
        else:
            e.get_progress()
    if r.random() < 0.3:
        e.get_progress()
    e.iterate_n(40)
    if r.random() < 0.3:
        e.get_progress()
    out = e.get_output()
    e.finalize()
    if r.random() < 0.3:
        e.finalize()
    if r.random() < 0.35:
        # a set-up the library refuses (an engine object created with an option the library does not know), cleaned up with
        # finalize() as a try / finally would do, before and after a valid run: nothing may be freed twice or used after free
        import ctypes
        from strengths.librdengine import LibRDEngine
        bogus = LibRDEngine(ctypes.CDLL(engines.install()), option=r.choice(["rk4", "", "Euler", "gillespie "]),
                            description="description", requires_molecules=r.random() < 0.5)
        script2 = st.RDScript(system=system, t_sample=[0, 0.02], time_step=0.01, rng_seed=3)
        for _ in range(r.randint(1, 2)):
            try:
                bogus.setup(script2)
            except Exception:
                pass
            bogus.finalize()
        e2 = engines.get(kind_)
        e2.setup(script2)
        e2.iterate_n(5)
        e2.get_output()
        e2.finalize()
        bogus.finalize()
    return {"key": chash([case["idx"], kind_, pol, isp]), "engine": kind_, "policy": pol, "isp": isp, "cells": n, "nsamples": out.nsamples()}


WORKLOADS = [
    ("vf.checks.c11:degenerate_case", lambda sd, i: {"seed": sd, "idx": i}),
    ("vf.checks.c01:run_case", lambda sd, i: {"seed": sd, "idx": i, "python": False}),       # orders up to 4 on both sides
    ("vf.checks.c09:run_case", lambda sd, i: {"seed": sd, "idx": i}),
    ("vf.checks.c14:run_case", lambda sd, i: {"seed": sd, "idx": i}),
    ("vf.checks.c02:run_case", lambda sd, i: {"seed": sd, "idx": i, "long": False}),
    ("vf.checks.c07:run_case", lambda sd, i: {"seed": sd, "idx": i, "engine": ("gillespie", "tauleap")[i % 2], "events": 300, "steps": 100}),
]


def parse_reports(logdir):
    """[(kind, site, excerpt)] from ASan / UBSan log files"""
    reps = []
    for p in sorted(glob.glob(os.path.join(logdir, "san.*"))):
        try:
            txt = open(p, errors="replace").read()
        except OSError:
            continue
        # UBSan one-liners
        for m in re.finditer(r"^(\S+?):(\d+):(\d+): runtime error: (.*)$", txt, re.M):
            f, ln, _, msg = m.groups()
            if ENGINE_DIR_MARK in f or f.endswith((".hpp", "engine.cpp")):
                reps.append(("ubsan: " + re.sub(r"[-+]?\d+(\.\d+)?(e[-+]?\d+)?", "N", msg)[:80], "%s:%s" % (os.path.basename(f), ln), m.group(0)[:300]))
        # ASan blocks
        for m in re.finditer(r"ERROR: AddressSanitizer: (\S+)(.*?)(?=\n==\d+==ERROR|\Z)", txt, re.S):
            kind, body = m.group(1), m.group(2)
            site = "?"
            for fm in re.finditer(r"#\d+ 0x[0-9a-f]+ in (\S+) (\S+)", body):
                fn, loc = fm.groups()
                if ENGINE_DIR_MARK in loc or "engine-asan" in loc or loc.split(":")[0].endswith((".hpp", "engine.cpp")):
                    site = "%s %s" % (fn, os.path.basename(loc))
                    break
            reps.append(("asan: " + kind, site, ("ERROR: AddressSanitizer: " + kind + body)[:1500]))
    return reps


def mixed_case(case):
    """dispatcher so that one (slow to start) valgrind interpreter serves several workloads"""
    w = case["w"]
    if w == "deg":
        return degenerate_case(case)
    if w == "c14":
        from vf.checks import c14
        r_ = c14.run_case(case)
        r_.pop("obs", None)
        return {"bad": len(r_.get("bad", []))}
    from vf.checks import c09
    r_ = c09.run_case(case)
    return {"bad": len(r_.get("bad", []))}


def parse_memcheck(logdir):
    """memcheck error blocks that have at least one frame inside the engine (debug build: engine-debug-*.so / its sources)"""
    reps = []
    for p in sorted(glob.glob(os.path.join(logdir, "vg.*"))):
        try:
            txt = open(p, errors="replace").read()
        except OSError:
            continue
        blocks, cur = [], []
        for line in txt.split("\n"):
            m = re.match(r"^==\d+== (.*)$", line)
            if not m:
                continue
            body = m.group(1)
            if body.strip() == "":
                if cur:
                    blocks.append(cur)
                cur = []
            else:
                cur.append(body)
        if cur:
            blocks.append(cur)
        for b in blocks:
            title = b[0]
            if not re.match(r"(Invalid |Conditional jump|Use of uninitialised|Mismatched|Syscall param|Source and destination|Argument)", title):
                continue
            frames = [x for x in b[1:] if x.lstrip().startswith(("at 0x", "by 0x"))]
            eng = [x for x in frames if "engine-debug" in x or "engine.cpp" in x or re.search(r"(3D|Graph|Base)\.hpp", x)]
            if not eng:
                continue
            first_block = []
            for x in b[1:]:
                if x.lstrip().startswith(("at 0x", "by 0x")):
                    first_block.append(x)
                elif first_block:
                    break
            if not any(("engine-debug" in x or "engine.cpp" in x or re.search(r"(3D|Graph|Base)\.hpp", x)) for x in first_block):
                continue      # the faulting stack itself does not pass through the engine (only the allocation site does)
            site = re.sub(r"^\s*(at|by) 0x[0-9A-F]+: ", "", eng[0])[:140]
            reps.append(("memcheck: " + re.sub(r"\d+", "N", title)[:70], site, "\n".join(b[:14])[:1500]))
    return reps


def main():
    if len(sys.argv) > 2 and sys.argv[1] == "--replay":
        print("replay: re-run ./check C11 with the same VERIF_SEED; the witness names the workload and case index")
        return 0
    run = Run("C11",
              rule="instrumented builds of the working tree's engine driven through the Python API by: degenerate scripts (1-cell grids, "
                   "periodic axes of length 1-2, graphs with isolated nodes / self-loops / parallel edges, empty reaction lists, all "
                   "policies and init modes, empty tails of the sample list, t_max 0), C09 sampling scripts, C14 initial-state scripts, "
                   "C02 conservation scripts, C07 stochastic scripts and C10 lifecycle sequences; each under ASan+UBSan and under "
                   "_GLIBCXX_ASSERTIONS. A case is one script/sequence under one build; non-trivial = it reached the engine (always).",
              assumptions=["red-zone tools miss overflows that land inside another live object; uninitialised reads are only seen "
                           "by the thorough tier's valgrind replay when present",
                           "leaks are not claimed (detect_leaks=0): CPython and re-set-up without finalize leak by design"])
    run.require("asan_cases_ok", "hard_cases_ok")
    thorough = tier() == "thorough"
    sd = seed()
    try:
        asan_so = build.engine_path("asan")
        hard_so = build.engine_path("hard")
    except Exception as e:
        run.inconclusive_because("instrumented build failed: %s" % str(e)[:300])
        return run.finish()
    rt = build.asan_runtime()
    per = {"vf.checks.c11:degenerate_case": 4000 if thorough else 400, "vf.checks.c09:run_case": 2000 if thorough else 150, "vf.checks.c01:run_case": 2000 if thorough else 200,
           "vf.checks.c14:run_case": 4000 if thorough else 300, "vf.checks.c02:run_case": 1000 if thorough else 60,
           "vf.checks.c07:run_case": 300 if thorough else 24}
    import random
    rr = random.Random(sd)
    from vf.checks import c10
    seqs = []
    for i in range(3000 if thorough else 300):
        while True:
            sq = [rr.choice(["setup1", "setup2"])] + [rr.choice(c10.ALPHA) for _ in range(rr.randint(3, 10))]
            if c10.seq_valid(sq):
                break
        seqs.append({"kind": rr.choice(engines.KINDS), "seq": sq})
    for variant in ("asan", "hard"):
        env = {"VERIF_ENGINE_VARIANT": variant}
        if variant == "asan":
            # PYTHONMALLOC=malloc: every Python allocation (incl. the small ctypes argument buffers, which pymalloc would
            # carve out of its own arenas) goes through malloc and gets ASan red zones
            env.update({"LD_PRELOAD": rt, "PYTHONMALLOC": "malloc",
                        "ASAN_OPTIONS": "detect_leaks=0:halt_on_error=0:abort_on_error=0:log_path={wdir}/san:allocator_may_return_null=1:symbolize=1",
                        "UBSAN_OPTIONS": "print_stacktrace=0:halt_on_error=0:log_path={wdir}/san",
                        "ASAN_SYMBOLIZER_PATH": shutil.which("llvm-symbolizer-14") or shutil.which("llvm-symbolizer") or ""})
        groups = [(f, [mk(sd, i) for i in range(per[f])]) for f, mk in WORKLOADS]
        groups.append(("vf.checks.c11:lifecycle_case", seqs))
        for func, cases in groups:
            res, wdir = pmap(func, cases, cpu_budget=120 if variant == "asan" else 60, env=env, keep_dir=True)
            try:
                nok = 0
                for c, r_ in zip(cases, res):
                    key = chash([variant, func, c])
                    run.case(key, nontrivial=True, sample={"build": variant, "workload": func.split(":")[0].split(".")[-1], "case": c} if nok < 1 else None)
                    if r_["status"] == "ok":
                        nok += 1
                        run.count(variant + "_cases_ok")
                        continue
                    if r_["status"] == "crash":
                        err = (r_.get("stderr") or "")
                        m = re.search(r"Assertion '([^']*)' failed", err)
                        fn = re.search(r"([A-Za-z_:<>, ~\[\]=\w]+): Assertion", err)
                        what = "hardened-libstdc++ assertion: " + m.group(1) if m else "crash (signal %s)" % r_.get("signal")
                        site = ""
                        mm = re.search(r"(/[^\s:]+):(\d+): ([^\n]*?): Assertion", err)
                        if mm:
                            site = "%s:%s %s" % (os.path.basename(mm.group(1)), mm.group(2), mm.group(3)[:120])
                        run.violation(what[:90], {"build": variant, "workload": func, "case": c, "site": site, "stderr_tail": err[-600:]},
                                      mech={"what": what, "site": site, "build": variant})
                    elif r_["status"] == "hang":
                        run.violation("engine hang under instrumentation", {"build": variant, "workload": func, "case": c},
                                      mech={"what": "hang", "build": variant})
                    elif r_["status"] == "exception":
                        # the functional monitors of the borrowed workloads are not this check's business, but a harness
                        # failure would silently shrink the workload: report as inconclusive
                        run.count(variant + "_cases_exception")
                    else:
                        run.inconclusive_because("%s %s case: %s" % (variant, func, r_["status"]))
                if variant == "asan":
                    reps = parse_reports(wdir)
                    run.count("sanitizer_report_blocks", len(reps))
                    seen = {}
                    for kind, site, ex in reps:
                        seen.setdefault((kind, site), [0, ex])[0] += 1
                    for (kind, site), (n_, ex) in seen.items():
                        run.violation(kind[:90], {"site": site, "workload": func, "reports": n_, "excerpt": ex},
                                      mech={"what": kind, "site": site, "build": "asan"})
            finally:
                shutil.rmtree(wdir, ignore_errors=True)
    # ---- valgrind memcheck on the whole interpreter with a -O0 -g build: uninitialised values used by the engine
    #      (which ASan cannot see), invalid accesses inside allocations' slack; only blocks whose faulting stack passes
    #      through the engine are reported (CPython / ld.so noise is ignored)
    try:
        build.engine_path("debug")
        nvg = 60 if thorough else 6
        mixed = []
        for i in range(16 * nvg):
            mixed.append({"w": ("deg", "deg", "c14", "c09")[i % 4], "seed": sd, "idx": 50000 + i})
        vg_groups = [("vf.checks.c11:mixed_case", mixed)]
        env = {"VERIF_ENGINE_VARIANT": "debug", "PYTHONMALLOC": "malloc"}
        for func, cases in vg_groups:
            res, wdir = pmap(func, cases, cpu_budget=900, wall_budget=3000, env=env, keep_dir=True,
                             prefix=["valgrind", "--tool=memcheck", "--error-limit=no", "--num-callers=14", "--undef-value-errors=yes",
                                     "--log-file={wdir}/vg.%p"])
            try:
                for c, r_ in zip(cases, res):
                    run.case(chash(["memcheck", func, c]), nontrivial=True)
                    if r_["status"] == "ok":
                        run.count("memcheck_cases_ok")
                    elif r_["status"] in ("crash", "hang"):
                        run.violation("engine %s under memcheck" % r_["status"], {"workload": func, "case": c, "stderr": (r_.get("stderr") or "")[-300:]},
                                      mech={"what": r_["status"], "build": "memcheck"})
                reps = parse_memcheck(wdir)
                run.count("memcheck_report_blocks_in_engine", len(reps))
                seen = {}
                for kind, site, ex in reps:
                    seen.setdefault((kind, site), [0, ex])[0] += 1
                for (kind, site), (n_, ex) in seen.items():
                    run.violation(kind[:90], {"site": site, "workload": func, "reports": n_, "excerpt": ex},
                                  mech={"what": kind, "site": site, "build": "memcheck"})
            finally:
                shutil.rmtree(wdir, ignore_errors=True)
        run.require("memcheck_cases_ok")
    except build.BuildError as e:
        run.inconclusive_because("debug build failed: %s" % str(e)[:200])
    if run.monitors.get("asan_cases_exception", 0) + run.monitors.get("hard_cases_exception", 0) > 0.2 * max(1, run.evaluations):
        run.inconclusive_because("too many borrowed workload cases ended in a Python exception under instrumentation")
    return run.finish()


if __name__ == "__main__":
    sys.exit(main())
