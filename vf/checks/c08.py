"""C08 - A trajectory is a pure function of script, engine kind and seed.

Oracle: bitwise comparison (sha1 over the raw bytes of t and data) against a reference obtained
in a *fresh process* that does nothing else.  The other executions of the same (script, seed,
engine kind) differ in: the driving of the loop (iterate only / iterate_n(k) with random k /
run(ms) with ms in {0,1,2,5,1000} / random interleavings), the engine object (new or reused),
and what the process simulated before (other engines, other space type, other sizes, finalized
or abandoned).  Each execution reports the partition of the iteration sequence it realised
(iterations per call, measured from the engine clock / sample counter); the evidence reports
how many distinct partitions were seen and how many run(ms) calls really split a simulation.
"""
import ctypes
import hashlib
import os
import subprocess
import sys
import time

import math
import numpy as np

from vf import gen, ref, si, engines, simhelp
from vf.common import Run, seed, tier, use_repo, chash, ncpu, PY
from vf.sandbox import pmap

_ENG_CACHE = {}
MAXIT = 300000


def build_script(sd, idx, override_seed=None, policy=None, sibling=None):
    """deterministic (seed, idx) -> (desc, kind, RDScript); sized so a run takes a few ms.
    sibling=j: same engine kind, same shape (cells, species, reactions) but other boundary conditions / environment
    map / constants / state - what a cache keyed on part of the configuration would confuse with the original."""
    use_repo()
    r = gen.rng_for(sd, "C08", idx)
    kind_ = r.choice(engines.KINDS)
    if r.random() < 0.12:
        # constant-propensity catalytic network (tau-leap with the same Poisson mean >= 12 at every step)
        from vf.checks import c07
        desc, _, dt = c07.gen_tally_case(sd, idx)
        rd = gen.Rendering(r, molecule_state=True)
        system = gen.render_system(desc, rd)
        nst = r.choice([50, 200])
        ms = gen.mild_sys(r)
        sseed = r.randrange(2 ** 32) if override_seed is None else override_seed
        script = simhelp.make_script(system, r, dt_si=dt, t_sample_si=[0.0, dt * nst], policy=policy or "on_t_sample", t_max_si=dt * nst,
                                     usys=(ms[0], ms[1], "molecule"), isp="none", seed=sseed)
        return desc, "tauleap", script, {"engine": "tauleap", "space": desc["space"]["type"], "cells": gen.ncells(desc["space"]),
                                          "species": 3, "policy": "on_t_sample", "nsteps_planned": nst, "dt": dt, "family": "catalytic"}
    big = r.random() < 0.5
    sp_kind = r.choice(["grid", "graph"])
    opts = {"space": sp_kind, "explicit_chstt": 0.2, "integer_state": True, "state_counts": (1, 40), "p_zero": 0.1,
            "net": {"chstt": 0.1, "nreactions": (0, 3), "nspecies": (1, 3), "max_order": 2, "counts": (1, 40)},
            "grid": {"dims": (2, 6) if big else (1, 3), "max_cells": 80 if big else 12},
            "graph": {"nodes": (10, 40) if big else (1, 6), "simple": False, "p_edge": 0.15 if big else 0.45}}
    desc = gen.rand_system(r, opts)
    if sibling is not None:
        rs = gen.rng_for(sd, "C08sib", idx, sibling)
        sp_ = desc["space"]
        if sp_["type"] == "grid":
            sp_["bc"] = dict(rs.choice([b for b in gen.BCS if b != sp_["bc"]]))
            sp_["cell_env"] = [rs.randrange(len(desc["envs"])) for _ in sp_["cell_env"]]
        else:
            for e_ in sp_["edges"]:
                e_["sfc"] *= rs.uniform(0.5, 2.0)
            for nd_ in sp_["nodes"]:
                nd_["env"] = rs.randrange(len(desc["envs"]))
        for x_ in desc["reactions"]:
            for kk_ in ("kf", "kr"):
                x_[kk_] = ({e: v * 1.7 for e, v in x_[kk_].items()} if isinstance(x_[kk_], dict) else x_[kk_] * 1.7)
        desc["state"] = [float(rs.randint(1, 60)) for _ in gen.state_of(desc)]
    if r.random() < 0.5:
        # some entries well above 100 molecules (normal-approximation branch of the redistribution)
        desc["state"] = [x if r.random() < 0.5 else float(r.randint(100, 400)) for x in gen.state_of(desc)]
    state = gen.state_of(desc)
    _, mag = ref.rate_law(desc, state, None)
    maxrate = ref.max_rate(desc, state)
    tiny = kind_ == "euler" and r.random() < 0.15
    if tiny:
        # amounts in the subnormal range (about 1e-313): the deterministic engine's arithmetic must be the same whatever ran
        # before in the process (floating-point control state - rounding mode, flush-to-zero - is process-wide state too)
        desc["state"] = [x * 2.0 ** -1040 for x in state]
    rd = gen.Rendering(r, molecule_state=True)
    system = gen.render_system(desc, rd)
    nsteps = r.choice([200, 1000, 3000]) if kind_ != "gillespie" else r.choice([2000, 10000, 30000])
    if kind_ == "gillespie":
        horizon = nsteps / max(sum(mag), 1e-6)
        dt = horizon / 100
    else:
        dt = 0.01 / maxrate
        horizon = dt * nsteps
    dyadic = kind_ != "gillespie" and r.random() < 0.25
    if dyadic:
        # a power-of-two step counted in seconds: step times are exact and the run lands EXACTLY on t_max = nsteps * dt (the
        # step that completes the run is then the one after it)
        dt = 2.0 ** math.floor(math.log2(dt))
        horizon = dt * nsteps
    pol = policy or r.choice(["on_t_sample", "on_t_sample", "on_interval", "on_iteration"])
    if pol == "on_iteration" and nsteps > 3000:
        pol = "on_t_sample"
    ts = sorted(r.uniform(0, horizon) for _ in range(r.randint(1, 10))) + [horizon]
    ms = gen.mild_sys(r)
    # (a third of the scripts count amounts in another unit than molecules - the stochastic engines work in molecules
    # internally and hand the trajectory back in the script's unit)
    usys = (ms[0], ms[1] if not dyadic else "s", "molecule" if r.random() < 0.65 else ms[2])
    # seeds: mostly random, but also the edge values of the documented range (0 is a valid explicit seed)
    sseed = (r.choice([0, 0, 1, 2 ** 31 - 1, 2 ** 31, 2 ** 32 - 1]) if r.random() < 0.3 else r.randrange(2 ** 32)) \
        if override_seed is None else override_seed
    # every initial-state mode on every engine kind (the processing draws random numbers too, also above the
    # Poisson/normal switch at 100 molecules)
    isp = r.choice(["none", "auto", "auto", "redist", "Poisson"])
    if kind_ == "euler":
        isp = r.choice(["none", "auto"])      # with an explicit stochastic resampling mode the seed legitimately matters
    script = simhelp.make_script(system, r, dt_si=dt, t_sample_si=[0.0] + ts, policy=pol, t_max_si=horizon,
                                 interval_si=horizon / r.randint(3, 30), usys=usys, isp=isp, seed=sseed, **({"forms": ("bare",)} if dyadic else {}))
    return desc, kind_, script, {"engine": kind_, "space": sp_kind, "cells": gen.ncells(desc["space"]),
                                 "species": len(desc["species"]), "policy": pol, "nsteps_planned": nsteps, "dt": dt}


def digest(out):
    t = np.ascontiguousarray(np.array(out.t.value, dtype=float))
    d = np.ascontiguousarray(np.array(out.data.value, dtype=float))
    h = hashlib.sha1()
    h.update(t.tobytes())
    h.update(b"|")
    h.update(d.tobytes())
    return h.hexdigest(), len(t), int(d.size), [float(x) for x in d[-4:]]


def _progress_marker(eng, kind_, fixed):
    """something that counts iterations: engine clock / dt for fixed-step engines; clock itself otherwise"""
    return float(eng._lib.engineexport_get_time())


def drive(eng, kind_, dt_e, r, mode):
    """drive to completion; returns the partition (iterations per call where measurable) and call kinds"""
    parts, calls = [], []
    cont = True
    total = 0
    t_prev = float(eng._lib.engineexport_get_time())

    def measure():
        nonlocal t_prev
        t_now = float(eng._lib.engineexport_get_time())
        if kind_ == "gillespie":
            k = 1 if t_now != t_prev else 0     # not countable from the clock: record moved / not moved
        else:
            k = int(round((t_now - t_prev) / dt_e))
        t_prev = t_now
        return k
    ncalls = 0
    call_cap = {"run1": 30000, "run2": 15000, "run5": 6000, "run1000": 60}.get(mode, MAXIT)
    # a look at the partial trajectory in the middle of the run (a progress plot): reading is not driving - whatever calls follow,
    # the final trajectory is the one of the undisturbed run
    peek_at = r.choice([1, 2, 3, 5, 9]) if r.random() < 0.4 else None
    while cont and total < MAXIT and ncalls < call_cap:
        ncalls += 1
        if ncalls == peek_at:
            eng.get_output()
            calls.append("peek")
        if mode == "iterate":
            cont = eng.iterate()
            total += 1
            continue
        if mode == "poll":
            # the other public view of completion: the loop asks is_complete() instead of using what the loop call returned
            k = r.choice([1, 1, 2, 3, 7])
            eng.iterate_n(k) if r.random() < 0.7 else eng.run(0)
            cont = not eng.is_complete()
            total += k
            calls.append("poll")
            parts.append(measure())
            continue
        if mode == "iterate_n":
            k = r.choice([1, 2, 3, 7, 50, 400])
            cont = eng.iterate_n(k)
            total += k
            calls.append("n%d" % k)
            parts.append(measure())
            continue
        if mode.startswith("run"):
            ms_ = int(mode[3:])
            cont = eng.run(ms_)
            calls.append("run%d" % ms_)
            k = measure()
            parts.append(k)
            total += max(k, 1)
            continue
        # mix
        c = r.choice(["it", "n", "run0", "run1", "run2", "n0"])
        if c == "it":
            cont = eng.iterate()
            total += 1
        elif c == "n":
            k = r.choice([1, 5, 60])
            cont = eng.iterate_n(k)
            total += k
        elif c == "n0":
            prev = cont
            eng.iterate_n(0)       # no iteration: must not change anything (return value is C10's business)
            cont = prev
        else:
            cont = eng.run(int(c[3:]))
            total += 1
        calls.append(c)
        parts.append(measure())
    return parts, calls, total


def get_engine(kind_, reuse):
    if reuse:
        if kind_ not in _ENG_CACHE:
            _ENG_CACHE[kind_] = engines.get(kind_)
        return _ENG_CACHE[kind_]
    return engines.get(kind_)


def run_variant(case):
    """one execution of script (seed, idx) under a driving mode and a process history"""
    use_repo()
    engines.install()
    sd, idx, var = case["seed"], case["idx"], case["variant"]
    r = gen.rng_for(sd, "C08v", idx, var)
    desc, kind_, script, info = build_script(sd, idx)
    hist = []
    if case.get("history"):
        for hidx in case["history"]:
            # something else simulated earlier in this process (any kind / space / size), finalized or abandoned;
            # or a sibling of the script under test (same shape, other configuration); or the very same script
            if hidx == "same":
                d2, k2, s2, i2 = build_script(sd, idx)
            elif hidx == "same object":
                # the very script OBJECT under test, run earlier on an engine of any kind: a script is an input, running
                # it leaves it what it was
                # (on its own kind of engine or on the event-driven one: a fixed-step engine of ANOTHER kind would take the step
                # chosen for this kind - a step that is fine for Euler can send tau-leap into the known propensity overflow)
                d2, k2, s2, i2 = desc, r.choice([kind_, kind_, "gillespie"]), script, info
            elif isinstance(hidx, list):
                d2, k2, s2, i2 = build_script(sd, idx, sibling=hidx[1])
            else:
                d2, k2, s2, i2 = build_script(sd, hidx)
            e2 = get_engine(k2, r.random() < 0.5)
            e2.setup(s2)
            e2.iterate_n(r.choice([0, 1, 10, 100, 100000]))
            fin = r.random() < 0.6
            if fin:
                e2.get_output()
                e2.finalize()
            hist.append((hidx, k2, i2["space"], fin))
    mode = case["mode"]
    eng = get_engine(kind_, case.get("reuse", False))
    eng.setup(script)
    dt_e = float(script.time_step.convert(script.units_system).value)
    parts, calls, total = drive(eng, kind_, dt_e, r, mode)
    complete = eng.is_complete()
    out = eng.get_output()
    eng.finalize()
    dg, nt, nd, tail = digest(out)
    split_runs = sum(1 for c, p in zip(calls, parts) if c.startswith("run") and p > 0)
    return {"digest": dg, "nsamples": nt, "ndata": nd, "tail": tail, "complete": complete, "mode": mode,
            "partition": parts[:400], "ncalls": len(calls), "run_calls_that_advanced": split_runs, "history": hist,
            "info": info}


def run_extras(case):
    """(b) stored script reproduces the trajectory (also with a drawn seed); (c) Euler ignores the seed;
    (d) a different seed changes only stochastic results"""
    use_repo()
    engines.install()
    import strengths as st
    sd, idx = case["seed"], case["idx"]
    bad, counts = [], {}
    desc, kind_, script, info = build_script(sd, idx)
    # simulate_script() runs to completion without a cap: only use scripts that complete within the harness cap
    probe = engines.get(kind_)
    probe.setup(script)
    unfinished = probe.iterate_n(MAXIT)
    probe.finalize()
    if unfinished:
        return {"bad": [], "counts": {"extras_skipped_iteration_cap": 1}, "info": info}
    # drawn seed: rng_seed=None
    s2 = script.copy()
    s2.rng_seed = None
    out1 = st.simulate_script(s2, engines.get(kind_))
    if out1.nsamples() > 0 and case["idx"] % 2 == 0:
        # the trajectory's own system is the caller's to go on with (continue from the last state...): the stored script is
        # a record of what was run and must not follow such edits
        out1.system.state = out1.get_state(None, out1.nsamples() - 1)
        out1.system.set_state(0, 0, out1.system.get_state(0, 0) * 2 + st.UnitValue(1, "molecule"))
        counts["stored_script_reruns_after_editing_the_trajectory_system"] = 1
    out2 = st.simulate_script(out1.script, engines.get(kind_))
    counts["stored_script_reruns"] = 1
    if digest(out1)[0] != digest(out2)[0]:
        bad.append({"what": "simulate_script(out.script) does not reproduce out (seed drawn for rng_seed=None)",
                    "engine": kind_, "seed_in_output": out1.script.rng_seed})
    if out1.script.rng_seed is None:
        bad.append({"what": "script stored in the trajectory has no seed", "engine": kind_})
    # the keyword path: simulate(system, t_sample, ...) then re-run its stored script
    out3 = st.simulate(script.system, script.t_sample, engine=engines.get(kind_), time_step=script.time_step,
                       t_max=script.t_max, sampling_policy=script.sampling_policy,
                       sampling_interval=script.sampling_interval, units_system=script.units_system,
                       init_state_processing=script.init_state_processing)
    out4 = st.simulate_script(out3.script, engines.get(kind_))
    counts["stored_script_reruns"] += 1
    if digest(out3)[0] != digest(out4)[0]:
        bad.append({"what": "simulate(...) with no seed: stored script does not reproduce the trajectory", "engine": kind_})
    # seed (in)dependence
    _, _, sa, _ = build_script(sd, idx, override_seed=12345)
    _, _, sb, _ = build_script(sd, idx, override_seed=987654321)
    oa = st.simulate_script(sa, engines.get(kind_))
    ob = st.simulate_script(sb, engines.get(kind_))
    if kind_ == "euler":
        counts["euler_seed_pairs"] = 1
        if digest(oa)[0] != digest(ob)[0]:
            bad.append({"what": "deterministic (Euler) result depends on the seed"})
        if script.init_state_processing in ("auto", "none"):
            # the deterministic algorithm reached through the public engine class with the other value of its `requires_molecules`
            # flag (amounts handed over in molecules): still no resampling under 'auto' / 'none', still independent of the seed
            import ctypes
            from strengths.librdengine import LibRDEngine
            mk = lambda: LibRDEngine(ctypes.CDLL(engines.install()), option="euler", description="description", requires_molecules=True)
            oc, od = st.simulate_script(sa, mk()), st.simulate_script(sb, mk())
            counts["euler_seed_pairs_molecule_flag"] = 1
            if digest(oc)[0] != digest(od)[0]:
                bad.append({"what": "deterministic (Euler) result depends on the seed when the engine object is built with requires_molecules=True"})
    else:
        counts["stochastic_seed_pairs"] = 1
        counts["stochastic_seed_pairs_that_differ"] = int(digest(oa)[0] != digest(ob)[0])
    return {"bad": bad, "counts": counts, "info": info}


def run_fpenv(case):
    """Process-wide floating-point state (rounding mode, flush-to-zero / denormals-are-zero) is 'what was simulated earlier
    in the process' too: a deterministic run whose amounts are subnormal (about 1e-313) is executed first thing in a fresh
    process, then again after simulations of every engine kind on both space types; the two trajectories must be
    bit-identical.  One fresh interpreter per case."""
    use_repo()
    engines.install()
    import strengths as st
    sd, idx = case["seed"], case["idx"]
    r = gen.rng_for(sd, "C08fp", idx)

    def script_on(space_kind, tiny, kind_seed):
        rr = gen.rng_for(sd, "C08fp-s", idx, space_kind, tiny, kind_seed)
        n = rr.randint(3, 12)
        net = st.RDNetwork([st.Species("A", D=rr.uniform(0.2, 1.0), density=0), st.Species("B", D=rr.uniform(0.0, 0.5), density=0)],
                           [st.Reaction("A -> B", kf=rr.uniform(0.1, 1.0), kr=rr.uniform(0.0, 0.3))])
        if space_kind == "graph":
            nodes = [st.RDGraphSpaceNode(volume=rr.uniform(0.5, 2.0)) for _ in range(n)]
            edges = [st.RDGraphSpaceEdge(i, i + 1, surface=rr.uniform(0.5, 1.5), distance=rr.uniform(0.7, 1.4)) for i in range(n - 1)]
            space = st.RDGraphSpace(nodes, edges)
        else:
            space = st.RDGridSpace(w=n, h=1, d=1, boundary_conditions={"x": rr.choice(["reflecting", "periodical"])})
        scale = 2.0 ** -1040 if tiny else 1.0
        state = [float(rr.choice([0, rr.randint(1, 400)])) * scale for _ in range(2 * n)]
        system = st.RDSystem(net, space, state=state)
        return st.RDScript(system, t_sample=[0, 0.4], time_step=0.01, sampling_policy="on_iteration", init_state_processing="none",
                           rng_seed=rr.randrange(2 ** 31))
    bad, counts = [], {}
    probe_space = r.choice(["graph", "grid"])
    probe = script_on(probe_space, True, 0)
    first = digest(st.simulate_script(probe, engines.get("euler")))
    if not any(0.0 < abs(x) < 2.2250738585072014e-308 for x in first[3]):
        counts["fpenv_probes_without_subnormal_values"] = 1
    disturbers = [(k_, sp_) for k_ in engines.KINDS for sp_ in ("grid", "graph")]
    r.shuffle(disturbers)
    for k_, sp_ in disturbers[:r.randint(2, 6)]:
        st.simulate_script(script_on(sp_, False, k_), engines.get(k_))
    again = digest(st.simulate_script(probe, engines.get("euler")))
    counts["fpenv_probe_pairs"] = 1
    if first[0] != again[0]:
        bad.append({"what": "a deterministic run with subnormal amounts differs once other simulations have run in the process "
                            "(process-wide floating-point state changed by an engine)", "probe_space": probe_space,
                    "ran_in_between": [list(x) for x in disturbers], "first_tail": first[3], "again_tail": again[3]})
    return {"bad": bad, "counts": counts, "key": chash(["fpenv", sd, idx]), "nontrivial": True,
            "sample": {"seed": sd, "idx": idx, "probe_space": probe_space}}


def run_big_batches(case):
    """iterate_n with counts beyond 65536 (100000, 131072, 65536, 200001 ...): a run of 250 000-330 000 iterations driven in a few big
    batches, with an explicit sample() after each batch, against the same run driven in batches of at most 25 000 with samples at the
    same iteration counts - same records, bit for bit"""
    use_repo()
    engines.install()
    import strengths as st
    sd, idx = case["seed"], case["idx"]
    r = gen.rng_for(sd, "C08big", idx)
    kind_ = engines.KINDS[idx % 3]
    net = st.RDNetwork([st.Species("A", D=1.0, density=0), st.Species("B", D=0.5, density=0)], [st.Reaction("A -> B", kf=0.7, kr=0.4)])
    if r.random() < 0.5:
        space = st.RDGridSpace(w=2, h=1, d=1)
    else:
        space = st.RDGraphSpace([st.RDGraphSpaceNode(volume=1.0), st.RDGraphSpaceNode(volume=2.0)], [st.RDGraphSpaceEdge(0, 1, surface=1.0, distance=1.0)])
    system = st.RDSystem(net, space, state=[30, 10, 5, 20])
    marks = []
    tot = 0
    for k in r.sample([65536, 65537, 100000, 131072, 70001, 200001, 2 ** 16 * 3], r.randint(2, 3)):
        tot += k
        marks.append(tot)

    def script():
        return st.RDScript(system, t_sample=[0], t_max=1e9, time_step=1e-5, sampling_policy="no_sampling", rng_seed=1234 + idx,
                           init_state_processing="none")

    def drive(batches):
        e = engines.get(kind_)
        e.setup(script())
        done = 0
        for target in marks:
            while done < target:
                k = min(batches, target - done)
                e.iterate_n(k)
                done += k
            e.sample()
        out = e.get_output()
        e.finalize()
        return digest(out)
    big = drive(10 ** 9)
    small = drive(r.choice([25000, 1000, 60000]))
    bad = []
    if big[0] != small[0]:
        bad.append({"what": "iterate_n in batches beyond 65536 iterations gives other records than the same run in small batches", "engine": kind_,
                    "samples_after_iterations": marks, "big": list(big[1:]), "small": list(small[1:])})
    return {"bad": bad, "counts": {"big_batch_pairs": 1}, "key": chash(["bigbatch", sd, idx]), "nontrivial": True,
            "sample": {"seed": sd, "idx": idx, "engine": kind_, "samples_after_iterations": marks}}


def reference(case):
    """fresh process, iterate() only"""
    return run_variant({**case, "variant": "ref", "mode": "iterate", "history": None, "reuse": False})


MODES = ["iterate_n", "run0", "run1", "poll", "run5", "run1000", "mix", "run2", "iterate", "mix"]


def main():
    if len(sys.argv) > 2 and sys.argv[1] == "--replay":
        import json
        w = json.load(open(sys.argv[2]))["witness"]
        a = reference(w["case_ref"])
        b = run_variant(w["case"])
        print(a["digest"], b["digest"])
        return 0 if a["digest"] == b["digest"] else 1
    run = Run("C08",
              rule="scripts (seed, idx) over the three engines, grids and graphs from 1 to 80 cells, all sampling policies; each "
                   "script: one reference in a fresh process (iterate only) and V other executions that vary the loop driving "
                   "(iterate_n random k / run(0|1|2|5|1000) / random mixes incl. iterate_n(0)), the engine object (new / reused) and "
                   "the process history (0-3 earlier simulations of other kinds, finalized or abandoned). Distinct = (script, "
                   "driving, history); non-trivial = a driving with >= 2 calls on a run of >= 2 steps.",
              assumptions=["same binary, same machine (no cross-platform claim)",
                           "slice boundaries of run(ms) move with machine load; competing load comes from 16 parallel workers"
                           " plus, in the thorough tier, dedicated CPU-hog processes"])
    run.require("executions_compared", "run_calls_that_advanced", "stored_script_reruns", "euler_seed_pairs")
    thorough = tier() == "thorough"
    nscripts = 800 if thorough else 96
    nvar = 16 if thorough else 8
    sd = seed()
    refs = [{"seed": sd, "idx": i} for i in range(nscripts)]
    hogs = []
    try:
        if thorough:
            hogs = [subprocess.Popen([PY, "-c", "while True: pass"]) for _ in range(ncpu())]
        ref_res = pmap("vf.checks.c08:reference", refs, fresh=True, cpu_budget=120)
        import random
        rr = random.Random(sd)
        variants = []
        for i in range(nscripts):
            for v in range(nvar):
                variants.append({"seed": sd, "idx": i, "variant": v, "mode": MODES[v % len(MODES)] if v < len(MODES) else rr.choice(MODES),
                                 "reuse": rr.random() < 0.5,
                                 "history": [rr.choice([rr.randrange(nscripts) + 100000, rr.randrange(nscripts) + 100000, ["sib", rr.randrange(4)], "same", "same object"])
                                             for _ in range(rr.choice([0, 0, 1, 2, 3]))]})
        # scripts whose reference hit the harness iteration cap have nothing comparable: do not run their variants
        done_ok = {c["idx"] for c, r_ in zip(refs, ref_res) if r_["status"] == "ok" and r_["value"]["complete"]}
        variants = [v for v in variants if v["idx"] in done_ok]
        rr.shuffle(variants)
        var_res = pmap("vf.checks.c08:run_variant", variants, cpu_budget=180, share_size=12)
        extras = [{"seed": sd, "idx": i} for i in range(nscripts) if i in done_ok]
        ex_res = pmap("vf.checks.c08:run_extras", extras, cpu_budget=240)
    finally:
        for h in hogs:
            h.kill()
    refd = {}
    for c, r_ in zip(refs, ref_res):
        if r_["status"] != "ok":
            if r_["status"] in ("crash", "hang"):
                run.violation("engine " + r_["status"], {"case": c, "result": {k: r_[k] for k in r_ if k != "i"}})
            elif r_["status"] == "exception":
                run.violation("harness exception", {"case": c, "error": r_.get("error"), "tb": r_.get("tb")})
            else:
                run.inconclusive_because("reference %s: %s" % (c, r_["status"]))
            continue
        refd[c["idx"]] = r_["value"]
        if not r_["value"]["complete"]:
            run.count("references_not_completed_within_cap")
    partitions = set()
    for c, r_ in zip(variants, var_res):
        if r_["status"] != "ok":
            if r_["status"] in ("crash", "hang"):
                run.violation("engine " + r_["status"], {"case": c, "result": {k: r_[k] for k in r_ if k != "i"}})
            elif r_["status"] == "exception":
                run.violation("harness exception", {"case": c, "error": r_.get("error"), "tb": r_.get("tb")})
            else:
                run.inconclusive_because("variant %s: %s" % (c, r_["status"]))
            continue
        v = r_["value"]
        a = refd.get(c["idx"])
        if a is None:
            continue
        if not (a["complete"] and v["complete"]):
            run.count("executions_skipped_iteration_cap")     # harness cap reached: nothing comparable
            continue
        run.count("executions_compared")
        run.count("run_calls_that_advanced", v["run_calls_that_advanced"])
        run.count("mode_" + v["mode"])
        if v["history"]:
            run.count("executions_with_history")
        key = chash([c["idx"], v["mode"], v["partition"][:50], [h[:3] for h in v["history"]]])
        partitions.add(chash(v["partition"]))
        run.case(key, nontrivial=(v["ncalls"] >= 2 and a["nsamples"] >= 2),
                 sample={"script": v["info"], "mode": v["mode"], "partition_head": v["partition"][:12], "calls": v["ncalls"],
                         "history": v["history"], "nsamples": v["nsamples"]})
        if v["digest"] != a["digest"] or v["nsamples"] != a["nsamples"]:
            run.violation("trajectory differs from the fresh-process reference",
                          {"case": c, "case_ref": {"seed": sd, "idx": c["idx"]}, "mode": v["mode"], "info": v["info"],
                           "nsamples": [a["nsamples"], v["nsamples"]], "tail_ref": a["tail"], "tail": v["tail"],
                           "history": v["history"], "partition_head": v["partition"][:12]},
                          mech={"what": "differs", "mode": v["mode"], "has_history": bool(v["history"])})
    for c, r_ in zip(extras, ex_res):
        if r_["status"] != "ok":
            if r_["status"] in ("crash", "hang"):
                run.violation("engine " + r_["status"], {"case": c, "result": {k: r_[k] for k in r_ if k != "i"}})
            elif r_["status"] == "exception":
                run.violation("harness exception", {"case": c, "error": r_.get("error"), "tb": r_.get("tb")})
            else:
                run.inconclusive_because("extras %s: %s" % (c, r_["status"]))
            continue
        v = r_["value"]
        for k, n_ in v["counts"].items():
            run.count(k, n_)
        for b in v["bad"]:
            run.violation(b["what"][:60], {**b, "case": c, "info": v["info"]}, mech={"what": b["what"]})
    run.note("distinct_partitions_of_the_iteration_sequence", len(partitions))
    from vf.sandbox import run_extra as _run_extra
    _run_extra(run, "vf.checks.c08:run_fpenv", [{"seed": sd, "idx": i} for i in range(400 if thorough else 48)], cpu_budget=120, fresh=True)
    _run_extra(run, "vf.checks.c08:run_big_batches", [{"seed": sd, "idx": i} for i in range(48 if thorough else 9)], cpu_budget=300)
    run.require("fpenv_probe_pairs", "big_batch_pairs")
    return run.finish()


if __name__ == "__main__":
    sys.exit(main())
