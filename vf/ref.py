"""Independent reference models working on SI descriptions (vf.gen)."""
from fractions import Fraction as Fr

from vf.gen import cell_envs, cell_vols, in_env, ncells


# ---------------------------------------------------------------------------
# geometry

def grid_index(sp, x, y, z):
    return z * sp["w"] * sp["h"] + y * sp["w"] + x


def grid_coords(sp, i):
    w, h = sp["w"], sp["h"]
    return (i % w, (i // w) % h, i // (w * h))


def grid_faces(sp):
    """Directed face list [(i, j)] : for each cell and each of the 6 directions, the
    neighbouring cell across that face (periodic axes wrap, reflecting ones end).
    A periodic axis of length 1 yields (i, i) faces (no net effect), of length 2 yields
    the same neighbour twice: this is the engine's and the kinetics functions' convention."""
    w, h, d = sp["w"], sp["h"], sp["d"]
    dims = (w, h, d)
    per = (sp["bc"].get("x", "reflecting") == "periodical", sp["bc"].get("y", "reflecting") == "periodical",
           sp["bc"].get("z", "reflecting") == "periodical")
    out = []
    for i in range(w * h * d):
        c = grid_coords(sp, i)
        for ax in range(3):
            for step in (+1, -1):
                n = list(c)
                n[ax] += step
                if per[ax]:
                    n[ax] %= dims[ax]
                if 0 <= n[ax] < dims[ax]:
                    out.append((i, grid_index(sp, *n)))
    return out


def grid_neighbor_relation(sp):
    """set of unordered pairs {i,j}, i != j, that share at least one face"""
    return {frozenset((i, j)) for (i, j) in grid_faces(sp) if i != j}


def interfaces(sp):
    """Directed interfaces [(src, dst, surface, distance)] in SI for any space."""
    if sp["type"] == "grid":
        hcell = sp["cell_vol"] ** (1.0 / 3.0)
        return [(i, j, hcell * hcell, hcell) for (i, j) in grid_faces(sp)]
    out = []
    for e in sp["edges"]:
        out.append((e["i"], e["j"], e["sfc"], e["dst"]))
        out.append((e["j"], e["i"], e["sfc"], e["dst"]))
    return out


# ---------------------------------------------------------------------------
# rate law

def split_reactions(desc):
    """irreversible channels [(sub, prod, k_per_env_value)] in engine order (fwd, rev per reaction)"""
    out = []
    for r in desc["reactions"]:
        out.append((r["sub"], r["prod"], r["kf"]))
        out.append((r["prod"], r["sub"], r["kr"]))
    return out


def interface_D(desc, s, i, j, vols, envs_of_cells):
    envs = desc["envs"]
    sp = desc["species"][s]
    Di = in_env(sp["D"], envs[envs_of_cells[i]], 0.0)
    Dj = in_env(sp["D"], envs[envs_of_cells[j]], 0.0)
    if Di == 0 or Dj == 0:
        return 0.0
    hi = vols[i] ** (1.0 / 3.0)
    hj = vols[j] ** (1.0 / 3.0)
    return (hi + hj) / (hi / Di + hj / Dj)


def rate_law(desc, state, chemostats=None):
    """d(state)/dt in molecule/s, species-major, plus per-entry sum of |terms| (for tolerances).
    With `chemostats`, flagged entries get derivative 0 (they still act as sources)."""
    sp = desc["space"]
    n = ncells(sp)
    S = len(desc["species"])
    labels = [s["label"] for s in desc["species"]]
    vols = cell_vols(sp)
    ce = cell_envs(sp)
    envs = desc["envs"]
    d = [0.0] * (S * n)
    mag = [0.0] * (S * n)
    for (sub, prod, k) in split_reactions(desc):
        order = sum(sub.values())
        for i in range(n):
            kk = in_env(k, envs[ce[i]], 0.0)
            if kk == 0:
                continue
            rate = kk * vols[i]
            for l, c in sub.items():
                conc = state[labels.index(l) * n + i] / vols[i]
                rate *= conc ** c
            for si_, l in enumerate(labels):
                nu = prod.get(l, 0) - sub.get(l, 0)
                if nu:
                    d[si_ * n + i] += nu * rate
                    mag[si_ * n + i] += abs(nu * rate)
    for (i, j, sfc, dst) in interfaces(sp):
        if i == j:
            continue
        for s in range(S):
            Dij = interface_D(desc, s, i, j, vols, ce)
            if Dij == 0:
                continue
            flow = Dij * sfc / (dst * vols[i]) * state[s * n + i]    # out of i into j
            d[s * n + i] -= flow
            d[s * n + j] += flow
            mag[s * n + i] += abs(flow)
            mag[s * n + j] += abs(flow)
    if chemostats is not None:
        for k_, f in enumerate(chemostats):
            if f:
                d[k_] = 0.0
    return d, mag


# ---------------------------------------------------------------------------
# stochastic channels (Gillespie / tau-leap)

def max_rate(desc, state):
    """largest relative rate of change (1/s) of any entry, for choosing a stable time step: evaluated at the state itself
    and at the state with every entry raised to at least one molecule (a species that is absent now but is produced later
    diffuses / reacts with its per-molecule rates, which the state itself does not show)"""
    out = 1e-3
    for st in (list(state), [max(abs(x), 1.0) for x in state]):
        _, mag = rate_law(desc, st, None)
        out = max([out] + [m / (abs(s_) + 1.0) for m, s_ in zip(mag, st)])
    return out


def channels(desc, chemostats):
    """All channels of the master equation as
       (kind, cell, info, rate_fn(state)->propensity, delta:{state index: change} chemostat-masked)
    """
    sp = desc["space"]
    n = ncells(sp)
    labels = [s["label"] for s in desc["species"]]
    S = len(labels)
    vols = cell_vols(sp)
    ce = cell_envs(sp)
    envs = desc["envs"]
    out = []
    for ridx, (sub, prod, k) in enumerate(split_reactions(desc)):
        order = sum(sub.values())
        for i in range(n):
            kk = in_env(k, envs[ce[i]], 0.0)
            if kk == 0:
                continue
            c = kk * vols[i] ** (1 - order)
            need = [(labels.index(l) * n + i, m) for l, m in sub.items() if m > 0]
            delta = {}
            for si_, l in enumerate(labels):
                nu = prod.get(l, 0) - sub.get(l, 0)
                if nu and not chemostats[si_ * n + i]:
                    delta[si_ * n + i] = nu
            out.append(("R", i, ridx, c, need, delta))
    for (i, j, sfc, dst) in interfaces(sp):
        for s in range(S):
            Dij = interface_D(desc, s, i, j, vols, ce)
            if Dij == 0:
                continue
            c = Dij * sfc / (dst * vols[i])
            delta = {}
            if i != j:
                if not chemostats[s * n + i]:
                    delta[s * n + i] = -1
                if not chemostats[s * n + j]:
                    delta[s * n + j] = delta.get(s * n + j, 0) + 1
            out.append(("D", i, (s, j), c, [(s * n + i, 1)], delta))
    return out


def propensity(ch, state):
    a = ch[3]
    for (idx, m) in ch[4]:
        x = state[idx]
        if x < m:
            return 0.0
        for q in range(m):
            a *= (x - q)
    return a


# ---------------------------------------------------------------------------
# conservation laws

def left_null_space(desc, excluded_species=()):
    """Integer basis of {c : c . nu_r = 0 for every reaction r} restricted to species
    not in `excluded_species` (their coefficient is forced to 0)."""
    labels = [s["label"] for s in desc["species"]]
    keep = [i for i, l in enumerate(labels) if i not in excluded_species]
    rows = []
    for r in desc["reactions"]:
        nu = [Fr(r["prod"].get(labels[i], 0) - r["sub"].get(labels[i], 0)) for i in keep]
        if any(nu):
            rows.append(nu)
    # note: a reaction whose net change touches an excluded species still constrains the kept ones
    m = len(keep)
    # null space of matrix rows (R x m): vectors c with rows . c = 0
    A = [row[:] for row in rows]
    piv = []
    rr = 0
    for col in range(m):
        p = None
        for k in range(rr, len(A)):
            if A[k][col] != 0:
                p = k
                break
        if p is None:
            continue
        A[rr], A[p] = A[p], A[rr]
        inv = A[rr][col]
        A[rr] = [x / inv for x in A[rr]]
        for k in range(len(A)):
            if k != rr and A[k][col] != 0:
                f = A[k][col]
                A[k] = [a - f * b for a, b in zip(A[k], A[rr])]
        piv.append(col)
        rr += 1
    free = [c for c in range(m) if c not in piv]
    basis = []
    for fcol in free:
        v = [Fr(0)] * m
        v[fcol] = Fr(1)
        for k, pc in enumerate(piv):
            v[pc] = -A[k][fcol]
        den = 1
        for x in v:
            den = den * x.denominator // _gcd(den, x.denominator)
        iv = [int(x * den) for x in v]
        full = [0] * len(labels)
        for a, i in zip(iv, keep):
            full[i] = a
        basis.append(full)
    return basis


def _gcd(a, b):
    while b:
        a, b = b, a % b
    return abs(a)
