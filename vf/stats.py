"""Sequential statistical monitors with rigorous finite-sample false-alarm bounds.

* Ville test: for increments Y_n with known conditional log-MGF psi_n(theta) under the property,
  L_N(theta) = exp(theta*sum Y_n - sum psi_n(theta)) is a non-negative martingale of mean 1, hence
  P(sup_N L_N >= 1/alpha') <= alpha'.  We evaluate it on a fixed grid of K thetas and alarm when
  any log L_N exceeds ln(K/alpha): total false-alarm probability <= alpha per monitored statistic.
* Randomised PIT + DKW: U_n = F_n(Y_n - 1) + V_n * f_n(Y_n) is i.i.d. uniform under the property,
  whatever the history; P(sup |F_hat_N - id| > eps) <= 2 exp(-2 N eps^2).
"""
import math

ALPHA = 1e-12


def theta_grid(scales=(1e-3, 3e-3, 1e-2, 3e-2, 0.1, 0.3, 0.7)):
    g = []
    for s in scales:
        g += [s, -s]
    return g


class Ville:
    """generic exponential-supermartingale monitor; feed (y, psi(theta) for each theta)"""

    def __init__(self, name, thetas=None, alpha=ALPHA):
        self.name = name
        self.thetas = list(thetas or theta_grid())
        self.logL = [0.0] * len(self.thetas)
        self.maxlog = [0.0] * len(self.thetas)
        self.n = 0
        self.alpha = alpha
        self.sum_y = 0.0
        self.sum_mean = 0.0

    def threshold(self):
        return math.log(len(self.thetas) / self.alpha)

    def add(self, y, psi_fn, mean=None):
        """psi_fn(theta) -> conditional log-MGF of y at theta (must be finite)"""
        self.n += 1
        self.sum_y += y
        if mean is not None:
            self.sum_mean += mean
        for i, th in enumerate(self.thetas):
            self.logL[i] += th * y - psi_fn(th)
            if self.logL[i] > self.maxlog[i]:
                self.maxlog[i] = self.logL[i]

    def add_poisson(self, y, lam):
        self.add(y, lambda th: lam * math.expm1(th), mean=lam)

    def add_bernoulli(self, y, p):
        self.add(y, lambda th: math.log1p(p * math.expm1(th)), mean=p)

    def add_exp1(self, y):
        """y ~ Exp(1): psi = -ln(1 - theta), needs theta < 1"""
        self.add(y, lambda th: -math.log1p(-th), mean=1.0)

    def alarm(self):
        return max(self.maxlog) > self.threshold() if self.n else False

    def summary(self):
        return {"name": self.name, "n": self.n, "max_logL": round(max(self.maxlog), 3) if self.n else 0.0,
                "threshold": round(self.threshold(), 3), "sum_y": self.sum_y, "sum_expected": self.sum_mean}

    def merge_state(self):
        return {"logL": self.logL, "maxlog": self.maxlog, "n": self.n, "sum_y": self.sum_y, "sum_mean": self.sum_mean}


class PIT:
    """randomised probability-integral transform + DKW band"""

    def __init__(self, name, alpha=ALPHA):
        self.name = name
        self.u = []
        self.alpha = alpha

    def add(self, cdf_below, pmf, v):
        """cdf_below = F(y-1), pmf = f(y), v uniform from the harness RNG"""
        self.u.append(cdf_below + v * pmf)

    def add_continuous(self, cdf):
        self.u.append(cdf)

    def eps(self):
        n = len(self.u)
        return math.sqrt(math.log(2.0 / self.alpha) / (2.0 * n)) if n else float("inf")

    def sup_dev(self):
        u = sorted(self.u)
        n = len(u)
        d = 0.0
        for i, x in enumerate(u):
            d = max(d, abs((i + 1) / n - x), abs(i / n - x))
        return d

    def alarm(self):
        return len(self.u) >= 50 and self.sup_dev() > self.eps()

    def summary(self):
        n = len(self.u)
        return {"name": self.name, "n": n, "sup_dev": round(self.sup_dev(), 5) if n else None,
                "dkw_eps": round(self.eps(), 5) if n else None}


def poisson_pmf_cdf(k, lam):
    """(F(k-1), f(k)) for Poisson(lam), k integer >= 0; stable for lam up to ~1e5"""
    if lam <= 0:
        return (0.0, 1.0) if k == 0 else (1.0, 0.0)
    if k < 0:
        return 0.0, 0.0
    logf = lambda j: -lam + j * math.log(lam) - math.lgamma(j + 1)
    fk = math.exp(logf(k))
    # F(k-1) by summation from the mode side that is shorter
    if k == 0:
        return 0.0, fk
    if k <= lam:
        # sum j=0..k-1 going downward from k-1 (terms decrease)
        s, term, j = 0.0, math.exp(logf(k - 1)), k - 1
        while j >= 0 and term > 1e-320:
            s += term
            term *= j / lam
            j -= 1
        return min(1.0, s), fk
    # upper tail: 1 - sum j>=k
    s, term, j = 0.0, fk, k
    while term > 1e-320 and j < k + 100000:
        s += term
        j += 1
        term *= lam / j
    return max(0.0, 1.0 - s), fk
