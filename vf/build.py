"""Builds of the native engine from the working tree (never the prebuilt .so)."""
import fcntl
import glob
import hashlib
import os
import subprocess

from vf.common import BUILD, ENGINE_SRC

VARIANTS = {
    # setup.py's flags minus the CPython stub
    "plain": ["g++", "-std=c++11", "-O2", "-fPIC", "-shared"],
    "asan": ["clang++-14", "-std=c++11", "-O1", "-g", "-fno-omit-frame-pointer",
             "-fsanitize=address,undefined,float-cast-overflow",
             "-fsanitize-recover=all", "-shared-libasan", "-fPIC", "-shared"],
    "hard": ["g++", "-std=c++11", "-O1", "-g", "-D_GLIBCXX_ASSERTIONS", "-fPIC", "-shared"],
    "debug": ["g++", "-std=c++11", "-O0", "-g", "-fPIC", "-shared"],
}


class BuildError(Exception):
    pass


def source_hash():
    h = hashlib.sha1()
    files = sorted(glob.glob(os.path.join(ENGINE_SRC, "*.cpp")) + glob.glob(os.path.join(ENGINE_SRC, "*.hpp")))
    if not files:
        raise BuildError("no engine sources under " + ENGINE_SRC)
    for p in files:
        h.update(os.path.basename(p).encode())
        with open(p, "rb") as f:
            h.update(f.read())
    return h.hexdigest()[:16]


def engine_path(variant="plain"):
    """Return the path of the engine library for `variant`, building it from the
    working tree if this exact source hash has not been built yet."""
    os.makedirs(BUILD, exist_ok=True)
    h = source_hash()
    out = os.path.join(BUILD, "engine-%s-%s.so" % (variant, h))
    if os.path.exists(out):
        return out
    lock = open(os.path.join(BUILD, ".lock-" + variant), "w")
    fcntl.flock(lock, fcntl.LOCK_EX)
    try:
        if os.path.exists(out):
            return out
        tmp = out + ".tmp%d" % os.getpid()
        cmd = VARIANTS[variant] + [os.path.join(ENGINE_SRC, "engine.cpp"), "-o", tmp]
        p = subprocess.run(cmd, capture_output=True, text=True, timeout=600)
        if p.returncode != 0:
            raise BuildError("build of variant %s failed:\n%s" % (variant, p.stderr[-4000:]))
        os.replace(tmp, out)
        # drop stale builds of this variant (old ones only: a concurrent check on another tree may use them)
        import time
        for old in glob.glob(os.path.join(BUILD, "engine-%s-*.so" % variant)):
            try:
                if old != out and time.time() - os.path.getmtime(old) > 6 * 3600:
                    os.remove(old)
            except OSError:
                pass
        return out
    finally:
        fcntl.flock(lock, fcntl.LOCK_UN)
        lock.close()


def asan_runtime():
    p = subprocess.run(["clang++-14", "-print-file-name=libclang_rt.asan-x86_64.so"], capture_output=True, text=True)
    return p.stdout.strip()


if __name__ == "__main__":
    import sys
    for v in (sys.argv[1:] or ["plain"]):
        print(v, engine_path(v))
